from common import *
import logging; logging.disable(logging.CRITICAL)
import os, tempfile, shutil
from astropy.io import fits
rng=np.random.default_rng(160)
bad={}
def flag(k,info=None):
    bad.setdefault(k,[0,None]); bad[k][0]+=1
    if bad[k][1] is None: bad[k][1]=info
tmp=tempfile.mkdtemp()
for flip in (False,True):
    conf.instance['general']['fits']['flip_for_ds9']=flip
    for t in range(40):
        H,W=[(1,5),(5,1),(2,3),(4,4),(3,7)][t%5]
        ps=[1.0,0.3,(0.5,0.5),(0.5,2.0)][t%4]
        vals=rng.normal(size=(H,W))*10.0**rng.integers(-5,6)
        m=rmask(rng,H,W,p=0.4)
        mask=aa.Mask2D(mask=m,pixel_scales=ps)
        a=aa.Array2D(values=vals,mask=mask)
        exp=np.where(m,0,vals)
        f=os.path.join(tmp,f'd{t}_{int(flip)}',f'sub','a.fits')
        a.output_to_fits(f)
        b=aa.Array2D.from_fits(f,pixel_scales=ps)
        if not np.array_equal(b.native.array,exp): flag(f'Array2D file flip={flip}',(H,W))
        raw=fits.open(f)[0].data
        if not np.array_equal(raw,np.flipud(exp) if flip else exp): flag(f'raw orientation flip={flip}')
        b=aa.Array2D.from_primary_hdu(a.hdu_for_output)
        if not np.array_equal(b.native.array,exp): flag(f'Array2D hdu flip={flip}')
        psn=(ps,ps) if not isinstance(ps,tuple) else ps
        if tuple(b.pixel_scales)!=tuple(psn): flag(f'pixscale hdu {psn}',tuple(b.pixel_scales))
        # overwrite semantics
        try:
            a.output_to_fits(f); flag('overwrite w/o flag allowed')
        except OSError: pass
        small=aa.Array2D.no_mask(values=np.ones((1,1)),pixel_scales=1.0); small.output_to_fits(f,overwrite=True)
        if aa.Array2D.from_fits(f,pixel_scales=1.0).shape_native!=(1,1): flag('overwrite not replaced')
        # mask
        mf=os.path.join(tmp,f'm{t}_{int(flip)}.fits'); mask.output_to_fits(mf)
        mb=aa.Mask2D.from_fits(mf,pixel_scales=ps)
        if not np.array_equal(np.array(mb),m): flag(f'Mask2D file flip={flip}')
        mi=aa.Mask2D.from_fits(mf,pixel_scales=ps,invert=True)
        if not np.array_equal(np.array(mi),~m): flag(f'Mask2D invert flip={flip}')
        mr=aa.Mask2D.from_fits(mf,pixel_scales=ps,resized_mask_shape=(H+2,W+2))
        if mr.shape_native!=(H+2,W+2) or not np.array_equal(np.array(mr)[1:-1,1:-1],m): flag('Mask2D resized')
        mh=aa.Mask2D.from_primary_hdu(mask.hdu_for_output)
        if not np.array_equal(np.array(mh),m): flag(f'Mask2D hdu flip={flip}')
        # kernel (odd or not irrelevant)
        k=aa.Kernel2D.no_mask(values=vals,pixel_scales=ps)
        kf=os.path.join(tmp,f'k{t}_{int(flip)}.fits'); k.output_to_fits(kf)
        kb=aa.Kernel2D.from_fits(kf,hdu=0,pixel_scales=ps)
        if not np.array_equal(kb.native.array,vals): flag(f'Kernel2D file flip={flip}')
        # multi-hdu
        hf=os.path.join(tmp,f'h{t}_{int(flip)}.fits')
        other=rng.normal(size=(H,W))
        fits.HDUList([fits.PrimaryHDU(np.flipud(other) if flip else other),fits.ImageHDU(np.flipud(vals) if flip else vals)]).writeto(hf)
        if not np.array_equal(aa.Array2D.from_fits(hf,pixel_scales=ps,hdu=1).native.array,vals): flag('hdu=1')
        # 1D
        v1=rng.normal(size=W); a1=aa.Array1D.no_mask(values=v1,pixel_scales=0.5)
        f1=os.path.join(tmp,f'a1_{t}_{int(flip)}.fits'); a1.output_to_fits(f1)
        if not np.array_equal(aa.Array1D.from_fits(f1,pixel_scales=0.5).native.array,v1): flag(f'Array1D file flip={flip}')
        if not np.array_equal(aa.Array1D.from_primary_hdu(a1.hdu_for_output).native.array,v1): flag(f'Array1D hdu flip={flip}')
        m1=aa.Mask1D(mask=rng.random(W)<0.5,pixel_scales=(0.5,)); fm1=os.path.join(tmp,f'm1_{t}_{int(flip)}.fits'); m1.output_to_fits(fm1)
        if not np.array_equal(np.array(aa.Mask1D.from_fits(fm1,pixel_scales=0.5)),np.array(m1)): flag(f'Mask1D file flip={flip}')
        if not np.array_equal(np.array(aa.Mask1D.from_primary_hdu(m1.hdu_for_output)),np.array(m1)): flag(f'Mask1D hdu flip={flip}')
        # imaging
        if H%2 and W%2:
            pass
        data=aa.Array2D.no_mask(values=vals,pixel_scales=psn); noise=aa.Array2D.no_mask(values=np.abs(vals)+1,pixel_scales=psn)
        psf=aa.Kernel2D.no_mask(values=rng.random((3,3)),pixel_scales=psn)
        ds=aa.Imaging(data=data,noise_map=noise,psf=psf,use_normalized_psf=False)
        dd=os.path.join(tmp,f'im{t}_{int(flip)}')
        ds.output_to_fits(data_path=dd+'/data.fits',psf_path=dd+'/psf.fits',noise_map_path=dd+'/noise.fits')
        ds2=aa.Imaging.from_fits(pixel_scales=psn,data_path=dd+'/data.fits',psf_path=dd+'/psf.fits',noise_map_path=dd+'/noise.fits')
        if not (np.array_equal(ds2.data.native.array,vals) and np.array_equal(ds2.noise_map.native.array,np.abs(vals)+1)): flag(f'Imaging flip={flip}')
cwd=os.getcwd(); os.chdir(tmp)
try:
    for nm,obj in [('Array2D',a),('Mask2D',mask),('Array1D',a1),('Mask1D',m1)]:
        try: obj.output_to_fits(f'bare_{nm}.fits',overwrite=True)
        except Exception as e: flag(f'bare {nm} {type(e).__name__}')
finally: os.chdir(cwd)
shutil.rmtree(tmp)
for k,v in bad.items(): print(k,v)
print('done')
