from common import *
import sys, time
from autoarray.util import fnnls
mon=sys.monitoring; TOOL=mon.PROFILER_ID
mon.use_tool_id(TOOL,'verif')
counts={}; captured=[]
targets={fnnls.fnnls_cholesky.__code__:'fnnls_cholesky', fnnls.fix_constraint_cholesky.__code__:'fix_constraint'}
def on_start(code,off):
    counts[targets[code]]=counts.get(targets[code],0)+1
def on_return(code,off,retval):
    if targets[code]=='fnnls_cholesky':
        f=sys._getframe(1)
        captured.append({k:(int(f.f_locals[k]) if k in f.f_locals else None) for k in ('loop_count','loop_count2','no_update')}|{'warm':int(f.f_locals['P_initial'].shape[0]!=0)})
mon.register_callback(TOOL,mon.events.PY_START,on_start)
mon.register_callback(TOOL,mon.events.PY_RETURN,on_return)
for c in targets: mon.set_local_events(TOOL,c,mon.events.PY_START|mon.events.PY_RETURN)
rng=np.random.default_rng(0)
for t in range(50):
    n=8; Z=rng.normal(size=(12,n)); A=Z.T@Z+1e-3*np.eye(n); b=Z.T@rng.normal(size=12)
    fnnls.fnnls_cholesky(A,b,P_initial=np.linalg.solve(A,b)>0)
print(counts, captured[:3])
