from common import *
import logging; logging.disable(logging.CRITICAL)
import sys
sys.argv=[sys.argv[0],'0']
from p04b import gen, conv_ref
bad={}
def flag(k,info=None):
    bad.setdefault(k,[0,None]); bad[k][0]+=1
    if bad[k][1] is None: bad[k][1]=info
def kkt(A,D,s,free):
    g=A@s-D; sc=np.linalg.norm(A,2)*np.linalg.norm(s)+np.linalg.norm(D); tol=1e-9*sc
    Af=free
    ok = (s>=-1e-12*max(1,np.abs(s).max())).all()
    pos=(s>1e-10*max(1,np.abs(s).max()))&Af; zer=(~pos)&Af
    return ok and (np.abs(g[pos])<=tol).all() and (g[zer]>=-tol).all(), (np.abs(g[pos]).max() if pos.any() else 0, g[zer].min() if zer.any() else 0, tol)
N=0
for seed in range(60):
    ds,objs,m,k=gen(seed)
    rng=np.random.default_rng(seed)
    # shift data: positive / zero-mean / negative
    shift=[2.0,0.0,-2.0][seed%3]
    ds=aa.Imaging(data=ds.data+shift,noise_map=ds.noise_map,psf=ds.psf,use_normalized_psf=False,over_sampling=ds.over_sampling)
    for pinit in (True,False):
        for edge in (True,False):
            st=aa.SettingsInversion(use_w_tilde=bool(seed%2),use_positive_only_solver=True,positive_only_uses_p_initial=pinit,force_edge_pixels_to_zeros=edge,no_regularization_add_to_curvature_diag_value=1e-3)
            inv=aa.Inversion(dataset=ds,linear_obj_list=objs,settings=st)
            try:
                s=inv.reconstruction
            except Exception as e:
                flag(f'exc pinit={pinit} edge={edge} '+type(e).__name__,(seed,)); continue
            A=inv.curvature_reg_matrix; D=inv.data_vector
            free=np.ones(len(s),bool)
            if edge:
                z=np.array(inv.mapper_edge_pixel_list,dtype=int)
                if len(z):
                    free[z]=False
                    if np.abs(s[z]).max()!=0: flag('forced not zero')
            Ar=A[np.ix_(free,free)]; ok,info=kkt(Ar,D[free],s[free],np.ones(free.sum(),bool))
            if not ok: flag(f'KKT pinit={pinit} edge={edge}',(seed,info,np.linalg.cond(Ar)))
            N+=1
print(N)
for kk,v in bad.items(): print(kk,v)
