#!/usr/bin/env python3
"""
Confirms a seeded change produced by an independent sub-agent and runs the checks against it.

  tools/seed_eval.py C04 a [--props C04,C11] [--thorough] [--keep]

Steps (all in a scratch worktree under /tmp/verif_mut, removed afterwards; /repo is never modified):
  1. demo.py on the unchanged /repo            -> must exit 0
  2. apply patch.diff to a fresh worktree; demo.py there -> must exit non-zero
  3. repository suite in the patched worktree  -> all 699 baseline tests must still pass
  4. quick tier (then thorough if quick is silent and --thorough) of each listed property's check
Writes /verif/seeded/<ID>_<x>/{patch.diff,demo.py,notes.md,meta.json}.
"""
import json, os, shutil, subprocess, sys, time
ID, X = sys.argv[1], sys.argv[2]
props = [ID]
thorough = "--thorough" in sys.argv
for i, a in enumerate(sys.argv):
    if a == "--props":
        props = sys.argv[i + 1].split(",")
src = f"/tmp/seed/out/{ID}/{X}"
dst = f"/verif/seeded/{ID}_{X}"
if not os.path.exists(src + "/patch.diff") and os.path.exists(dst + "/patch.diff"):
    src = dst
tag = f"seed_{ID}_{X}"
wt = f"/tmp/verif_mut/{tag}"
def sh(cmd, **k):
    return subprocess.run(cmd, capture_output=True, text=True, **k)
env = dict(os.environ, PYTHONDONTWRITEBYTECODE="1")
meta = {"seed": f"{ID}_{X}", "breaks_property": ID, "ran": []}
r0 = sh(["/venv/bin/python", src + "/demo.py", "/repo"], env=env, cwd="/tmp")
meta["demo_on_unchanged_repo_exit"] = r0.returncode
sh(["/verif/tools/mutant.py", "rm", tag])
sh(["/verif/tools/mutant.py", "new", tag])
ra = sh(["git", "-C", wt, "apply", "--whitespace=nowarn", src + "/patch.diff"])
meta["patch_applies"] = ra.returncode == 0
if ra.returncode != 0:
    print("patch does not apply:", ra.stderr[-500:])
r1 = sh(["/venv/bin/python", src + "/demo.py", wt], env=env, cwd="/tmp")
meta["demo_with_change_exit"] = r1.returncode
meta["demo_with_change_tail"] = (r1.stdout + r1.stderr)[-400:]
rs = sh(["/verif/tools/mutant.py", "suite", tag])
meta["suite"] = rs.stdout.strip()[-300:]
meta["suite_green"] = rs.returncode == 0
meta["confirmed"] = bool(meta["patch_applies"] and r0.returncode == 0 and r1.returncode != 0 and meta["suite_green"])
for p in props:
    for tier in (["quick", "thorough"] if thorough else ["quick"]):
        t = time.time()
        rr = sh(["/verif/tools/mutant.py", "run", tag, p, tier])
        out = rr.stdout
        caught = "VIOLATION property=%s" % p in out
        mons = sorted({l.split("monitor=")[1].split(" ")[0] for l in out.splitlines() if l.strip().startswith("monitor=")})
        for l in out.splitlines():
            if l.strip().startswith("fired monitors:"):
                mons = sorted(x.rsplit(" x", 1)[0] for x in l.split(":", 1)[1].strip().split(", "))
        verdict = [l for l in out.splitlines() if "verdict=" in l]
        meta["ran"].append({"check": p, "tier": tier, "exit": rr.returncode, "caught": caught, "monitors_fired": mons,
                            "summary": verdict[-1] if verdict else out[-300:], "wall_s": round(time.time() - t, 1)})
        print(p, tier, "exit", rr.returncode, "caught" if caught else "MISSED", mons[:6])
        if caught:
            break
if "--keep" not in sys.argv:
    sh(["/verif/tools/mutant.py", "rm", tag])
os.makedirs(dst, exist_ok=True)
for f in ("patch.diff", "demo.py", "notes.md"):
    if os.path.exists(f"{src}/{f}") and src != dst:
        shutil.copy(f"{src}/{f}", f"{dst}/{f}")
old = {}
if os.path.exists(dst + "/meta.json"):
    old = json.load(open(dst + "/meta.json"))
meta["needs_to_manifest"] = old.get("needs_to_manifest", "see notes.md")
meta["what_was_run"] = ["tools/seed_eval.py %s %s  (demo on /repo -> exit 0; patch applied in a scratch worktree: demo -> exit != 0; repository suite there; then `VERIF_REPO=<worktree> python -m harness.run <check> --tier quick`)" % (ID, X)]
json.dump(meta, open(dst + "/meta.json", "w"), indent=1)
print("confirmed" if meta["confirmed"] else "NOT CONFIRMED", {k: meta[k] for k in ("demo_on_unchanged_repo_exit", "demo_with_change_exit", "suite_green")})
