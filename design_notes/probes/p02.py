from common import *
rng=np.random.default_rng(22)
bad={}
def flag(k,info=None):
    bad.setdefault(k,[0,None]); bad[k][0]+=1
    if bad[k][1] is None: bad[k][1]=info
for t in range(150):
    H,W=rng.integers(1,9),rng.integers(1,9)
    sy,sx=np.exp(rng.uniform(np.log(0.05),np.log(20),2)); oy,ox=rng.normal(size=2)*np.array([sy,sx])*10
    mask=aa.Mask2D.all_false(shape_native=(H,W),pixel_scales=(sy,sx),origin=(oy,ox))
    geo=mask.geometry
    ext=geo.extent
    if not np.allclose(ext,(ox-W*sx/2,ox+W*sx/2,oy-H*sy/2,oy+H*sy/2)): flag('extent')
    g=aa.Grid2D.from_mask(mask).native.array
    pts=[];exp=[]
    for i in range(H):
        for j in range(W):
            cy=oy+((H-1)/2-i)*sy; cx=ox+(j-(W-1)/2)*sx
            if not np.allclose(g[i,j],(cy,cx),atol=1e-9*max(sy,sx,1)): flag('centre',(H,W,i,j))
            if geo.pixel_coordinates_2d_from((cy,cx))!=(i,j): flag('pix of centre')
            if not np.allclose(geo.scaled_coordinates_2d_from((i,j)),(cy,cx)): flag('scaled of pix')
            for _ in range(3):
                fy,fx=rng.uniform(-0.499999,0.499999,2)
                pts.append((cy+fy*sy,cx+fx*sx)); exp.append((i,j))
    pts=np.array(pts); exp=np.array(exp)
    gi=aa.Grid2DIrregular(values=pts)
    class G:  # minimal grid w/ mask attr for Grid2D wrap
        pass
    from autoarray.geometry import geometry_util as gu
    cen=gu.grid_pixel_centres_2d_slim_from(pts,(H,W),(sy,sx),(oy,ox))
    idx=gu.grid_pixel_indexes_2d_slim_from(pts,(H,W),(sy,sx),(oy,ox))
    if not np.array_equal(cen,exp): flag('centres slim',(H,W))
    if not np.array_equal(idx,exp[:,0]*W+exp[:,1]): flag('indexes')
    px=gu.grid_pixels_2d_slim_from(pts,(H,W),(sy,sx),(oy,ox)); back=gu.grid_scaled_2d_slim_from(px,(H,W),(sy,sx),(oy,ox))
    if not np.allclose(back,pts,atol=1e-9*max(sy,sx,1)): flag('pixels roundtrip')
    # masks
    r=rng.uniform(0.3,1.2)*min(H*sy,W*sx)/2; c=(rng.normal()*sy,rng.normal()*sx)
    mc=aa.Mask2D.circular(shape_native=(H,W),radius=r,pixel_scales=(sy,sx),centre=c,origin=(oy,ox))
    q=rng.uniform(0.2,1); phi=rng.uniform(0,360)
    me=aa.Mask2D.elliptical(shape_native=(H,W),major_axis_radius=r,axis_ratio=q,angle=phi,pixel_scales=(sy,sx),centre=c)
    for i in range(H):
        for j in range(W):
            cy=((H-1)/2-i)*sy; cx=(j-(W-1)/2)*sx
            dy,dx=cy-c[0],cx-c[1]; rr=np.hypot(dy,dx)
            if abs(rr-r)>1e-9*max(1,r) and bool(mc[i,j])!=(not rr<=r): flag('circ',(H,W,i,j))
            p=np.radians(phi); xe=dx*np.cos(p)+dy*np.sin(p); ye=-dx*np.sin(p)+dy*np.cos(p); re=np.hypot(xe,ye/q)
            if abs(re-r)>1e-9*max(1,r) and bool(me[i,j])!=(not re<=r): flag('ell',(H,W,i,j,re,r))
for k,v in bad.items(): print(k,v)
print('done')
