"""
C16 - FITS output followed by input reproduces values, orientation and pixel scale.

Workload. Per (class, flip_for_ds9, case index) one object is generated (Array2D masked/unmasked/native-stored,
Mask2D, Kernel2D, Array1D masked/unmasked, Mask1D, Imaging = data + noise map + PSF, masked or not) with a shape
from the strata 1xN / Nx1 / wide / tall / square / random <= 12x15 / FITS-block-boundary (359..361 values),
non-symmetric unique-valued content with both signs and the literal magnitudes +-1e-300, +-1e300, 5e-324,
isotropic (float or tuple) / anisotropic pixel scales. The DS9 flip is switched through the autoconf
configuration directories config/fits_flip0 and config/fits_flip1 (env.push_config, once per unit; every case
re-reads the flag) and the object is pushed through

  * the HDU path      obj.hdu_for_output -> Cls.from_primary_hdu             (values, shape, header pixel scale)
  * the file path     obj.output_to_fits -> Cls.from_fits(pixel_scales=...)  (values, shape) and, for the header
                      claim, astropy.open(file)[0] -> Cls.from_primary_hdu   (pixel scale carried by the file)
    in every target state: absent, absent + overwrite=True, nested missing directories (absolute and relative,
    str and pathlib.Path), bare file name with cwd = scratch, present + overwrite=False (must fail, old bytes
    intact), present + overwrite=True (old multi-HDU file larger - or smaller - than the new one; the result must
    be byte-identical to a fresh write); Imaging additionally with only one of the later files present and
    overwrite=False (must fail, that file intact),
  * multi-extension   2..4 objects' hdu_for_output assembled by astropy into one file, each read with hdu=k
                      (Imaging: data_hdu / noise_map_hdu / psf_hdu of one file),
  * Mask2D.from_fits(invert=True), (resized_mask_shape = shape +- 2*(a, b)): centre block / trimmed block.

Oracle. Exact equality (DESIGN 1.8: pure data movement) against NumPy expressions written here:
np.where(mask, 0, values) for arrays, the boolean array for masks; the raw HDU data seen by astropy must be
np.flipud(expected) with the flip on (2-D) and `expected` itself with the flip off or in 1-D, so "applied on
output, undone on input" is observed and not only the composition - the monitors flip1.observed_in_raw_* /
flip0.observed_in_raw_* are evaluated only where flipud(expected) != expected and prove that the configuration
switch took effect. Imaging.from_fits re-normalises the PSF, so that one component is compared with
K / sum(K) at rtol 1e-12; everything else is exact. Contracts on array_2d_util.hdu_for_output_from,
numpy_array_2d_via_fits_from and array_1d_util.hdu_for_output_from see the internal calls (Imaging).
File-system behaviour is decided by the audit-hook trace checker (harness/monitors/audit.py) over the
events of every single write / refused write / read: nothing is opened for writing, removed, created or
renamed outside the unit's scratch directory; for overwrite on an existing path a remove (or truncating open)
of that path precedes the write and nothing is appended; each missing directory gets its mkdir before the
write; a refused write does not touch the target; reads modify nothing.

Only what the statement says is demanded: pixel scales are an explicit argument of every from_fits, the
header claim is checked where a header is read (from_primary_hdu); padded cells of a resized mask and the
origin are not checked.

Validated against (tools/mutant.py; every mutant keeps the repository suite at 699/699 baseline passes and is
caught by the quick tier; in brackets the monitors that fired):
  m1   flip only on read, masks: Mask2D.output_to_fits pre-flips so the file holds un-flipped data
       [file.raw_orientation, flip1.observed_in_raw_file, roundtrip.file_then_primary_hdu.Mask2D]
  m2   flip on the 2-D file path but not the HDU path: Array2D.from_primary_hdu does not un-flip
       [roundtrip.hdu.Array2D, roundtrip.file_then_primary_hdu.Array2D]
  m3   overwrite by append: fits.append(file_path, ...) instead of remove + writeto in numpy_array_2d_to_fits
       [audit.remove_precedes_write, overwrite.replaced, file.raw_orientation, roundtrip.file.*]
  m4a  overwrite succeeds silently without the flag: hdu.writeto(file_path, overwrite=True) (2-D)
       [overwrite.refused, overwrite.old_intact, audit.refused_write_untouched]
  m4b  overwrite silently ignored: `return` when the target exists (1-D) [file.raw_orientation, overwrite.replaced, ...]
  m5   header key typo: PIXSCALEX written as PIXSCALX [read.unexpected_exception (KeyError) on anisotropic scales]
  m6   revert of 06cbca2 (bare file name -> os.makedirs(''))        [write.succeeds in state 'bare']
  m7   revert of fc30897 (Array1D.hdu_for_output through the 2-D helper) [flip.one_dimensional_not_reversed, roundtrip.hdu.Array1D]
  m8   revert of acf401b (PIXSCALEY / PIXSCALEX)                     [pixel_scale.hdu_header.aniso, pixel_scale.file_header.aniso]
  m9   own, subtle: np.flipud -> np.roll(+1 / -1, axis 0) in hdu_for_output_from, numpy_array_2d_via_fits_from and
       flip_hdu_for_ds9: write then read is still the identity and for 2 rows roll == flipud (the suite's only flip test
       is 2x2), only the raw-orientation monitors and the contracts see it (needs >= 3 rows)
  m10  own, subtle: pixel_scales_from_header returns (PIXSCALEX, PIXSCALEY) - needs anisotropic scales [pixel_scale.*.aniso]
  m11  own: os.makedirs -> os.mkdir, one missing level still works, nested missing directories fail [write.succeeds in 'nested_*']
  m12  own, subtle: the read path un-flips only square arrays (the suite's flip test is square) [roundtrip.file.*, contract]
  m13  own: Array2D.hdu_for_output casts to float32 (+-1e300 -> inf, 1e-300 -> 0, mantissas cut) [hdu.raw_orientation, roundtrip.hdu.*]
  m14  own: a bare file name is written into another directory instead of the cwd [audit.confined_to_scratch, bare_name.in_cwd]
  m15  own, subtle: Imaging.output_to_fits always overwrites the noise map - only visible when the data file is absent and
       the noise-map file exists (state present_refused_partial) [overwrite.refused, overwrite.old_intact, audit.refused_write_untouched]
  m16  own: PIXSCALE stored with float32 precision [pixel_scale.hdu_header.iso, pixel_scale.file_header.iso]
  m19  own, subtle: overwrite by writing the new bytes over the old file without truncation (r+b) - invisible when the
       old file is not larger than the new one [audit.remove_precedes_write, overwrite.replaced]
A dead / bypassed audit hook (simulated by never installing it) yields INCONCLUSIVE through the self-test in setup and the
audit.write_not_seen / audit.read_not_seen counters, not 'held'.
"""
import contextlib
import os
import pathlib
import shutil
import tempfile
import traceback

import numpy as np

from harness import env, gen
from harness.monitors import audit, contracts

ID = "C16"
NO = 16
RULE = ("a case = (class, flip_for_ds9, generated object): shape stratum x value family x mask family x pixel-scale "
        "family drawn from rng(seed, 16, class, index) - the same object is run under flip off and flip on; per case "
        "the HDU path, seven target states of the file path (Imaging: eight; str and pathlib paths), a multi-extension file and (Mask2D) "
        "invert/resized reads are executed. distinct = hash of (class, flip, expected native values, mask, pixel "
        "scales); non-trivial = unmasked values pairwise distinct (masks: both booleans present) and, for 2-D shapes "
        "with >= 2 rows, flipud(expected) != expected (1-D: reversed(expected) != expected), so an orientation error "
        "cannot hide; symmetric / constant draws are executed but counted trivial")
BOUNDS = {"quick": "6 classes x (2 flip settings x 48 objects + 24 objects with the option switched between consecutive cases), shapes <= 12x15 plus the 359/360/361-value block-boundary "
                   "shapes, <= 4 HDUs per multi-extension file",
          "thorough": "6 classes x 2 flip settings x 600 objects, same strata (silent for seeds 0-4 also at 840 objects)"}
EXHAUSTIVE = {"quick": False, "thorough": False}
ASSUMPTIONS = ["A2: astropy is trusted to write/read float64 images and header cards; it is also the independent reader of "
               "the raw on-disk orientation",
               "pixel scales read from a *file* header are demanded exact only when astropy's header card formatting "
               "(<= 20 characters) represents the double exactly (counted as skipped otherwise); in-memory HDUs always exact",
               "Imaging.from_fits normalises the PSF: that component is compared with K/sum(K) at rtol 1e-12",
               "masked Imaging datasets are read back with check_noise_map=False (their noise map has zeros at masked pixels)",
               "origin and the padding value of resized masks are not part of the statement and are not checked",
               "astropy's one-time mmap probe (a temporary file in the system temp dir on the first write of a process) is "
               "triggered in setup before the audit recorder is switched on"]
QUICK_JOBS = 16

CLASSES = ("Array2D", "Mask2D", "Kernel2D", "Array1D", "Mask1D", "Imaging")
STATES = ("absent", "absent_overwrite", "nested_abs", "nested_rel", "bare", "present_refused", "present_overwrite")
PER = {"quick": 48, "thorough": 600}
WEIGHT = {"Array2D": 1.0, "Mask2D": 0.9, "Kernel2D": 1.1, "Array1D": 0.8, "Mask1D": 0.65, "Imaging": 1.4}
BATCH = {"quick": 12, "thorough": 60}

MIN_MONITORS = {"*": dict(
    {"roundtrip.hdu.%s" % c: 1 for c in CLASSES[:5]},
    **{"roundtrip.file.%s" % c: 1 for c in CLASSES},
    **{"roundtrip.multiext.%s" % c: 1 for c in CLASSES},
    **{"flip1.observed_in_raw_hdu": 1, "flip0.observed_in_raw_hdu": 1, "flip1.observed_in_raw_file": 1,
       "flip0.observed_in_raw_file": 1, "flip.one_dimensional_not_reversed": 1, "config.flag_matches_unit": 1,
       "pixel_scale.hdu_header.iso": 1, "pixel_scale.hdu_header.aniso": 1, "pixel_scale.file_header.iso": 1,
       "pixel_scale.file_header.aniso": 1, "mask2d.invert": 1, "mask2d.resized": 1,
       "overwrite.refused": 1, "overwrite.old_intact": 1, "overwrite.replaced": 1, "dirs.created": 1,
       "bare_name.in_cwd": 1, "write.succeeds": 1,
       "audit.confined_to_scratch": 1, "audit.remove_precedes_write": 1, "audit.mkdir_for_missing_dirs": 1,
       "audit.refused_write_untouched": 1, "audit.read_is_readonly": 1,
       "contract:array_2d_util.hdu_for_output_from": 1, "contract:array_2d_util.numpy_array_2d_via_fits_from": 1,
       "contract:array_1d_util.hdu_for_output_from": 1})}


def plan(tier, seed):
    units = []
    for ci, c in enumerate(CLASSES):
        for flip in (0, 1):
            for s in range(0, PER[tier], BATCH[tier]):
                units.append({"cls": c, "ci": ci, "flip": flip, "start": s, "stop": min(PER[tier], s + BATCH[tier]),
                              "w": WEIGHT[c] * BATCH[tier]})
    # one process, the option switched between consecutive cases (off, on, off, on ...): a session that has used one setting
    # and then runs under the other one (anything remembered from the first setting would be stale)
    k = BATCH[tier] // 2
    for ci, c in enumerate(CLASSES):
        for s in range(0, PER[tier] // 2, k):
            units.append({"cls": c, "ci": ci, "flip": "alternating", "start": s, "stop": min(PER[tier] // 2, s + k),
                          "w": WEIGHT[c] * k * 1.5})
    if tier == "thorough":
        units.append({"kind": "suite", "w": 10 ** 7})   # the repository's own tests with the contracts installed (DESIGN 1.5)
    return units


def post(merged, inconclusive, tier):
    n = merged["skipped"].get("audit.write_not_seen", 0) + merged["skipped"].get("audit.read_not_seen", 0)
    if n:
        inconclusive.append("the audit recorder did not see %d writes / reads that did happen (dead or bypassed hook)" % n)


# --------------------------------------------------------------------------------------- helpers
def _check(ctx, ok, monitor, **witness):
    return ctx.check(ok, monitor, **witness)


def _guarded(ctx, monitor, fn, *a, **k):
    return ctx.guarded(monitor, fn, *a, **k)


def _np(x):
    return np.asarray(x.array if hasattr(x, "array") and not isinstance(x, np.ndarray) else x)


@contextlib.contextmanager
def _cwd(path):
    old = os.getcwd()
    if path is not None:
        os.chdir(path)
    try:
        yield
    finally:
        os.chdir(old)


def _read_bytes(p):
    with open(p, "rb") as f:
        return f.read()


def _missing_dirs(target):
    out, d = [], os.path.dirname(target)
    while d and not os.path.exists(d):
        out.append(d)
        d = os.path.dirname(d)
    return out[::-1]


def _card_exact(s):
    """Can astropy's header card formatting carry this double exactly? (A2 guard, independent of the repository)"""
    from astropy.io import fits
    try:
        return float(fits.Card.fromstring(str(fits.Card("HIERARCH PIXSCALEY", float(s)))).value) == float(s)
    except Exception:
        return False


# --------------------------------------------------------------------------------------- generators
SHAPE_STRATA = ("1xN", "Nx1", "wide", "tall", "square", "random", "block_boundary")
_BLOCK = ((1, 360), (360, 1), (19, 19), (18, 20), (8, 45), (24, 15), (1, 359), (361, 1), (3, 120), (40, 9))


def gen_shape(rng, i):
    st = SHAPE_STRATA[i % len(SHAPE_STRATA)]
    if st == "1xN":
        return (1, int(rng.integers(2, 12))), st
    if st == "Nx1":
        return (int(rng.integers(2, 12)), 1), st
    if st == "wide":
        h = int(rng.integers(2, 7))
        return (h, h + int(rng.integers(1, 8))), st
    if st == "tall":
        w = int(rng.integers(2, 7))
        return (w + int(rng.integers(1, 8)), w), st
    if st == "square":
        n = int(rng.integers(1, 9))
        return (n, n), st
    if st == "random":
        return (int(rng.integers(1, 13)), int(rng.integers(1, 16))), st
    return _BLOCK[int(rng.integers(len(_BLOCK)))], st


VALUE_FAMILIES = ("signed_unique", "negative_unique", "tiny", "huge", "mixed_extremes", "literal_extremes")
_LITERALS = np.array([1e-300, -1e-300, 1e300, -1e300, 5e-324, -5e-324, 1.7976931348623157e308, -2.2250738585072014e-308])


def gen_values(rng, n, i):
    """n pairwise distinct reals whose position identifies the cell (1 + index + noise, signed and scaled)."""
    fam = VALUE_FAMILIES[(i // len(SHAPE_STRATA)) % len(VALUE_FAMILIES)]
    base = 1.0 + np.arange(n) + 0.5 * rng.random(n)
    sign = np.where(rng.random(n) < 0.5, -1.0, 1.0)
    if fam == "signed_unique":
        v = sign * base
    elif fam == "negative_unique":
        v = -base
    elif fam == "tiny":
        v = sign * base * 1e-300
    elif fam == "huge":
        v = sign * base * 1e300
    else:
        scale = np.array([1.0, 1e-300, 1e300, 1e-5, 1e5])[rng.integers(0, 5, size=n)]
        v = sign * base * scale
        if fam == "literal_extremes":
            k = min(n, len(_LITERALS))
            v[rng.choice(n, size=k, replace=False)] = rng.permutation(_LITERALS)[:k]
    return v.astype(np.float64), fam


SCALE_FAMILIES = ("iso_float", "iso_tuple", "aniso_short", "aniso_full", "iso_full", "aniso_dyadic")


def gen_scales(rng, i, dim=2):
    """-> (argument handed to the constructors / from_fits, expected tuple, family)"""
    fam = SCALE_FAMILIES[i % len(SCALE_FAMILIES)]
    full = lambda: float(np.exp(rng.uniform(np.log(0.05), np.log(20.0))))
    short = lambda: float(round(full(), int(rng.integers(1, 5))) or 0.1)
    if dim == 1:
        s = full() if "full" in fam else (float(2.0 ** int(rng.integers(-4, 4))) if fam == "aniso_dyadic" else short())
        return (s if fam in ("iso_float", "iso_full") else (s,)), (s,), ("iso_float" if fam in ("iso_float", "iso_full") else "iso_tuple")
    if fam == "iso_float":
        s = short()
        return s, (s, s), fam
    if fam == "iso_tuple":
        s = short()
        return (s, s), (s, s), fam
    if fam == "iso_full":
        s = full()
        return s, (s, s), fam
    if fam == "aniso_short":
        a, b = short(), short()
    elif fam == "aniso_full":
        a, b = full(), full()
        if rng.random() < 0.5:
            b = float(np.nextafter(a, 10.0))      # differ in the last bit only
    else:
        a, b = float(2.0 ** int(rng.integers(-4, 4))), float(2.0 ** int(rng.integers(-4, 4)))
    if a == b:
        b = a * 2.0
    return (a, b), (a, b), fam


def gen_mask2d(rng, shape, i, allow_none=True):
    H, W = shape
    if allow_none and rng.random() < 0.34:      # drawn, not i-periodic: independent of the scale / path-kind cycles
        return np.zeros(shape, bool), "all_unmasked"
    for _ in range(6):
        m, fam = gen.random_mask(rng, H, W)
        if fam != "all_unmasked" and (H < 2 or not np.array_equal(np.flipud(m), m)) and m.any():
            return m, fam
    return m, fam


def gen_mask1d(rng, n, i, allow_none=True):
    if allow_none and rng.random() < 0.34:
        return np.zeros(n, bool), "all_unmasked"
    m = rng.random(n) < 0.4
    if m.all():
        m[int(rng.integers(n))] = False
    return m, "bernoulli"


class Part:
    """One array that goes to one HDU / file: the repository object, the expected native content, how to read it."""
    __slots__ = ("cls", "obj", "exp", "scales_arg", "scales", "scale_family", "rtol", "info")

    def __init__(self, cls, obj, exp, scales_arg, scales, scale_family, rtol=None, info=None):
        self.cls, self.obj, self.exp, self.scales_arg, self.scales = cls, obj, exp, scales_arg, scales
        self.scale_family, self.rtol, self.info = scale_family, rtol, info or {}


def build_part(aa, cls, rng, i, shape=None):
    """A single-array object of class `cls` in Array2D / Mask2D / Kernel2D / Array1D / Mask1D."""
    if cls in ("Array1D", "Mask1D"):
        n = int(rng.integers(1, 16)) if shape is None else int(shape)
        if i % 7 == 6 and shape is None:
            n = int((359, 360, 361)[int(rng.integers(3))])
        arg, sc, sfam = gen_scales(rng, i, dim=1)
        m, mfam = gen_mask1d(rng, n, i, allow_none=(cls == "Array1D"))
        mask = aa.Mask1D(mask=m.copy(), pixel_scales=arg)
        if cls == "Mask1D":
            return Part(cls, mask, m.copy(), arg, sc, sfam, info={"shape": "1d:%d" % n, "mask": mfam})
        v, vfam = gen_values(rng, n, i)
        store_native = bool(rng.random() < 0.5)
        if mfam == "all_unmasked" and rng.random() < 0.5:
            obj = aa.Array1D.no_mask(values=v.copy(), pixel_scales=arg)
        else:
            # native 1-D input is handed over zero-filled: whether the *constructor* zeroes masked cells of a native-stored
            # 1-D input is C01's question (it does not, unlike Array2D), not a claim of the FITS round trip. The round trip
            # reproduces `native` faithfully either way; the observation is counted in case_single, not dropped.
            obj = aa.Array1D(values=(np.where(m, 0.0, v) if store_native else v[~m].copy()), mask=mask, store_native=store_native)
        return Part(cls, obj, np.where(m, 0.0, v), arg, sc, sfam, info={"shape": "1d:%d" % n, "mask": mfam, "values": vfam})
    (H, W), shfam = gen_shape(rng, i) if shape is None else (shape, "given")
    arg, sc, sfam = gen_scales(rng, i, dim=2)
    if cls == "Mask2D":
        m, mfam = gen_mask2d(rng, (H, W), i, allow_none=False)
        return Part(cls, aa.Mask2D(mask=m.copy(), pixel_scales=arg), m.copy(), arg, sc, sfam, info={"shape": shfam, "mask": mfam})
    v, vfam = gen_values(rng, H * W, i)
    v = v.reshape(H, W)
    def came_from_a_file(klass):
        """The object to write was itself loaded from a .fits file that the library wrote earlier at ANOTHER pixel scale (from_fits
        takes the scale from the caller): it carries that file's header; what it writes must carry its own, present, pixel scale."""
        import shutil
        import tempfile
        d = tempfile.mkdtemp(prefix="verif_c16_src_")
        try:
            path = os.path.join(d, "earlier.fits")
            klass.no_mask(values=v.copy(), pixel_scales=(0.37, 0.37) if i % 2 else (1.5, 0.25)).output_to_fits(file_path=path, overwrite=True)
            return klass.from_fits(file_path=path, hdu=0, pixel_scales=arg)
        finally:
            shutil.rmtree(d, ignore_errors=True)
    if cls == "Kernel2D":
        if i % 5 == 4:
            return Part(cls, came_from_a_file(aa.Kernel2D), v.copy(), arg, sc, sfam,
                        info={"shape": shfam, "values": vfam + "+loaded_from_an_earlier_file", "mask": "none"})
        return Part(cls, aa.Kernel2D.no_mask(values=v.copy(), pixel_scales=arg), v.copy(), arg, sc, sfam,
                    info={"shape": shfam, "values": vfam, "mask": "none"})
    m, mfam = gen_mask2d(rng, (H, W), i)
    if mfam == "all_unmasked" and i % 5 == 4:
        obj = came_from_a_file(aa.Array2D)
        vfam = vfam + "+loaded_from_an_earlier_file"
    elif mfam == "all_unmasked" and rng.random() < 0.5:
        obj = aa.Array2D.no_mask(values=v.copy(), pixel_scales=arg)
    else:
        store_native = bool(rng.random() < 0.5)
        obj = aa.Array2D(values=(v.copy() if store_native else v[~m].copy()), mask=aa.Mask2D(mask=m.copy(), pixel_scales=arg),
                         store_native=store_native)
        if i % 3 == 0 and m.any():
            # the array to write is the RESULT OF ARITHMETIC on a masked array (data + constant, constant - data ...): for native
            # storage its raw buffer then holds non-zero numbers at masked pixels, which must still read back as zeros
            c_ = float(rng.choice([1.25, -3.5, 100.0]))
            if rng.random() < 0.5:
                obj, v = obj + c_, v + c_
            else:
                obj, v = c_ - obj, c_ - v
            vfam = vfam + "+derived_by_arithmetic(%s)" % ("native_stored" if store_native else "slim_stored")
    return Part(cls, obj, np.where(m, 0.0, v), arg, sc, sfam, info={"shape": shfam, "values": vfam, "mask": mfam})


def build_imaging(aa, rng, i):
    (H, W), shfam = gen_shape(rng, i)
    arg, sc, sfam = gen_scales(rng, i, dim=2)
    m, mfam = gen_mask2d(rng, (H, W), i)
    mask = aa.Mask2D(mask=m.copy(), pixel_scales=arg)
    v, vfam = gen_values(rng, H * W, i)
    v = v.reshape(H, W)
    nv = np.abs(gen_values(rng, H * W, i + 2 * len(SHAPE_STRATA))[0]).reshape(H, W)     # positive, other family
    ky, kx = ((3, 3), (1, 3), (3, 1), (3, 5), (5, 3), (1, 1), (5, 5))[int(rng.integers(7))]
    K = (1.0 + np.arange(ky * kx) + 0.5 * rng.random(ky * kx)).reshape(ky, kx)
    if i % 4 == 3:
        K = rng.permutation(K.ravel()).reshape(ky, kx)
    with_psf = i % 5 != 4
    pre_norm = bool(rng.random() < 0.5)
    psf = aa.Kernel2D.no_mask(values=K.copy(), pixel_scales=arg) if with_psf else None
    ds = aa.Imaging(data=aa.Array2D(values=v.copy(), mask=mask), noise_map=aa.Array2D(values=nv.copy(), mask=mask),
                    psf=psf, use_normalized_psf=pre_norm)
    info = {"shape": shfam, "values": vfam, "mask": mfam, "psf": "%dx%d" % (ky, kx) if with_psf else "none",
            "psf_normalised_before_output": pre_norm}
    parts = {"data": Part("Array2D", ds.data, np.where(m, 0.0, v), arg, sc, sfam, info=info),
             "noise_map": Part("Array2D", ds.noise_map, np.where(m, 0.0, nv), arg, sc, sfam, info=info)}
    if with_psf:
        written = _np(ds.psf.native).astype(float).copy()      # what the dataset holds and therefore writes
        ok_written = np.allclose(written, K / K.sum() if pre_norm else K, rtol=1e-12, atol=0)
        p = Part("Kernel2D", ds.psf, K / K.sum(), arg, sc, sfam, rtol=1e-12, info=info)
        p.info = dict(info, psf_in_dataset_as_given=bool(ok_written))
        parts["psf"] = p
    return ds, parts, bool(m.any())


# --------------------------------------------------------------------------------------- oracle pieces
def expected_raw(exp, flip):
    e = np.asarray(exp, dtype=np.float64)
    return np.flipud(e) if (flip and e.ndim == 2) else e


def orientation_sensitive(exp):
    e = np.asarray(exp, dtype=np.float64)
    return bool(e.shape[0] >= 2 and not np.array_equal(e[::-1], e))


def same(got, exp, rtol, ctx):
    got = np.asarray(got)
    if got.shape != np.asarray(exp).shape:
        return False
    if rtol is None:
        return bool(np.array_equal(got, exp))
    return ctx.close(got, exp, rtol)


def check_back(ctx, aa, monitor, part, back, flip, how, scales=None):
    """`back` = object the repository read; values / shape / type against the part's expectation."""
    exp = part.exp
    klass = getattr(aa, part.cls)
    got = _np(back.native) if part.cls not in ("Mask2D", "Mask1D") else _np(back)
    ok = (isinstance(back, klass) and tuple(back.shape_native) == tuple(exp.shape) and same(got, exp, part.rtol, ctx)
          and (exp.dtype != bool or got.dtype == np.bool_))          # masks come back as booleans, arrays as equal reals
    _check(ctx, ok, monitor, how=how, flip=flip, cls=part.cls, expected=exp, got=got, got_type=type(back).__name__,
              got_dtype=str(got.dtype), info=part.info, pixel_scales=part.scales)
    if scales is not None:
        ps = back.pixel_scales
        try:
            okp = tuple(float(x) for x in ps) == tuple(part.scales)
        except Exception:
            okp = False
        _check(ctx, okp, scales, how=how, cls=part.cls, flip=flip, expected=part.scales, got=repr(ps))


def check_raw(ctx, where, part, raw, flip, how):
    """raw HDU data as astropy sees it: flipud(expected) with the flip on (2-D), expected otherwise."""
    exp = part.exp
    raw = np.asarray(raw)
    want = expected_raw(exp, flip)
    if part.rtol is not None:      # Imaging PSF: the dataset wrote what it holds; orientation is what is checked
        want = expected_raw(_np(part.obj.native).astype(float), flip)
    ok = raw.shape == want.shape and np.array_equal(raw.astype(np.float64), want)      # the on-disk number type is not part of the claim
    _check(ctx, ok, "%s.raw_orientation" % where, how=how, flip=flip, cls=part.cls, expected_raw=want, got_raw=raw, info=part.info)
    if want.ndim == 2 and orientation_sensitive(want):
        other = np.flipud(want)
        _check(ctx, ok and not np.array_equal(raw.astype(np.float64), other), "flip%d.observed_in_raw_%s" % (flip, where),
                  how=how, cls=part.cls, expected_raw=want, got_raw=raw)
    if want.ndim == 1 and orientation_sensitive(want):
        _check(ctx, ok, "flip.one_dimensional_not_reversed", how=how, flip=flip, cls=part.cls, expected_raw=want, got_raw=raw)


def read_part(aa, part, path, hdu=0, **kw):
    klass = getattr(aa, part.cls)
    return klass.from_fits(file_path=path, pixel_scales=part.scales_arg, hdu=hdu, **kw)


def audit_counts(ctx, log):
    for k, v in log.kinds().items():
        ctx.reach["audit:" + k] += v
    ctx.reach["audit:read_only_opens"] += log.reads


def feed(ctx, rules, **extra):
    """Rules of the trace checker -> monitors. 'saw_write' is a reach rule (dead hook => inconclusive)."""
    seen = True
    for rule, ok, wit in rules:
        if rule == "saw_write":
            seen = ok
            if not ok:
                ctx.skipped["audit.write_not_seen"] += 1
            continue
    for rule, ok, wit in rules:
        if rule == "saw_write":
            continue
        if not seen:
            continue
        _check(ctx, ok, "audit." + rule, **dict(wit, **extra))


def feed_read(ctx, rlog, how, completed):
    """A file read that completed must have been seen by the recorder as >= 1 read-only open, else the rule is vacuous."""
    if completed and rlog.reads == 0:
        ctx.skipped["audit.read_not_seen"] += 1
        return
    feed(ctx, audit.check_readonly_trace(rlog), how=how)


# --------------------------------------------------------------------------------------- contracts
def _flip_now(ctx):
    f = getattr(ctx, "c16_flip", None)
    if f is None and (getattr(ctx, "unit", None) or {}).get("kind") == "suite":
        # replay of the repository's tests: the option is whatever the running test has configured right now
        from autoconf import conf
        try:
            return int(bool(conf.instance["general"]["fits"]["flip_for_ds9"]))
        except Exception:
            return None
    return f


def post_hdu2d(ctx, a, result, old):
    arr, flip = np.asarray(a["array_2d"]), _flip_now(ctx)
    if flip is None or arr.ndim != 2:
        return None
    want = np.flipud(arr.astype(float)) if flip else arr.astype(float)
    hd = a["header_dict"] or {}
    ok = np.array_equal(np.asarray(result.data, dtype=float), want) and all(result.header.get(k) == v for k, v in hd.items())
    return (ok, {"flip": flip, "array_2d": arr, "raw": np.asarray(result.data), "header_dict": dict(hd),
                 "header": {k: result.header.get(k) for k in hd}})


def post_hdu1d(ctx, a, result, old):
    arr = np.asarray(_np(a["array_1d"]))
    if _flip_now(ctx) is None or arr.ndim != 1:
        return None
    return (np.array_equal(np.asarray(result.data, dtype=float), arr.astype(float)),
            {"flip": _flip_now(ctx), "array_1d": arr, "raw": np.asarray(result.data)})


def post_via_fits(ctx, a, result, old):
    from astropy.io import fits
    flip = _flip_now(ctx)
    if flip is None:
        return None
    with fits.open(a["file_path"]) as hl:
        raw = np.array(hl[a["hdu"]].data, dtype=np.float64)
    if raw.ndim != 2:
        return None
    want = np.flipud(raw) if flip else raw
    got = np.asarray(result)
    return (np.array_equal(got, want), {"flip": flip, "raw": raw, "got": got, "hdu": a["hdu"]})


# --------------------------------------------------------------------------------------- setup
def setup(ctx):
    ctx.aa = env.boot("base")
    from astropy.io import fits
    audit.install()
    # astropy probes mmap support with a temporary file on the first write of a process: do that (and every
    # other lazy first-use effect of the writer / reader) now, before anything is recorded
    d = tempfile.mkdtemp(prefix="verif_c16_warm_")
    try:
        p = os.path.join(d, "warm.fits")
        fits.HDUList([fits.PrimaryHDU(np.arange(6.0).reshape(2, 3)), fits.ImageHDU(np.arange(3.0))]).writeto(p)
        with fits.open(p) as hl:
            [np.array(h.data) for h in hl]
        fits.PrimaryHDU(np.arange(4.0)).writeto(p, overwrite=True)
        a = ctx.aa.Array2D.no_mask(values=np.arange(6.0).reshape(2, 3), pixel_scales=1.0)
        a.output_to_fits(os.path.join(d, "w2.fits"))
        ctx.aa.Array2D.from_fits(os.path.join(d, "w2.fits"), pixel_scales=1.0)
        ok, detail = audit.self_test(d)
        if not ok:
            ctx.inconclusive.append("audit hook self-test failed: %r" % (detail,))
    finally:
        shutil.rmtree(d, ignore_errors=True)
    install_contracts(ctx)


def install_contracts(ctx):
    """Also used by harness/suite_plugin.py (the repository's own tests drive the contracts in the thorough tier)."""
    from autoarray.structures.arrays import array_2d_util, array_1d_util
    contracts.attach(ctx, array_2d_util, "hdu_for_output_from", post_hdu2d)
    contracts.attach(ctx, array_1d_util, "hdu_for_output_from", post_hdu1d)
    contracts.attach(ctx, array_2d_util, "numpy_array_2d_via_fits_from", post_via_fits)


def teardown(ctx):
    ctx.c16_flip = None
    contracts.detach_all()
    try:
        env.push_config("base")
    except Exception:
        pass


# --------------------------------------------------------------------------------------- one unit
def _switch(ctx, flip):
    from autoconf import conf
    env.push_config("fits_flip%d" % flip)
    seen = conf.instance["general"]["fits"]["flip_for_ds9"]
    if seen is not bool(flip):
        raise env.Inconclusive("config switch to fits_flip%d not effective (flag reads %r)" % (flip, seen))
    ctx.c16_flip = flip


def run_unit(ctx, u):
    from autoconf import conf
    alternating = u["flip"] == "alternating"
    if not alternating:
        flip = int(u["flip"])
        _switch(ctx, flip)
    root = os.path.realpath(tempfile.mkdtemp(prefix="verif_c16_"))
    home = os.getcwd()
    try:
        for i in range(u["start"], u["stop"]):
            if alternating:
                flip = i % 2
                key = "%s:switched_to_flip%d:%d" % (u["cls"], flip, i)
            else:
                key = "%s:flip%d:%d" % (u["cls"], flip, i)
            if not ctx.begin(key):
                continue
            if alternating:
                _switch(ctx, flip)
                ctx.classes["option_switched_within_one_process_to_%d" % flip] += 1
            _check(ctx, conf.instance["general"]["fits"]["flip_for_ds9"] is bool(flip), "config.flag_matches_unit", flip=flip)
            rng = gen.rng_for(ctx.seed, NO, u["ci"], i, 7) if alternating else gen.rng_for(ctx.seed, NO, u["ci"], i)
            cdir = os.path.join(root, "c%05d" % i)
            os.mkdir(cdir)
            try:
                if u["cls"] == "Imaging":
                    case_imaging(ctx, rng, i, flip, root, cdir)
                else:
                    case_single(ctx, u["cls"], rng, i, flip, root, cdir)
            finally:
                os.chdir(home)
                shutil.rmtree(cdir, ignore_errors=True)
    finally:
        os.chdir(home)
        shutil.rmtree(root, ignore_errors=True)
        ctx.c16_flip = None


def target_for(state, cdir, i, name):
    """-> (path argument handed to the repository, absolute target, cwd to run in or None, path kind)"""
    as_path = bool(i % 2)
    if state in ("absent", "absent_overwrite", "present_refused", "present_refused_partial", "present_overwrite"):
        t = os.path.join(cdir, state, name)
        arg = pathlib.Path(t) if (as_path and state in ("absent_overwrite", "present_overwrite")) else t
        return arg, t, None, "pathlib_abs" if isinstance(arg, pathlib.Path) else "str_abs"
    if state == "nested_abs":
        t = os.path.join(cdir, "n1", "n2 with space", "n3", name)
        return (pathlib.Path(t) if as_path else t), t, None, "pathlib_abs" if as_path else "str_abs"
    if state == "nested_rel":
        rel = os.path.join("r1", "r2", name)
        return (pathlib.Path(rel) if not as_path else rel), os.path.join(cdir, rel), cdir, "pathlib_rel" if not as_path else "str_rel"
    if state == "bare":
        return name, os.path.join(cdir, name), cdir, "bare"
    raise ValueError(state)


def write_old(rng, target, exp_shapes, smaller, same_data_as=None):
    """Pre-existing content written by the harness (astropy): a multi-HDU file, larger than what follows unless `smaller`; or
    (same_data_as = the bytes of a fresh write) a file with exactly the data array that is about to be written but other header
    cards - an earlier output of the same values with a pixel scale that has since been corrected."""
    from astropy.io import fits
    os.makedirs(os.path.dirname(target), exist_ok=True)
    if same_data_as is not None:
        with fits.HDUList.fromstring(same_data_as) as src:
            h = fits.PrimaryHDU(np.array(src[0].data))
        h.header["PIXSCALE"] = 123.456
        h.header["PIXSCAY"] = 7.0
        h.header["OLDCARD"] = "stale"
        hl = fits.HDUList([h])
    elif smaller:
        hl = fits.HDUList([fits.PrimaryHDU(np.array([[-7.0]]))])
    else:
        shp = exp_shapes[0]
        big = tuple(int(s) + 40 for s in shp)
        hl = fits.HDUList([fits.PrimaryHDU(-1000.0 - rng.random(big)), fits.ImageHDU(-2000.0 - rng.random(big)),
                           fits.ImageHDU(-3000.0 - rng.random((400,)))])
    hl.writeto(target)
    return _read_bytes(target)


def file_states(ctx, label, rng, i, flip, root, cdir, parts, writer, reader, cls_tags):
    """
    parts   {name: Part}; writer(paths: {name: path_arg}, overwrite) performs the repository's output call;
    reader(paths) -> {name: object read back by the repository}. All seven target states.
    """
    from astropy.io import fits
    aa = ctx.aa
    names = list(parts)
    fresh = {}
    for state in STATES + (("present_refused_partial",) if len(names) > 1 else ()):
        targ = {n: target_for(state, cdir, i, "%s_%s.fits" % (label.lower(), n)) for n in names}
        args = {n: targ[n][0] for n in names}
        tabs = {n: targ[n][1] for n in names}
        cwd, kind = targ[names[0]][2], targ[names[0]][3]
        present = state in ("present_refused", "present_refused_partial", "present_overwrite")
        # nested targets are absent: requesting overwrite there must change nothing (every 4th case)
        overwrite = state in ("absent_overwrite", "present_overwrite") or (state in ("nested_abs", "nested_rel") and i % 4 == 2)
        smaller = present and (i % 4 == 3)
        if state in ("absent", "absent_overwrite"):
            os.makedirs(os.path.dirname(tabs[names[0]]), exist_ok=True)
        old = {}
        # Imaging only: just one of the later components exists - the call must still fail and leave that file alone
        victims = names if state != "present_refused_partial" else [names[1 + int(rng.integers(len(names) - 1))]]
        if present:
            for n in victims:
                same = fresh.get(n) if (state == "present_overwrite" and i % 4 == 1) else None
                old[n] = write_old(rng, tabs[n], [parts[n].exp.shape], smaller, same_data_as=same)
                if same is not None:
                    ctx.classes["old_file_same_data_other_header"] += 1
        missing = {n: _missing_dirs(tabs[n]) for n in names}
        existed = {n: os.path.exists(tabs[n]) for n in names}
        tag = "%s|flip%d|%s|%s%s" % (label, flip, kind, state, "+overwrite" if (overwrite and state.startswith("nested")) else "")
        cls_tags.append(tag)
        err = None
        with _cwd(cwd):
            with audit.recording() as log:
                try:
                    writer(args, overwrite)
                except Exception as e:
                    err = (e, traceback.format_exc()[-1500:])
        audit_counts(ctx, log)
        feed(ctx, [audit.rule_confined(log, root)], how=tag, path_argument=repr(args))     # whatever the outcome of the call
        if state in ("present_refused", "present_refused_partial"):
            _check(ctx, err is not None, "overwrite.refused", how=tag, existing={n: tabs[n] for n in victims},
                   note="write to an existing path without overwrite did not fail")
            intact = all(os.path.exists(tabs[n]) and _read_bytes(tabs[n]) == old[n] for n in victims)
            _check(ctx, intact, "overwrite.old_intact", how=tag, existing={n: tabs[n] for n in victims},
                   exception=repr(err[0]) if err else None)
            for n in victims:
                feed(ctx, audit.check_refused_trace(log, root, tabs[n]), how=tag, part=n)
            continue
        if not _check(ctx, err is None, "write.succeeds", how=tag, path_argument=repr(args), exception=repr(err[0]) if err else None,
                         traceback=err[1] if err else None, info=parts[names[0]].info):
            continue
        exists = all(os.path.isfile(tabs[n]) for n in names)
        if state in ("nested_abs", "nested_rel"):
            _check(ctx, exists and all(os.path.isdir(d) for n in names for d in missing[n]), "dirs.created", how=tag, target=tabs,
                      missing_before=missing)
        elif state == "bare":
            _check(ctx, exists and sorted(os.listdir(cdir)).count(os.path.basename(tabs[names[0]])) == 1, "bare_name.in_cwd", how=tag,
                      cwd=cdir, listing=lambda: sorted(os.listdir(cdir)))
        else:
            _check(ctx, exists, "write.file_exists", how=tag, target=tabs)
        if not exists:
            continue
        done_dirs = set()
        for n in names:
            md = [d for d in missing[n] if d not in done_dirs]
            feed(ctx, audit.check_write_trace(log, root, tabs[n], existed[n], overwrite, md if n == names[0] else []), how=tag, part=n)
            done_dirs.update(missing[n])
        # what is on disk, as astropy sees it
        for n in names:
            with fits.open(tabs[n]) as hl:
                nh = len(hl)
                raw = np.array(hl[0].data)
                check_raw(ctx, "file", parts[n], raw, flip, tag + "|" + n)
                if parts[n].cls in CLASSES[:5] and label != "Imaging":
                    # the header claim: the file carries the pixel scale; read it the way the repository reads headers
                    fam = "aniso" if parts[n].scale_family.startswith("aniso") else "iso"
                    if all(_card_exact(s) for s in parts[n].scales):
                        okc, back = _guarded(ctx, "read.unexpected_exception", getattr(aa, parts[n].cls).from_primary_hdu, hl[0])
                        if okc:
                            check_back(ctx, aa, "roundtrip.file_then_primary_hdu.%s" % parts[n].cls, parts[n], back, flip, tag,
                                       scales="pixel_scale.file_header.%s" % fam)
                    else:
                        ctx.skipped["file_header_scale_not_exact_in_a_fits_card"] += 1
            data_bytes = _read_bytes(tabs[n])
            if state == "absent":
                fresh[n] = data_bytes
            if state == "present_overwrite":
                _check(ctx, nh == 1 and n in fresh and data_bytes == fresh[n], "overwrite.replaced", how=tag, part=n, hdus_in_file=nh,
                          size=len(data_bytes), size_of_fresh_write=len(fresh.get(n, b"")), old_size=len(old[n]))
                ctx.classes["old_file_%s_than_new" % ("larger" if len(old[n]) > len(data_bytes) else "not_larger")] += 1
            else:
                _check(ctx, nh == 1, "write.single_hdu", how=tag, part=n, hdus_in_file=nh)
        # the repository reads it back (must not modify anything)
        with _cwd(cwd):
            with audit.recording() as rlog:
                okr, backs = _guarded(ctx, "read.unexpected_exception", reader, args)
        audit_counts(ctx, rlog)
        feed_read(ctx, rlog, tag, okr)
        if okr:
            for n in names:
                check_back(ctx, aa, "roundtrip.file.%s" % label, parts[n], backs[n], flip, tag + "|" + n, scales="pixel_scale.file_argument")


def multiext(ctx, label, rng, i, flip, cdir, slots, reader):
    """slots: list of (name, Part) in HDU order; assembled by astropy from each part's hdu_for_output; reader(path, {name: k})."""
    from astropy.io import fits
    hdus = []
    for k, (n, p) in enumerate(slots):
        h = p.obj.hdu_for_output
        hdus.append(fits.PrimaryHDU(data=h.data, header=h.header) if k == 0 else fits.ImageHDU(data=h.data, header=h.header))
    path = os.path.join(cdir, "multi_%s.fits" % label.lower())
    fits.HDUList(hdus).writeto(path)
    with fits.open(path) as hl:
        for k, (n, p) in enumerate(slots):
            check_raw(ctx, "file", p, np.array(hl[k].data), flip, "multiext|hdu=%d" % k)
    with audit.recording() as rlog:
        okr, backs = _guarded(ctx, "read.unexpected_exception", reader, path, {n: k for k, (n, p) in enumerate(slots)})
    audit_counts(ctx, rlog)
    feed_read(ctx, rlog, "multiext", okr)
    if okr:
        for k, (n, p) in enumerate(slots):
            check_back(ctx, ctx.aa, "roundtrip.multiext.%s" % label, p, backs[n], flip, "multiext|hdu=%d of %d" % (k, len(slots)))
    ctx.classes["multiext_hdus=%d" % len(slots)] += 1


def nontrivial(part):
    e = part.exp
    if e.dtype == bool:
        return bool(e.any() and (~e).any() and (e.shape[0] < 2 or orientation_sensitive(e)))
    nz = e[e != 0] if part.info.get("mask") not in (None, "none", "all_unmasked") else e.ravel()
    return bool(len(np.unique(nz)) == nz.size and (e.shape[0] < 2 or orientation_sensitive(e)))


def case_single(ctx, cls, rng, i, flip, root, cdir):
    aa = ctx.aa
    klass = getattr(aa, cls)
    okb, part = _guarded(ctx, "build.unexpected_exception", build_part, aa, cls, rng, i)
    if not okb:
        return
    tags = []
    fam = "aniso" if part.scale_family.startswith("aniso") else "iso"
    if cls == "Array1D" and (part.exp == 0).any() and i % 2:
        # counted observation (C01's domain, see build_part): a native-stored masked Array1D built from values that are
        # non-zero in masked cells keeps them in `native`, so such an object would be written with them
        mm = part.exp == 0
        probe = aa.Array1D(values=np.where(mm, 7.0, part.exp), mask=aa.Mask1D(mask=mm.copy(), pixel_scales=part.scales_arg), store_native=True)
        if (_np(probe.native)[mm] != 0).any():
            ctx.skipped["array1d_native_stored_input_keeps_nonzero_masked_cells(constructor,C01)"] += 1
            ctx.note("Array1D(values=native, mask, store_native=True).native keeps non-zero values in masked cells (Array2D zeroes "
                     "them); C16 therefore builds native-stored 1-D arrays from zero-filled input")
    # ---- HDU path
    okh, h = _guarded(ctx, "write.succeeds", lambda: part.obj.hdu_for_output)
    if okh:
        tag = "%s|flip%d|hdu|in_memory" % (cls, flip)
        tags.append(tag)
        check_raw(ctx, "hdu", part, np.asarray(h.data), flip, tag)
        with audit.recording() as rlog:
            okr, back = _guarded(ctx, "read.unexpected_exception", klass.from_primary_hdu, h)
        audit_counts(ctx, rlog)
        feed(ctx, audit.check_readonly_trace(rlog), how=tag)
        if okr:
            check_back(ctx, aa, "roundtrip.hdu.%s" % cls, part, back, flip, tag, scales="pixel_scale.hdu_header.%s" % fam)
    # ---- file path, all target states
    file_states(ctx, cls, rng, i, flip, root, cdir, {"main": part},
                lambda paths, overwrite: part.obj.output_to_fits(file_path=paths["main"], overwrite=overwrite),
                lambda paths: {"main": read_part(aa, part, paths["main"])}, tags)
    # ---- Mask2D read options
    if cls == "Mask2D":
        m = part.exp
        H, W = m.shape
        p = os.path.join(cdir, "absent", "mask2d_main.fits")
        if os.path.isfile(p):
            oki, inv = _guarded(ctx, "read.unexpected_exception", read_part, aa, part, p, invert=True)
            if oki:
                _check(ctx, _np(inv).dtype == np.bool_ and np.array_equal(_np(inv), ~m), "mask2d.invert", flip=flip, mask=m, got=_np(inv))
            a, b = int(rng.integers(0, 3)), int(rng.integers(0, 3))
            if a == b == 0:
                a = 1
            for grow in (True, False):
                new = (H + 2 * a, W + 2 * b) if grow else (H - 2 * a, W - 2 * b)
                if min(new) < 1:
                    ctx.skipped["mask2d.trim_leaves_nothing"] += 1
                    continue
                okz, rz = _guarded(ctx, "read.unexpected_exception", read_part, aa, part, p, resized_mask_shape=new)
                if okz:
                    g = _np(rz)
                    if grow:
                        ok = g.shape == new and np.array_equal(g, np.pad(m, ((a, a), (b, b)), constant_values=False))
                    else:
                        ok = g.shape == new and np.array_equal(g, m[a:H - a, b:W - b])
                    _check(ctx, ok, "mask2d.resized", flip=flip, mask=m, new_shape=new, got=g)
                    tags.append("Mask2D|flip%d|str_abs|read_resized_%s" % (flip, "larger" if grow else "smaller"))
                # both options together: the booleans of the inverted mask, in the resized frame (what loading and resizing in two steps gives)
                okzi, rzi = _guarded(ctx, "read.unexpected_exception", read_part, aa, part, p, resized_mask_shape=new, invert=True)
                if okzi:
                    gi = _np(rzi)
                    expi = np.pad(~m, ((a, a), (b, b)), constant_values=False) if grow else (~m)[a:H - a, b:W - b]
                    _check(ctx, gi.shape == expi.shape and np.array_equal(gi.astype(bool), expi), "mask2d.resized", flip=flip, mask=m, new_shape=new, invert=True,
                           got=gi, expected=expi)
            tags.append("Mask2D|flip%d|str_abs|read_invert" % flip)
    # ---- multi-extension: this object + siblings of other shapes, every one read with its hdu index
    nsib = 1 + int(rng.integers(0, 3))
    slots = [("s%d" % k, build_part(aa, cls, gen.rng_for(ctx.seed, NO, 99, CLASSES.index(cls), i, k), i + 1 + k)) for k in range(nsib)]
    slots.insert(int(rng.integers(0, nsib + 1)), ("main", part))
    multiext(ctx, cls, rng, i, flip, cdir, slots,
             lambda path, idx: {n: read_part(aa, dict(slots)[n], path, hdu=k) for n, k in idx.items()})
    tags.append("%s|flip%d|str_abs|multiext_hdu=%d" % (cls, flip, [n for n, _ in slots].index("main")))
    e = part.exp
    ctx.case(cls, flip, e, part.scales, nontrivial=nontrivial(part),
             cls=tags + ["shape:" + part.info["shape"].split(":")[0], "values:" + part.info.get("values", "bool"),
                         "mask:" + part.info.get("mask", "none"), "scales:" + part.scale_family],
             sample=lambda: {"class": cls, "flip_for_ds9": bool(flip), "shape": list(e.shape), "pixel_scales": part.scales,
                             "expected_native": e, "raw_hdu_expected": expected_raw(e, flip), "info": part.info,
                             "paths_and_states": tags})


def case_imaging(ctx, rng, i, flip, root, cdir):
    aa = ctx.aa
    okb, built = _guarded(ctx, "build.unexpected_exception", build_imaging, aa, rng, i)
    if not okb:
        return
    ds, parts, masked = built
    tags = []
    has_psf = "psf" in parts

    def writer(paths, overwrite):
        ds.output_to_fits(data_path=paths["data"], noise_map_path=paths["noise_map"], psf_path=paths.get("psf"), overwrite=overwrite)

    def reader(paths, hdus=None):
        hd = hdus or {}
        kw = dict(pixel_scales=parts["data"].scales_arg, data_path=paths["data"], noise_map_path=paths["noise_map"],
                  data_hdu=hd.get("data", 0), noise_map_hdu=hd.get("noise_map", 0))
        if has_psf:
            kw.update(psf_path=paths["psf"], psf_hdu=hd.get("psf", 0))
        if masked:
            kw["check_noise_map"] = False
        back = aa.Imaging.from_fits(**kw)
        out = {"data": back.data, "noise_map": back.noise_map}
        if has_psf:
            out["psf"] = back.psf
        return out

    file_states(ctx, "Imaging", rng, i, flip, root, cdir, parts, writer, reader, tags)
    order = [n for n in rng.permutation(list(parts))]
    slots = [(n, parts[n]) for n in order]
    multiext(ctx, "Imaging", rng, i, flip, cdir, slots, lambda path, idx: reader({n: path for n in parts}, idx))
    tags.append("Imaging|flip%d|str_abs|multiext_data_hdu=%d" % (flip, order.index("data")))
    d = parts["data"]
    ctx.case("Imaging", flip, d.exp, parts["noise_map"].exp, parts["psf"].exp if has_psf else None, d.scales,
             nontrivial=nontrivial(d),
             cls=tags + ["shape:" + d.info["shape"], "values:" + d.info["values"], "mask:" + d.info["mask"], "scales:" + d.scale_family,
                         "imaging_psf:" + d.info["psf"]],
             sample=lambda: {"class": "Imaging", "flip_for_ds9": bool(flip), "shape": list(d.exp.shape), "pixel_scales": d.scales,
                             "expected_data": d.exp, "expected_psf": parts["psf"].exp if has_psf else None, "info": d.info,
                             "paths_and_states": tags})
