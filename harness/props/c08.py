"""
C08 - fit statistics and evidence follow their definitions on unmasked pixels only.

A harness subclass of aa.FitImaging supplies model_data (random signed model image, or an inversion's mapped reconstructed
data) and optionally the inversion. Per generated (mask, data, noise, model, background sky):
  slim mode   (use_mask_in_fit=False, slim arrays) and
  native mode (use_mask_in_fit=True, native-stored arrays built with skip_mask=True carrying garbage - including zeros and
               negatives in the noise map - in the masked pixels)
are evaluated by the real code and compared with the definitions in plain NumPy on values[~mask]:
  stat.residual / normalized / chi_squared_map / chi_squared / reduced / noise_normalization / log_likelihood
  map.signal_to_noise (negatives clipped), map.residual_flux_fraction (= residual / data)
  garbage.invariance      two native datasets equal on the mask and different off it give bit-identical statistics
  evidence.terms          regularization_term == s_r' H_r s_r, log det(F+H)_r and log det H_r on the regularised index set
                          derived independently from the object list (slogdet), tolerance aware of the conditioning
  evidence.composition    log_evidence == -(chi2 + s'Hs + logdet(F+H) - logdet(H) + norm)/2, log_likelihood_with_regularization,
                          figure_of_merit selection (evidence with an inversion, likelihood otherwise)
  contract:fit_util.log_evidence_from / chi_squared_with_mask_from / noise_normalization_with_mask_from (icontract)
validated against (scratch copies, suite green): reverting the residual-flux-fraction repair, log-determinant over unreduced
matrices, normalization summed over all native pixels, 2*pi*sigma instead of 2*pi*sigma^2, S/N without clipping.
"""
import numpy as np

from harness import env, gen, gen_aa
from harness.monitors import contracts

ID = "C08"
NO = 8
RULE = ("seeded fits: mask (holes / components / touching nothing required), signed data with large dynamic range, positive noise, "
        "signed model image, background sky 0 or non-zero, slim and garbage-carrying native mode; with and without an inversion "
        "(fully / partially / not regularised object lists from the C04 generator). A case = one fit input; distinct by hash of "
        "(mask, data, noise, model, sky); non-trivial = at least one masked and two unmasked pixels and model != data")
BOUNDS = {"quick": "1000 plain fits x 2 modes x 2 garbage variants + 240 fits with an inversion", "thorough": "60000 plain fits + 12000 fits with an inversion"}
EXHAUSTIVE = {"quick": False, "thorough": False}
ASSUMPTIONS = ["scalar statistics compared to 1e-10 relative (same operands, different summation order)",
               "log-determinant terms compared with tolerance 1e-9*|value| + 1e-14*n*cond (backward-stable factorisations differ by "
               "O(n^2 u cond)); fits whose tolerance would exceed 1e-2 are counted and skipped for the determinant terms only",
               "derived maps are compared on unmasked pixels (values the native mode stores in masked pixels are not claimed)"]
QUICK_JOBS = 12
MIN_MONITORS = {"*": {"stat.chi_squared": 20, "stat.noise_normalization": 20, "stat.log_likelihood": 20, "garbage.invariance": 10,
                      "map.residual_flux_fraction": 20, "map.signal_to_noise": 20, "evidence.terms": 10, "evidence.composition": 10,
                      "figure_of_merit": 20, "contract:fit_util.log_evidence_from": 5,
                      "util.masked_helpers": 20, "sky.default_model_not_shared": 20, "interf.signal_to_noise_map": 20, "interf.normalized_residual_map": 20, "interf.chi_squared_map": 20, "interf.chi_squared": 20,
                      "interf.noise_normalization": 20, "interf.log_likelihood": 20, "interf.log_evidence": 5, "interf.dirty_maps": 20}}


def plan(tier, seed):
    n = 1000 if tier == "quick" else 60000
    ni = 240 if tier == "quick" else 12000
    step = 25 if tier == "quick" else 50
    s2 = 6 if tier == "quick" else 15
    units = ([{"kind": "plain", "start": s, "stop": min(n, s + step), "w": step * 0.2} for s in range(0, n, step)] +
             [{"kind": "inv", "start": s, "stop": min(ni, s + s2), "w": s2} for s in range(0, ni, s2)])
    nv = 200 if tier == "quick" else 8000
    units += [{"kind": "interf", "start": s_, "stop": min(nv, s_ + 20), "w": 4} for s_ in range(0, nv, 20)]
    if tier == "thorough":
        units.append({"kind": "suite", "w": 10 ** 7})   # the repository's own tests with the contracts installed (DESIGN 1.5)
    return units


def _np(x):
    return np.asarray(x.array if hasattr(x, "array") and not isinstance(x, np.ndarray) else x)


def _f(x):
    return float(_np(x))


def post_log_evidence(ctx, a, result, old):
    exp = -0.5 * (a["chi_squared"] + a["regularization_term"] + a["log_curvature_regularization_term"] - a["log_regularization_term"] + a["noise_normalization"])
    return (abs(float(result) - float(exp)) <= 1e-12 * max(1.0, abs(float(exp))), {"expected": float(exp), "got": float(result)})


def post_chi_mask(ctx, a, result, old):
    cm, m = _np(a["chi_squared_map"]), _np(a["mask"]).astype(bool)
    if cm.shape != m.shape:
        return None
    exp = float(cm[~m].sum())
    return (abs(float(result) - exp) <= 1e-10 * max(1.0, abs(exp)), {"expected": exp, "got": float(result)})


def post_nn_mask(ctx, a, result, old):
    nm, m = _np(a["noise_map"]), _np(a["mask"]).astype(bool)
    if nm.shape != m.shape:
        return None
    exp = float(np.log(2 * np.pi * nm[~m] ** 2).sum())
    return (abs(float(result) - exp) <= 1e-10 * max(1.0, abs(exp)), {"expected": exp, "got": float(result)})


def install_contracts(ctx):
    """Also used by harness/suite_plugin.py (the repository's own tests drive the contracts in the thorough tier)."""
    from autoarray.fit import fit_util
    contracts.attach(ctx, fit_util, "log_evidence_from", post_log_evidence)
    contracts.attach(ctx, fit_util, "chi_squared_with_mask_from", post_chi_mask)
    contracts.attach(ctx, fit_util, "noise_normalization_with_mask_from", post_nn_mask)


def setup(ctx):
    aa = ctx.aa = env.boot("base", pylops=True)      # TransformerDFT needs pylops.LinearOperator merely as a base class (stand-in)
    install_contracts(ctx)

    class VerifFitVis(aa.FitInterferometer):
        def __init__(self, dataset, model, inv=None, **k):
            super().__init__(dataset=dataset, **k)
            self._m = model
            self._inv = inv

        @property
        def model_data(self):
            return self._m

        @property
        def inversion(self):
            return self._inv

    ctx.FitVis = VerifFitVis

    class VerifFit(aa.FitImaging):
        def __init__(self, dataset, model, inv=None, noise_override=None, **k):
            super().__init__(dataset=dataset, **k)
            self._m = model
            self._inv = inv
            self._nz = noise_override

        @property
        def noise_map(self):
            # a fit may carry its own noise map (e.g. a scaled one); every statistic of the fit is defined with THAT noise map
            return self._nz if self._nz is not None else super().noise_map

        @property
        def model_data(self):
            return self._m

        @property
        def inversion(self):
            return self._inv

    ctx.Fit = VerifFit


def teardown(ctx):
    contracts.detach_all()


def rel(a, b, rt=1e-10):
    a, b = float(a), float(b)
    return abs(a - b) <= rt * max(1.0, abs(b))


def definitions(d, nz, md):
    r = d - md
    return {"residual": r, "normalized": r / nz, "chi_map": (r / nz) ** 2, "chi": float(((r / nz) ** 2).sum()),
            "nn": float(np.log(2 * np.pi * nz ** 2).sum()), "sn": np.where(d / nz < 0, 0.0, d / nz), "rff": r / d}


def check_fit(ctx, fit, m, D, mode, W):
    """Compares every scalar and map of `fit` with the definitions D on the unmasked pixels."""
    sel = (lambda x: _np(x)[~m]) if mode == "native" else (lambda x: _np(x))
    tag = dict(mode=mode, **W)
    n = int((~m).sum())
    g = ctx.guarded
    for name, attr, exp in (("stat.residual", "residual_map", D["residual"]), ("stat.normalized", "normalized_residual_map", D["normalized"]),
                            ("stat.chi_squared_map", "chi_squared_map", D["chi_map"]), ("map.signal_to_noise", "signal_to_noise_map", D["sn"]),
                            ("map.residual_flux_fraction", "residual_flux_fraction_map", D["rff"])):
        ok, v = g(name, lambda: sel(getattr(fit, attr)))
        if ok:
            good = v.shape == exp.shape and bool(np.all(np.abs(v - exp) <= 1e-12 * np.maximum(1.0, np.abs(exp))))
            ctx.check(good, name, got=v, expected=exp, **tag)
    ll = -0.5 * (D["chi"] + D["nn"])
    for name, attr, exp in (("stat.chi_squared", "chi_squared", D["chi"]), ("stat.reduced_chi_squared", "reduced_chi_squared", D["chi"] / n),
                            ("stat.noise_normalization", "noise_normalization", D["nn"]), ("stat.log_likelihood", "log_likelihood", ll)):
        ok, v = g(name, lambda: _f(getattr(fit, attr)))
        if ok:
            ctx.check(rel(v, exp), name, got=v, expected=exp, **tag)
    return ll


def make_plain(ctx, rng):
    aa = ctx.aa
    H, W = int(rng.integers(2, 9)), int(rng.integers(2, 10))
    m, fam = gen.random_mask(rng, H, W)
    if (~m).sum() < 2:
        m[0, :2] = False
    ps, origin = gen.mild_scales_origin(rng)
    mask = aa.Mask2D(mask=m.copy(), pixel_scales=ps, origin=origin)
    scale = float(np.exp(rng.uniform(-3, 6)))
    d = rng.normal(size=(H, W)) * scale * np.exp(rng.uniform(-2, 2, size=(H, W)))
    d[np.abs(d) < 1e-6 * scale] = scale          # residual flux fraction divides by the data
    nz = np.exp(rng.uniform(np.log(0.05), np.log(20), size=(H, W))) * (scale if rng.random() < 0.5 else 1.0)
    md = d + rng.normal(size=(H, W)) * nz * float(rng.choice([0.1, 1.0, 10.0]))
    sky = 0.0 if rng.random() < 0.5 else float(rng.normal() * scale)
    return dict(m=m, fam=fam, mask=mask, d=d, nz=nz, md=md, sky=sky, ps=ps)


def garbage(rng, m, base, kind):
    out = base.copy()
    k = int(m.sum())
    if kind == "noise":
        g = rng.choice([0.0, -1.0, 1e-30, 5.0, -1e9, 1e9], size=k)
    else:
        g = rng.normal(size=k) * float(np.exp(rng.uniform(-5, 12)))
    out[m] = g
    return out


def run_plain(ctx, i):
    aa = ctx.aa
    rng = gen.rng_for(ctx.seed, NO, 1, i)
    if not ctx.begin("plain:%d" % i):
        return
    c = make_plain(ctx, rng)
    m, mask = c["m"], c["mask"]
    W = dict(mask=m, sky=c["sky"])
    dm = aa.DatasetModel(background_sky_level=c["sky"])
    # --- slim mode
    ds = aa.Imaging(data=aa.Array2D(values=c["d"].copy(), mask=mask), noise_map=aa.Array2D(values=c["nz"].copy(), mask=mask), psf=None)
    fit = ctx.Fit(ds, aa.Array2D(values=c["md"].copy(), mask=mask), None, dataset_model=dm, use_mask_in_fit=False)
    D = definitions(c["d"][~m] - c["sky"], c["nz"][~m], c["md"][~m])
    ll = check_fit(ctx, fit, m, D, "slim", W)
    ok, fom = ctx.guarded("figure_of_merit", lambda: _f(fit.figure_of_merit))
    if ok:
        ctx.check(rel(fom, ll), "figure_of_merit", got=fom, expected_log_likelihood=ll, **W)
    # --- native mode with garbage in the masked pixels, two different garbage fills
    stats = []
    for v in range(2):
        dn = aa.Array2D(values=garbage(rng, m, c["d"], "data"), mask=mask, store_native=True, skip_mask=True)
        nn = aa.Array2D(values=garbage(rng, m, c["nz"], "noise"), mask=mask, store_native=True, skip_mask=True)
        mn = aa.Array2D(values=garbage(rng, m, c["md"], "data"), mask=mask, store_native=True, skip_mask=True)
        ok, dsn = ctx.guarded("native.dataset", lambda: aa.Imaging(data=dn, noise_map=nn, psf=None, check_noise_map=False))
        if not ok:
            return
        fitn = ctx.Fit(dsn, mn, None, dataset_model=dm, use_mask_in_fit=True)
        with np.errstate(all="ignore"):
            check_fit(ctx, fitn, m, D, "native", W)
            try:
                stats.append((_f(fitn.chi_squared), _f(fitn.noise_normalization), _f(fitn.log_likelihood), _f(fitn.reduced_chi_squared),
                              _np(fitn.chi_squared_map)[~m].tobytes(), _np(fitn.residual_map)[~m].tobytes()))
            except Exception as e:
                ctx.check(False, "garbage.invariance", exception=repr(e)[:300], **W)
    if len(stats) == 2:
        ctx.check(stats[0] == stats[1], "garbage.invariance", first=stats[0][:4], second=stats[1][:4], **W)
    # --- fits made without a dataset model, one of which has its (own) default model edited afterwards: the next fit made without a
    #     dataset model still has no sky offset, and the first still has the one it was given
    if i % 3 == 2:
        fa = ctx.Fit(ds, aa.Array2D(values=c["md"].copy(), mask=mask), None, use_mask_in_fit=False)
        try:
            fa.dataset_model.background_sky_level = 0.35 * float(np.abs(c["d"]).max())
            edited = True
        except Exception:
            edited = False
        if edited:
            fb = ctx.Fit(ds, aa.Array2D(values=c["md"].copy(), mask=mask), None, use_mask_in_fit=False)
            D0 = definitions(c["d"][~m], c["nz"][~m], c["md"][~m])
            ok, rb = ctx.guarded("sky.default_model_not_shared", lambda: _np(fb.residual_map))
            if ok:
                ctx.check(bool(np.all(np.abs(rb - D0["residual"]) <= 1e-12 * np.maximum(1.0, np.abs(D0["residual"])))) and rel(_f(fb.chi_squared), D0["chi"]),
                          "sky.default_model_not_shared", note="a fit made without a dataset model after another fit's default model was given a sky level",
                          got=rb, expected=D0["residual"], **W)
    # --- a fit that carries its own (scaled) noise map, in both modes: residuals / chi-squared / normalization / likelihood all with it
    if i % 3 == 0:
        nz2 = c["nz"] * np.exp(rng.uniform(-1.5, 1.5, size=c["nz"].shape))
        D2 = definitions(c["d"][~m] - c["sky"], nz2[~m], c["md"][~m])
        fit2 = ctx.Fit(ds, aa.Array2D(values=c["md"].copy(), mask=mask), None, noise_override=aa.Array2D(values=nz2.copy(), mask=mask),
                       dataset_model=dm, use_mask_in_fit=False)
        check_fit(ctx, fit2, m, D2, "slim", dict(W, fit_noise_map="scaled"))
        dn = aa.Array2D(values=garbage(rng, m, c["d"], "data"), mask=mask, store_native=True, skip_mask=True)
        nn = aa.Array2D(values=garbage(rng, m, c["nz"], "noise"), mask=mask, store_native=True, skip_mask=True)
        mn = aa.Array2D(values=garbage(rng, m, c["md"], "data"), mask=mask, store_native=True, skip_mask=True)
        n2 = aa.Array2D(values=garbage(rng, m, nz2, "noise"), mask=mask, store_native=True, skip_mask=True)
        ok, dsn = ctx.guarded("native.dataset", lambda: aa.Imaging(data=dn, noise_map=nn, psf=None, check_noise_map=False))
        if ok:
            fit3 = ctx.Fit(dsn, mn, None, noise_override=n2, dataset_model=dm, use_mask_in_fit=True)
            with np.errstate(all="ignore"):
                check_fit(ctx, fit3, m, D2, "native", dict(W, fit_noise_map="scaled"))
        ctx.classes["fit_with_its_own_noise_map"] += 1
    # --- the masked helpers of fit_util called directly on native arrays that carry anything in masked pixels (maps computed on the
    #     whole frame, maps of a fit inside a larger mask): scalars sum unmasked pixels only, maps agree on unmasked pixels
    if i % 3 == 1:
        from autoarray.fit import fit_util
        gd, gn, gm_ = garbage(rng, m, c["d"], "data"), garbage(rng, m, np.abs(c["nz"]), "data"), garbage(rng, m, c["md"], "data")
        gn[m] = np.abs(gn[m]) + 0.1
        r_ = gd - gm_
        cm_full = (r_ / gn) ** 2                      # non-zero in masked pixels
        Du = definitions(c["d"][~m], c["nz"][~m], c["md"][~m])
        with np.errstate(all="ignore"):
            for nm, fn, kw, exp in (
                    ("chi_squared_with_mask_from", fit_util.chi_squared_with_mask_from, dict(chi_squared_map=cm_full.copy(), mask=m.copy()), Du["chi"]),
                    ("noise_normalization_with_mask_from", fit_util.noise_normalization_with_mask_from, dict(noise_map=gn.copy(), mask=m.copy()), Du["nn"])):
                ok, v = ctx.guarded("util.masked_helpers", lambda: float(_np(fn(**kw))))
                if ok:
                    ctx.check(rel(v, exp), "util.masked_helpers", function=nm, got=v, expected=exp, note="input carries values in masked pixels", **W)
            for nm, fn, kw, exp in (
                    ("residual_map_with_mask_from", fit_util.residual_map_with_mask_from, dict(data=gd.copy(), mask=m.copy(), model_data=gm_.copy()), Du["residual"]),
                    ("normalized_residual_map_with_mask_from", fit_util.normalized_residual_map_with_mask_from, dict(residual_map=r_.copy(), noise_map=gn.copy(), mask=m.copy()), Du["normalized"]),
                    ("chi_squared_map_with_mask_from", fit_util.chi_squared_map_with_mask_from, dict(residual_map=r_.copy(), noise_map=gn.copy(), mask=m.copy()), Du["chi_map"])):
                ok, v = ctx.guarded("util.masked_helpers", lambda: np.asarray(_np(fn(**kw)), dtype=float))
                if ok:
                    ctx.check(v.shape == m.shape and bool(np.all(np.abs(v[~m] - exp) <= 1e-12 * np.maximum(1.0, np.abs(exp)))), "util.masked_helpers", function=nm,
                              got=lambda: v[~m], expected=exp, **W)
    ctx.case(m, c["d"], c["nz"], c["md"], c["sky"], nontrivial=bool(m.any() and (~m).sum() >= 2),
             cls=["plain", "mask:" + c["fam"], "sky:" + ("nonzero" if c["sky"] else "zero")],
             sample=lambda: {"mask": m.astype(int).tolist(), "sky": c["sky"], "chi_squared": D["chi"], "noise_normalization": D["nn"]})


def run_inv(ctx, i):
    aa = ctx.aa
    rng = gen.rng_for(ctx.seed, NO, 2, i)
    if not ctx.begin("inv:%d" % i):
        return
    case = gen_aa.imaging_case(aa, rng, kshapes=(1, 3), max_unmasked=30)

    def regf(r):
        # kernel schemes have dense regularization matrices whose sparse LU has negative pivots (log-determinant path)
        return [aa.reg.Constant(coefficient=float(r.uniform(0.1, 2.0))),
                aa.reg.ConstantZeroth(coefficient_neighbor=float(r.uniform(0.1, 2.0)), coefficient_zeroth=float(r.uniform(0.3, 2.0))),
                aa.reg.GaussianKernel(coefficient=float(r.uniform(0.2, 2.0)), scale=1.0),
                aa.reg.ExponentialKernel(coefficient=float(r.uniform(0.2, 2.0)), scale=1.0)][int(r.integers(4))]

    mode = int(rng.choice([0, 1, 1, 2]))   # 0: all regularised, 1: mix, 2: nothing regularised (function lists only)
    units = 1.0
    if i % 6 == 5:
        # the same fit in other flux units (counts of 1e-20 .. 1e20 per pixel): F and H scale with 1/units^2, so the two log-determinants
        # move by -2 P ln(units) (hundreds to thousands for a few dozen parameters) while chi-squared and the solution's shape stay
        units = float(10.0 ** (rng.uniform(10, 20) * (1 if rng.random() < 0.5 else -1)))
        mode = 0
        case["d"] = case["d"] * units
        case["noise"] = case["noise"] * units
        case["ds"] = aa.Imaging(data=aa.Array2D(values=case["d"].copy(), mask=case["mask"]), noise_map=aa.Array2D(values=case["noise"].copy(), mask=case["mask"]),
                                psf=aa.Kernel2D.no_mask(values=case["k"].copy(), pixel_scales=case["ps"]), use_normalized_psf=case["normalized"],
                                over_sampling=aa.OverSamplingDataset(pixelization=aa.OverSamplingUniform(sub_size=case["sub_arg"])))
        ctx.classes["flux_units:1e%+d" % int(np.round(np.log10(units)))] += 0
        ctx.classes["other_flux_units"] += 1

        def regf(r):  # noqa: F811
            return [aa.reg.Constant(coefficient=float(r.uniform(0.1, 2.0)) / units),
                    aa.reg.ConstantZeroth(coefficient_neighbor=float(r.uniform(0.1, 2.0)) / units, coefficient_zeroth=float(r.uniform(0.3, 2.0)) / units)][int(r.integers(2))]
    if mode == 2:
        objs, desc = gen_aa.linear_objects(aa, rng, case, kinds=("func",), allow_unregularized=True)
        for o in objs:
            o.regularization = None
        for d in desc:
            d["regularized"] = False
    elif i % 7 == 3:
        # three or four objects of which exactly two, in any positions, carry no regularization: the evidence terms are restricted
        # to the regularized parameters whichever ranges the others occupy
        objs, desc = gen_aa.linear_objects(aa, rng, case, nobj=int(rng.integers(3, 5)), allow_unregularized=False, reg_factory=regf)
        for j in rng.choice(len(objs), size=2, replace=False):
            objs[int(j)].regularization = None
            desc[int(j)]["regularized"] = False
        mode = 1
        ctx.classes["two_unregularized_objects_among_%d" % len(objs)] += 1
    else:
        objs, desc = gen_aa.linear_objects(aa, rng, case, allow_unregularized=(mode == 1), reg_factory=regf)
    if units != 1.0:
        objs, desc = gen_aa.linear_objects(aa, rng, case, kinds=("rect", "del"), allow_unregularized=False, reg_factory=regf)
    nreg = [o for o in objs if o.regularization is not None]
    if i % 5 == 2 and len(nreg) >= 2:
        # one regularization instance shared by several linear objects (the natural way to give two mappers "the same" scheme)
        shared = aa.reg.Constant(coefficient=float(rng.uniform(0.1, 2.0)) / units)      # in the flux units of this fit
        for o, d in zip(objs, desc):
            if o.regularization is not None:
                o.regularization = shared
                d["regularization"] = "Constant(shared instance)"
        ctx.classes["shared_regularization_instance"] += 1
    for o, d in zip(objs, desc):
        if type(o.regularization).__name__ in ("GaussianKernel", "ExponentialKernel"):
            V = _np(o.source_plane_mesh_grid).astype(float)
            dist = np.sqrt(((V[:, None, :] - V[None, :, :]) ** 2).sum(-1))
            # broad kernels (strongly non-diagonal inverse covariance) as long as the covariance stays invertible
            sc = float(rng.uniform(0.6, 2.0)) * float(np.min(dist[dist > 0]))
            gauss = type(o.regularization).__name__ == "GaussianKernel"
            while np.linalg.cond((np.exp(-dist ** 2 / (2 * sc ** 2)) if gauss else np.exp(-dist / sc)) + 1e-8 * np.eye(len(V))) > 1e6:
                sc *= 0.8
            o.regularization.scale = sc
            d["regularization"] = type(o.regularization).__name__
    m, mask = case["m"], case["mask"]
    W = dict(mask=m, objects=desc, kernel=case["k"])
    st = aa.SettingsInversion(use_w_tilde=bool(rng.integers(2)), use_positive_only_solver=bool(rng.random() < 0.3),
                              no_regularization_add_to_curvature_diag_value=1e-3)
    ok, inv = ctx.guarded("inversion.construct", lambda: aa.Inversion(dataset=case["ds"], linear_obj_list=objs, settings=st))
    if not ok:
        return
    try:
        s = _np(inv.reconstruction).copy()
        model = inv.mapped_reconstructed_data
        F = _np(inv.curvature_matrix).copy()
        Hm = _np(inv.regularization_matrix).copy()
    except aa.exc.InversionException:
        ctx.skipped["inversion:InversionException"] += 1
        return
    sky = 0.0 if rng.random() < 0.5 else float(rng.normal())
    fit = ctx.Fit(case["ds"], model, inv, dataset_model=aa.DatasetModel(background_sky_level=sky))
    D = definitions(case["d"][~m] - sky, case["noise"][~m], _np(model))
    check_fit(ctx, fit, m, D, "slim", W)
    reg_idx, c = [], 0
    for o in objs:
        p = int(np.asarray(o.mapping_matrix).shape[1])
        if o.regularization is not None:
            reg_idx += list(range(c, c + p))
        c += p
    reg_idx = np.array(reg_idx, dtype=int)
    if len(reg_idx):
        Hr, Ar, sr = Hm[np.ix_(reg_idx, reg_idx)], (F + Hm)[np.ix_(reg_idx, reg_idx)], s[reg_idx]
        t_reg = float(sr @ Hr @ sr)
        t_c, t_h = float(np.linalg.slogdet(Ar)[1]), float(np.linalg.slogdet(Hr)[1])
        tol_c = 1e-9 * abs(t_c) + 1e-14 * len(reg_idx) * float(np.linalg.cond(Ar))
        tol_h = 1e-9 * abs(t_h) + 1e-14 * len(reg_idx) * float(np.linalg.cond(Hr))
    else:
        t_reg = t_c = t_h = 0.0
        tol_c = tol_h = 0.0
    try:
        g_reg, g_c, g_h = _f(inv.regularization_term), _f(inv.log_det_curvature_reg_matrix_term), _f(inv.log_det_regularization_matrix_term)
    except aa.exc.InversionException as e:
        if len(reg_idx) and max(tol_c, tol_h) <= 1e-6:
            # both restricted matrices are well conditioned by the harness's own computation: the terms are defined
            ctx.check(False, "evidence.terms", exception=repr(e)[:300], expected_terms=[t_reg, t_c, t_h], regularized_index_set=reg_idx, **W)
        else:
            ctx.skipped["evidence:InversionException"] += 1
        return
    except Exception as e:
        ctx.check(False, "evidence.terms", exception=repr(e)[:300], **W)
        return
    if max(tol_c, tol_h) > 1e-2:
        ctx.skipped["evidence.terms:ill_conditioned(tolerance>1e-2)"] += 1
        # each determinant is still judged on its own when its own matrix is well conditioned (in other flux units the 1e-8 ridge of
        # H is negligible and H is numerically singular, while F+H is not)
        if tol_c <= 1e-2:
            ctx.check(abs(g_c - t_c) <= tol_c, "evidence.terms", term="log_det_curvature_reg_matrix_term", got=g_c, expected=t_c, tol=tol_c, regularized_index_set=reg_idx, **W)
        if tol_h <= 1e-2:
            ctx.check(abs(g_h - t_h) <= tol_h, "evidence.terms", term="log_det_regularization_matrix_term", got=g_h, expected=t_h, tol=tol_h, regularized_index_set=reg_idx, **W)
    else:
        ctx.check(abs(g_reg - t_reg) <= 1e-9 * max(1e-300, float(np.abs(sr) @ np.abs(Hr) @ np.abs(sr)) if len(reg_idx) else 1.0) + 0.0 if len(reg_idx) else g_reg == 0.0,
                  "evidence.terms", term="regularization_term", got=g_reg, expected=t_reg, regularized_index_set=reg_idx, **W)
        ctx.check(abs(g_c - t_c) <= tol_c, "evidence.terms", term="log_det_curvature_reg_matrix_term", got=g_c, expected=t_c, tol=tol_c, regularized_index_set=reg_idx, **W)
        ctx.check(abs(g_h - t_h) <= tol_h, "evidence.terms", term="log_det_regularization_matrix_term", got=g_h, expected=t_h, tol=tol_h, regularized_index_set=reg_idx, **W)
    # composition from the terms the inversion reports (exact up to rounding), and figure-of-merit selection
    ev = -0.5 * (D["chi"] + g_reg + g_c - g_h + D["nn"])
    ok, le = ctx.guarded("evidence.composition", lambda: _f(fit.log_evidence))
    if ok:
        ctx.check(rel(le, ev), "evidence.composition", got=le, expected=ev, terms=dict(chi=D["chi"], reg=g_reg, logdet_c=g_c, logdet_h=g_h, nn=D["nn"]), **W)
    ok, lr = ctx.guarded("evidence.composition", lambda: _f(fit.log_likelihood_with_regularization))
    if ok:
        ctx.check(rel(lr, -0.5 * (D["chi"] + g_reg + D["nn"])), "evidence.composition", which="log_likelihood_with_regularization", got=lr, **W)
    ok, fom = ctx.guarded("figure_of_merit", lambda: _f(fit.figure_of_merit))
    if ok:
        ctx.check(rel(fom, ev), "figure_of_merit", got=fom, expected_log_evidence=ev, **W)
    ctx.case("inv", m, case["d"], case["noise"], _np(model), sky, nontrivial=True,
             cls=["with_inversion", ["all_regularized", "partially_regularized", "none_regularized"][mode]],
             sample=lambda: {"objects": desc, "regularized_parameters": len(reg_idx), "log_evidence": ev, "sky": sky})


# ------------------------------------------------------------------------------ fits of visibilities
def run_interf(ctx, i):
    """FitInterferometer (the other FitDataset subclass): every map is defined per component - the real and the imaginary part of a
    visibility are two measurements, each with its own noise value - and the scalars sum over both components."""
    aa = ctx.aa
    if not ctx.begin("interf:%d" % i):
        return
    rng = gen.rng_for(ctx.seed, NO, 5, i)
    H, Wd = int(rng.integers(2, 6)), int(rng.integers(2, 6))
    m, fam = gen.random_mask(rng, H, Wd)
    if (~m).sum() < 2:
        m.ravel()[rng.choice(H * Wd, size=2, replace=False)] = False
    ps = float(rng.uniform(0.05, 0.5))
    mask = aa.Mask2D(mask=m.copy(), pixel_scales=ps)
    K = int(rng.integers(1, 4)) if i % 10 == 0 else int(rng.integers(4, 25))
    uv = rng.normal(size=(K, 2)) * float(np.exp(rng.uniform(np.log(1e2), np.log(1e5))))
    dyn = np.exp(rng.uniform(-3, 3, size=K))
    D = (rng.normal(size=K) + 1j * rng.normal(size=K)) * dyn           # all four sign combinations occur
    if K >= 4:
        D[0] = abs(D[0].real) - 1j * abs(D[0].imag)
        D[1] = -abs(D[1].real) + 1j * abs(D[1].imag)
        D[2] = -abs(D[2].real) - 1j * abs(D[2].imag)
        D[3] = 0.0 + 1j * D[3].imag if i % 2 else D[3].real + 0.0j       # a component that is exactly zero
    # real and imaginary noise differ (by up to two orders of magnitude)
    Nz = np.exp(rng.uniform(-2, 2, size=K)) + 1j * np.exp(rng.uniform(-2, 2, size=K))
    use_inv = (i % 4 == 3) and int((~m).sum()) >= 4
    ok, ds = ctx.guarded("interf.construct", lambda: aa.Interferometer(
        data=aa.Visibilities(visibilities=D.copy()), noise_map=aa.VisibilitiesNoiseMap(visibilities=Nz.copy()),
        uv_wavelengths=uv.copy(), real_space_mask=mask, transformer_class=aa.TransformerDFT))
    if not ok:
        return
    inv = None
    if use_inv:
        osamp = aa.OverSamplerUniform(mask=mask, sub_size=1)
        mp, _ = gen_aa.mapper(aa, rng, mask, osamp, "rect", aa.reg.Constant(coefficient=float(rng.uniform(0.3, 3))))
        ok, inv = ctx.guarded("interf.inversion", lambda: aa.Inversion(
            dataset=ds, linear_obj_list=[mp], settings=aa.SettingsInversion(use_w_tilde=False, use_positive_only_solver=False)))
        if not ok:
            return
        try:
            Md = np.array(_np(inv.mapped_reconstructed_data), dtype=complex)
        except aa.exc.InversionException:
            ctx.skipped["interf:InversionException(allowed)"] += 1
            return
    else:
        Md = (rng.normal(size=K) + 1j * rng.normal(size=K)) * dyn * float(rng.uniform(0.2, 1.5))
        if K >= 2 and i % 3 == 0:
            Md[-1] = D[-1]                                                  # a visibility fitted exactly
    W = dict(data=D, noise_map=Nz, model_data=Md, with_inversion=use_inv)
    R = D - Md
    exp = {"residual_map": R,
           "normalized_residual_map": R.real / Nz.real + 1j * (R.imag / Nz.imag),
           "chi_squared_map": (R.real / Nz.real) ** 2 + 1j * (R.imag / Nz.imag) ** 2,
           "signal_to_noise_map": np.maximum(D.real / Nz.real, 0.0) + 1j * np.maximum(D.imag / Nz.imag, 0.0)}
    chi2 = float(((R.real / Nz.real) ** 2).sum() + ((R.imag / Nz.imag) ** 2).sum())
    nn = float(np.log(2 * np.pi * Nz.real ** 2).sum() + np.log(2 * np.pi * Nz.imag ** 2).sum())
    for mode in (False, True):
        model = aa.Visibilities(visibilities=Md.copy())
        ok, fit = ctx.guarded("interf.construct", lambda: ctx.FitVis(ds, model, inv, use_mask_in_fit=mode))
        if not ok:
            continue
        for q, e in exp.items():
            ok, g = ctx.guarded("interf." + q, lambda: np.array(_np(getattr(fit, q)), dtype=complex))
            if ok:
                good = g.shape == e.shape and np.all(np.abs(g.real - e.real) <= 1e-12 * np.maximum(1.0, np.abs(e.real))) \
                    and np.all(np.abs(g.imag - e.imag) <= 1e-12 * np.maximum(1.0, np.abs(e.imag)))
                ctx.check(bool(good), "interf." + q, use_mask_in_fit=mode, expected=e, got=g, **W)
        for q, e in (("chi_squared", chi2), ("noise_normalization", nn), ("log_likelihood", -0.5 * (chi2 + nn))):
            ok, g = ctx.guarded("interf." + q, lambda: complex(_np(getattr(fit, q))))
            if ok:
                ctx.check(g.imag == 0.0 and rel(g.real, e), "interf." + q, use_mask_in_fit=mode, expected=e, got=g, **W)
        if inv is None:
            ok, g = ctx.guarded("interf.figure_of_merit", lambda: float(np.real(_np(fit.figure_of_merit))))
            if ok:
                ctx.check(rel(g, -0.5 * (chi2 + nn)), "interf.figure_of_merit", use_mask_in_fit=mode, expected=-0.5 * (chi2 + nn), got=g, **W)
        else:
            ev = -0.5 * (chi2 + float(inv.regularization_term) + float(inv.log_det_curvature_reg_matrix_term)
                         - float(inv.log_det_regularization_matrix_term) + nn)
            for q in ("log_evidence", "figure_of_merit"):
                ok, g = ctx.guarded("interf." + q, lambda: float(np.real(_np(getattr(fit, q)))))
                if ok:
                    ctx.check(rel(g, ev), "interf." + q, use_mask_in_fit=mode, expected=ev, got=g, **W)
        # the dirty maps are the real-space images of the maps above
        for q, src in (("dirty_signal_to_noise_map", "signal_to_noise_map"), ("dirty_residual_map", "residual_map"),
                       ("dirty_normalized_residual_map", "normalized_residual_map"), ("dirty_chi_squared_map", "chi_squared_map")):
            ok, g = ctx.guarded("interf.dirty_maps", lambda: np.array(_np(getattr(fit, q)), dtype=float))
            if ok:
                e = np.array(_np(ds.transformer.image_from(visibilities=aa.Visibilities(visibilities=exp[src].copy()))), dtype=float)
                ctx.check(g.shape == e.shape and bool(np.all(np.abs(g - e) <= 1e-9 * max(1.0, float(np.abs(e).max())))), "interf.dirty_maps",
                          quantity=q, use_mask_in_fit=mode, expected=e, got=g, **W)
    signs = sorted({("+" if d.real >= 0 else "-") + ("+" if d.imag >= 0 else "-") for d in D})
    ctx.case("interf", D, Nz, Md, nontrivial=K >= 2, cls=["interferometer_fit", "inversion:%s" % use_inv, "sign_combinations:%d" % len(signs)],
             sample=lambda: {"visibilities": K, "with_inversion": use_inv, "sign_combinations": signs})


def run_unit(ctx, u):
    if u["kind"] == "interf":
        for i in range(u["start"], u["stop"]):
            run_interf(ctx, i)
        return
    for i in range(u["start"], u["stop"]):
        (run_plain if u["kind"] == "plain" else run_inv)(ctx, i)
