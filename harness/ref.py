"""
Reference models: independent, direct transcriptions of the property statements (NumPy / plain loops).
Nothing here imports autoarray.
"""
import numpy as np


# --------------------------------------------------------------------- C02 geometry
def pixel_centres(shape, scales, origin=(0.0, 0.0)):
    """(H, W, 2) array of (y, x) centres: y = o_y + ((H-1)/2 - i) s_y, x = o_x + (j - (W-1)/2) s_x."""
    H, W = shape
    i = np.arange(H)[:, None]
    j = np.arange(W)[None, :]
    y = origin[0] + ((H - 1) / 2.0 - i) * scales[0] + 0.0 * j
    x = origin[1] + (j - (W - 1) / 2.0) * scales[1] + 0.0 * i
    return np.stack([y, x], axis=-1)


def slim_centres(mask, scales, origin=(0.0, 0.0)):
    return pixel_centres(mask.shape, scales, origin)[~mask]


def extent(shape, scales, origin=(0.0, 0.0)):
    """[x_min, x_max, y_min, y_max] = union of the pixel squares."""
    H, W = shape
    return np.array([origin[1] - W * scales[1] / 2.0, origin[1] + W * scales[1] / 2.0,
                     origin[0] - H * scales[0] / 2.0, origin[0] + H * scales[0] / 2.0])


def pixel_of_point(p, shape, scales, origin=(0.0, 0.0)):
    """(i, j, frac_i, frac_j): the pixel whose square contains p and the position inside it (0..1)."""
    H, W = shape
    fy = (origin[0] + H * scales[0] / 2.0 - p[0]) / scales[0]   # continuous row coordinate from the top edge
    fx = (p[1] - (origin[1] - W * scales[1] / 2.0)) / scales[1]
    return int(np.floor(fy)), int(np.floor(fx)), fy - np.floor(fy), fx - np.floor(fx)


# --------------------------------------------------------------------- C03 convolution
def conv_matrix(mask, kernel, src_mask=None):
    """
    C[t, s] = K[t - s + half] for target pixels t in `mask` and source pixels s in `src_mask`
    (default: mask) - the true 2-D convolution (flipped, centred kernel, zero outside the frame)
    restricted to the two pixel sets, built by plain loops from the definition.
    """
    src_mask = mask if src_mask is None else src_mask
    ky, kx = kernel.shape
    hy, hx = ky // 2, kx // 2
    T = np.argwhere(~mask)
    S = np.argwhere(~src_mask)
    C = np.zeros((len(T), len(S)))
    for a, (ty, tx) in enumerate(T):
        for b, (sy, sx) in enumerate(S):
            u, v = ty - sy + hy, tx - sx + hx
            if 0 <= u < ky and 0 <= v < kx:
                C[a, b] = kernel[u, v]
    return C


def conv_full(image, kernel):
    """Whole-frame 'same' convolution by loops: out[t] = sum_s K[t - s + half] image[s]."""
    H, W = image.shape
    ky, kx = kernel.shape
    hy, hx = ky // 2, kx // 2
    out = np.zeros((H, W))
    for ty in range(H):
        for tx in range(W):
            acc = 0.0
            for u in range(ky):
                for v in range(kx):
                    sy, sx = ty - u + hy, tx - v + hx
                    if 0 <= sy < H and 0 <= sx < W:
                        acc += kernel[u, v] * image[sy, sx]
            out[ty, tx] = acc
    return out


def blurring_mask(mask, kshape):
    """
    Unmasked (False) exactly at masked pixels inside the kernel footprint of >= 1 unmasked pixel.
    Returns (blurring_mask, leaves_frame): leaves_frame is True when some footprint cell of an
    unmasked pixel lies outside the array (the statement demands an error then).
    """
    H, W = mask.shape
    hy, hx = kshape[0] // 2, kshape[1] // 2
    out = np.ones((H, W), bool)
    leaves = False
    for (y, x) in np.argwhere(~mask):
        for dy in range(-hy, hy + 1):
            for dx in range(-hx, hx + 1):
                yy, xx = y + dy, x + dx
                if 0 <= yy < H and 0 <= xx < W:
                    if mask[yy, xx]:
                        out[yy, xx] = False
                else:
                    leaves = True
    return out, leaves
