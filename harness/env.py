"""
Process bootstrap for every harness process (master, shard worker, replay, pytest plugin).

* refuses to install any instrumentation unless the guard PYAUTOARRAY_VERIF=1 is set
  (harness.run sets it for itself and its workers; /repo never reads it);
* pins BLAS threads (bit-reproducible reductions, no oversubscription with 16 workers);
* puts $VERIF_REPO (default /repo) first on sys.path so the *current working tree* is what
  gets imported (pure Python: the import is the rebuild), never writes byte code into it;
* installs icontract/deal from the offline wheelhouse into the git-ignored /verif/.deps when
  absent and appends that directory at the END of sys.path (so it never shadows /venv);
* pushes the harness configuration directory.
"""
import os
import sys
import subprocess
import tempfile
import types
import warnings

GUARD = "PYAUTOARRAY_VERIF"
VERIF = os.path.dirname(os.path.dirname(os.path.abspath(__file__)))
REPO = os.environ.get("VERIF_REPO", "/repo")
DEPS = os.path.join(VERIF, ".deps")
# where evidence/ and replay/ are written; scratch runs against mutated copies set VERIF_OUT elsewhere
OUT = os.environ.get("VERIF_OUT", VERIF)
WHEELS = "/opt/veriftools/wheels"

_booted = {}


class Inconclusive(Exception):
    pass


def child_env():
    e = dict(os.environ)
    e[GUARD] = "1"
    e["PYTHONHASHSEED"] = "0"
    e["PYTHONDONTWRITEBYTECODE"] = "1"
    for k in ("OMP_NUM_THREADS", "OPENBLAS_NUM_THREADS", "MKL_NUM_THREADS", "NUMEXPR_NUM_THREADS"):
        e[k] = "1"
    e["PIP_NO_INDEX"] = "1"
    e["MPLBACKEND"] = "Agg"
    return e


def ensure_deps():
    """icontract + deal beside the repository's interpreter, offline. Idempotent, race tolerant."""
    marker = os.path.join(DEPS, "icontract", "__init__.py")
    if not os.path.exists(marker):
        if not os.path.isdir(WHEELS):
            raise Inconclusive("offline wheelhouse %s missing; cannot install icontract" % WHEELS)
        tmp = tempfile.mkdtemp(prefix=".deps_tmp_", dir=VERIF)
        try:
            r = subprocess.run(
                [sys.executable, "-m", "pip", "install", "-q", "--no-index", "--find-links", WHEELS,
                 "--target", tmp, "icontract", "deal"],
                capture_output=True, text=True, timeout=600)
            if r.returncode != 0:
                raise Inconclusive("pip install icontract failed: " + r.stderr[-400:])
            try:
                os.rename(tmp, DEPS)
            except OSError:
                pass  # another process won the race
        finally:
            if os.path.isdir(tmp):
                import shutil
                shutil.rmtree(tmp, ignore_errors=True)
    if DEPS not in sys.path:
        sys.path.append(DEPS)


def install_pylops_standin():
    """TransformerDFT needs pylops.LinearOperator merely as a base class (C13 allows a stand-in)."""
    if "pylops" in sys.modules:
        return
    try:
        import pylops  # noqa
        return
    except Exception:
        pass
    m = types.ModuleType("pylops")

    class LinearOperator(object):
        def __init__(self, *a, **k):
            pass

    m.LinearOperator = LinearOperator
    m.__verif_standin__ = True
    sys.modules["pylops"] = m


def boot(config="base", pylops=False):
    """Returns the autoarray module of the tree under test."""
    if os.environ.get(GUARD) != "1":
        raise Inconclusive("guard %s is not set; instrumentation refused" % GUARD)
    if _booted.get("aa") is not None:
        if config != _booted["config"]:
            push_config(config)
        return _booted["aa"]
    sys.dont_write_bytecode = True
    for k in ("OMP_NUM_THREADS", "OPENBLAS_NUM_THREADS", "MKL_NUM_THREADS"):
        os.environ.setdefault(k, "1")
    os.environ.setdefault("MPLBACKEND", "Agg")
    warnings.filterwarnings("ignore")
    if REPO in sys.path:
        sys.path.remove(REPO)
    sys.path.insert(0, REPO)
    if VERIF not in sys.path:
        sys.path.insert(1, VERIF)
    ensure_deps()
    if pylops:
        install_pylops_standin()
    import logging
    logging.disable(logging.CRITICAL)
    # autoarray prints a numba banner on import; keep stdout clean for VIOLATION lines
    import io
    import contextlib
    buf = io.StringIO()
    with contextlib.redirect_stdout(buf):
        from autoconf import conf  # noqa
        _booted["scratch"] = tempfile.mkdtemp(prefix="verif_out_")
        conf.instance.push(new_path=os.path.join(VERIF, "config", config), output_path=_booted["scratch"])
        import autoarray as aa
    if not os.path.abspath(aa.__file__).startswith(os.path.abspath(REPO) + os.sep):
        raise Inconclusive("autoarray imported from %s, not from %s" % (aa.__file__, REPO))
    _booted["aa"] = aa
    _booted["config"] = config
    import atexit
    import shutil
    atexit.register(lambda: shutil.rmtree(_booted["scratch"], ignore_errors=True))
    return aa


def push_config(config):
    from autoconf import conf
    conf.instance.push(new_path=os.path.join(VERIF, "config", config), output_path=_booted["scratch"])
    _booted["config"] = config


def scratch():
    return _booted["scratch"]
