"""
C13 - direct Fourier transform, preloaded variant and adjoint are exact and consistent.

TransformerDFT needs pylops.LinearOperator merely as a base class; env.boot(pylops=True) installs the minimal stand-in the
property text allows. Per generated (mask up to 6x6, anisotropic scales, origin, 1..12 baselines incl. the zero baseline and
duplicates, magnitudes up to 1e6 lambda) the dense operator
    A[k, p] = exp(-2 pi i (x_p u_k + y_p v_k)),   (y_p, x_p) = C02 pixel-centre formula * pi/648000
is built by the harness and compared with the real code:
  vis.operator          visibilities_from(image) == A I      (slim- and native-stored signed images, preload on and off)
  vis.preload_equal     preload on == preload off (bit-level agreement is not demanded: 1e-10 relative)
  matrix.operator       transform_mapping_matrix(M) == A M for positive / tiny / signed / sparse matrices, both paths
  adjoint               image_from(V) == Re(A^H V) on the mask (zeros elsewhere) and <A I, V> == <I, A^H V>
  util.*                the autoarray.util.transformer functions called directly
  normal_equations.D/F  InversionInterferometerMapping.data_vector / curvature_matrix == noise-weighted real+imaginary Gram
                        products of A.hstack(M) (+ configured diag on unregularised parameters), mapped data == B s
validated against (scratch copies; the transformer tests are in the always-failing set, suite unaffected): reverting the
`value != 0` and the `image.slim` repairs, sign of the exponent in one of the two paths, u/v swapped in the preload only,
imaginary Gram term dropped, `+` instead of `-` on the sine term of the adjoint.
"""
import numpy as np

from harness import env, gen, gen_aa, ref

ID = "C13"
NO = 13
RULE = ("seeded cases: real-space mask up to 6x6 (<= 30 pixels), anisotropic pixel scales, origin, 1..12 (u,v) baselines with the zero "
        "baseline and a duplicate, magnitudes log-uniform 1e2..1e6 wavelengths; a case = (mask, scales, origin, baselines); distinct by "
        "their hash; non-trivial = >= 2 unmasked pixels and >= 2 distinct non-zero baselines")
BOUNDS = {"quick": "600 operators x (2 preload settings, 5 matrix kinds, 2 storage forms, second round after the adjoint) + 300 interferometer inversions (every 5th on a point-symmetric mask with dipole columns)",
          "thorough": "40000 operators + 20000 inversions"}
EXHAUSTIVE = {"quick": False, "thorough": False}
ASSUMPTIONS = ["pylops is absent: a stand-in module with an empty LinearOperator base class is injected before import (allowed by the property)",
               "NUFFT transformer and interferometer w-tilde are out of scope (library absent / stubbed code)",
               "phases up to 2*pi*|uv|*|x| ~ 1e2 rad are evaluated in double precision: comparisons use 1e-9 relative to the norm of the reference"]
QUICK_JOBS = 12
MIN_MONITORS = {"*": {"vis.operator": 40, "vis.preload_equal": 20, "matrix.operator": 40, "adjoint": 20, "adjoint.inner_product": 20,
                      "normal_equations.D": 10, "normal_equations.F": 10, "normal_equations.mapped": 10, "util.direct": 20, "history.after_adjoint": 20, "restored.operator": 40}}
RT = 1e-9


def plan(tier, seed):
    n = 600 if tier == "quick" else 40000
    ni = 300 if tier == "quick" else 20000
    step = 20 if tier == "quick" else 200
    return ([{"kind": "op", "start": s, "stop": min(n, s + step), "w": step} for s in range(0, n, step)] +
            [{"kind": "inv", "start": s, "stop": min(ni, s + step), "w": step} for s in range(0, ni, step)])


def setup(ctx):
    ctx.aa = env.boot("base", pylops=True)


def _np(x):
    return np.asarray(x.array if hasattr(x, "array") and not isinstance(x, np.ndarray) else x)


def relclose(a, b, rt=RT):
    a, b = np.asarray(a), np.asarray(b)
    if a.shape != b.shape or not np.isfinite(a).all():
        return False
    if a.size == 0:
        return True
    return bool(np.max(np.abs(a - b)) <= rt * max(float(np.max(np.abs(b))), 1e-300))


def make(ctx, rng, point_symmetric=False, many=False):
    aa = ctx.aa
    H, W = int(rng.integers(1, 7)), int(rng.integers(2, 7))
    m, fam = gen.random_mask(rng, H, W)
    if (~m).sum() < 2 and rng.random() < 0.9:
        m.ravel()[rng.choice(H * W, size=2, replace=False)] = False
    ps = (float(rng.uniform(0.05, 0.5)), float(rng.uniform(0.05, 0.5)))
    wide = rng.random() < 0.12
    if wide:
        # wide fields (arc-minute to half-degree pixels): the coordinates in radians are no longer tiny, the operator is still the
        # stated exponential of the pixel centres in radians
        f_ = float(10.0 ** rng.uniform(2.0, 3.6))
        ps = (ps[0] * f_, ps[1] * f_)
    origin = (0.0, 0.0) if rng.random() < 0.3 else (float(rng.normal() * 0.3), float(rng.normal() * 0.3))
    if point_symmetric:
        # mask invariant under the point reflection through the frame centre, origin (0, 0): the centres of a pixel and of its
        # mirror pixel are exact negatives, so a column that is odd under the reflection transforms to exactly imaginary entries
        m = m & m[::-1, ::-1]
        if (~m).sum() < 2:
            m[:] = False
        origin = (0.0, 0.0)
        fam = fam + "+point_symmetric"
    mask = aa.Mask2D(mask=m.copy(), pixel_scales=ps, origin=origin)
    K = int(rng.integers(1, 13)) if rng.random() < 0.1 else int(rng.integers(3, 13))
    if many:
        # realistic numbers of visibilities (thousands), next to and away from powers of two (block / chunk boundaries)
        K = int(2 ** int(rng.integers(9, 14)) * int(rng.integers(1, 3)) + int(rng.choice([-1, 0, 1, int(rng.integers(2, 500))]))) \
            if rng.random() < 0.7 else int(rng.integers(1000, 13000))
        if many == "hundreds":          # the un-jitted direct sums loop over baselines in Python
            K = int(rng.integers(200, 900))
    mag = np.exp(rng.uniform(np.log(1e2), np.log(1e6), size=K))
    if wide:
        mag = mag / f_                     # baselines that resolve the (large) pixels: phases of the same size as for small fields
    ang = rng.uniform(0, 2 * np.pi, size=K)
    uv = np.stack([mag * np.cos(ang), mag * np.sin(ang)], axis=1)
    if K >= 2 and rng.random() < 0.6:
        uv[0] = 0.0
    if K >= 3 and rng.random() < 0.6:
        uv[2] = uv[1]
    centres = ref.slim_centres(m, ps, origin) * np.pi / 648000.0          # (y, x) radians
    A = np.exp(-2j * np.pi * (np.outer(uv[:, 0], centres[:, 1]) + np.outer(uv[:, 1], centres[:, 0])))   # (K, n)
    return dict(m=m, fam=fam + ("+wide_field" if wide else ""), ps=ps, origin=origin, mask=mask, uv=uv, A=A, K=K, n=int((~m).sum()))


def run_op(ctx, i):
    aa = ctx.aa
    from autoarray.operators import transformer_util
    rng = gen.rng_for(ctx.seed, NO, 1, i)
    if not ctx.begin("op:%d" % i):
        return
    c = make(ctx, rng, many="hundreds" if i % 40 == 13 else False)
    m, mask, A, uv, n, K = c["m"], c["mask"], c["A"], c["uv"], c["n"], c["K"]
    W = dict(mask=m, scales=c["ps"], origin=c["origin"], uv=uv)
    full = rng.normal(size=m.shape) * float(np.exp(rng.uniform(-2, 3)))
    I = full[~m]
    V = rng.normal(size=K) + 1j * rng.normal(size=K)
    results = {}
    for preload in (False, True):
        uv_arg = uv.copy()            # float64 array owned by the caller ...
        ok, T = ctx.guarded("transformer.construct", lambda: aa.TransformerDFT(uv_wavelengths=uv_arg, real_space_mask=mask, preload_transform=preload))
        if not ok:
            continue
        # ... who goes on to build the next channel's baselines in the same array: the transformer stays the operator of the baselines
        # it was built from
        uv_arg *= 1.07
        uv_arg[0] += 3.0
        tag = dict(preload=preload, **W)
        for storage in ("slim", "native"):
            img = aa.Array2D(values=full.copy(), mask=mask, store_native=(storage == "native"))
            ok, vis = ctx.guarded("vis.operator", lambda: _np(T.visibilities_from(image=img)))
            if ok:
                ctx.check(relclose(vis, A @ I), "vis.operator", storage=storage, got=vis, expected=A @ I, image=I, **tag)
                results[(preload, storage)] = vis
        for mk in ("fractional", "tiny", "signed", "signed_sparse", "cancelling"):
            M, _ = gen.mapping_matrix(rng, n, int(rng.integers(1, 4)), kind=mk)
            ok, TM = ctx.guarded("matrix.operator", lambda: _np(T.transform_mapping_matrix(mapping_matrix=M.copy())))
            if ok:
                ctx.check(relclose(TM, A @ M), "matrix.operator", matrix_kind=mk, got=TM, expected=A @ M, mapping_matrix=M, **tag)
        # the visibilities as a user may hold them: a fresh contiguous vector, one channel column of a [visibilities, channels] cube,
        # a strided / reversed view, single precision
        form = ("contiguous", "cube_column", "strided_view", "reversed_view", "complex64")[i % 5]
        if form == "cube_column":
            cube = np.stack([V + 1.0, V, V - 2.0j], axis=1)
            Vin = cube[:, 1]
        elif form == "strided_view":
            Vin = np.stack([V, V * 0.5], axis=1).ravel()[::2]
        elif form == "reversed_view":
            Vin = V[::-1].copy()[::-1]
        elif form == "complex64":
            V = V.astype(np.complex64).astype(np.complex128)       # values exactly representable in single precision
            Vin = V.astype(np.complex64)
        else:
            Vin = V.copy()
        ctx.classes["visibilities_given_as:" + form] += 1
        tag = dict(tag, visibilities_given_as=form)
        vis_obj = aa.Visibilities(visibilities=Vin)
        adj_kw = ({}, {"use_adjoint_scaling": False}, {"use_adjoint_scaling": True})[i % 3]     # the direct sum already is the exact adjoint
        tag = dict(tag, image_from_keywords=adj_kw)
        ok, im = ctx.guarded("adjoint", lambda: T.image_from(visibilities=vis_obj, **adj_kw))
        if ok:
            exp = np.real(A.conj().T @ V)
            nat = np.zeros(m.shape)
            nat[~m] = exp
            ctx.check(relclose(_np(im.slim), exp) and relclose(_np(im.native), nat), "adjoint", got=_np(im.slim), expected=exp, visibilities=V, **tag)
            # <A I, V> (real inner product over real and imaginary parts) == <I, Re(A^H V)>
            lhs = float(np.real(np.vdot(V, A @ I)))
            rhs = float(I @ _np(im.slim))
            ctx.check(abs(lhs - rhs) <= 1e-9 * max(float(np.abs(A @ I) @ np.abs(V)), 1e-300), "adjoint.inner_product", lhs=lhs, rhs=rhs, **tag)
        # history on the SAME transformer: after the adjoint has been evaluated every operator is evaluated once more
        if ok:
            ok2, v2 = ctx.guarded("history.after_adjoint", lambda: _np(T.visibilities_from(image=aa.Array2D(values=full.copy(), mask=mask))))
            M2, _ = gen.mapping_matrix(rng, n, 2, kind="signed")
            ok3, TM2 = ctx.guarded("history.after_adjoint", lambda: _np(T.transform_mapping_matrix(mapping_matrix=M2.copy())))
            ok4, im2 = ctx.guarded("history.after_adjoint", lambda: _np(T.image_from(visibilities=aa.Visibilities(visibilities=V.copy())).slim))
            if ok2 and ok3 and ok4:
                good = [bool(relclose(v2, A @ I)), bool(relclose(TM2, A @ M2)), bool(relclose(im2, np.real(A.conj().T @ V)))]
                ctx.check(all(good), "history.after_adjoint", visibilities_ok=good[0], mapping_matrix_ok=good[1], second_adjoint_ok=good[2], **tag)
        # a transformer that went through copy / deepcopy / pickle (datasets are copied and shipped to worker processes with it):
        # the restored object is the same operator, and the original still is
        if i % 40 != 13:
            import copy as _copy
            import pickle as _pickle
            how = ("copy", "deepcopy", "pickle")[i % 3]
            okc, T2 = ctx.guarded("restored.operator", lambda: _copy.copy(T) if how == "copy" else _copy.deepcopy(T) if how == "deepcopy"
                                  else _pickle.loads(_pickle.dumps(T)))
            if okc:
                Mr, _ = gen.mapping_matrix(rng, n, 2, kind="signed")
                for which, Tx in (("restored", T2), ("original_afterwards", T)):
                    okv, vr = ctx.guarded("restored.operator", lambda: _np(Tx.visibilities_from(image=aa.Array2D(values=full.copy(), mask=mask))))
                    okm, tr = ctx.guarded("restored.operator", lambda: _np(Tx.transform_mapping_matrix(mapping_matrix=Mr.copy())))
                    oka, ar = ctx.guarded("restored.operator", lambda: _np(Tx.image_from(visibilities=aa.Visibilities(visibilities=V.copy())).slim))
                    if okv and okm and oka:
                        good = [bool(relclose(vr, A @ I)), bool(relclose(tr, A @ Mr)), bool(relclose(ar, np.real(A.conj().T @ V)))]
                        ctx.check(all(good), "restored.operator", how=how, which=which, visibilities_ok=good[0], mapping_matrix_ok=good[1],
                                  adjoint_ok=good[2], **tag)
    if (False, "slim") in results and (True, "slim") in results:
        ctx.check(relclose(results[(True, "slim")], results[(False, "slim")], 1e-10), "vis.preload_equal", preload=results[(True, "slim")],
                  direct=results[(False, "slim")], **W)
    # util functions directly
    g = (ref.slim_centres(m, c["ps"], c["origin"]) * np.pi / 648000.0).copy()
    try:
        pr = transformer_util.preload_real_transforms(grid_radians=g.copy(), uv_wavelengths=uv.copy())
        pi_ = transformer_util.preload_imag_transforms(grid_radians=g.copy(), uv_wavelengths=uv.copy())
        ctx.check(relclose(pr + 1j * pi_, A.T), "util.direct", which="preload tables", **W)
        v1 = transformer_util.visibilities_jit(image_1d=I.copy(), grid_radians=g.copy(), uv_wavelengths=uv.copy())
        v2 = transformer_util.visibilities_via_preload_jit_from(image_1d=I.copy(), preloaded_reals=pr, preloaded_imags=pi_)
        ctx.check(relclose(v1, A @ I) and relclose(v2, A @ I), "util.direct", which="visibilities", direct=v1, preload=v2, expected=A @ I, **W)
        Ms, _ = gen.mapping_matrix(rng, n, 2, kind="signed")
        t1 = transformer_util.transformed_mapping_matrix_jit(mapping_matrix=Ms.copy(), grid_radians=g.copy(), uv_wavelengths=uv.copy())
        t2 = transformer_util.transformed_mapping_matrix_via_preload_jit_from(mapping_matrix=Ms.copy(), preloaded_reals=pr, preloaded_imags=pi_)
        ctx.check(relclose(t1, A @ Ms) and relclose(t2, A @ Ms), "util.direct", which="transformed mapping matrix", **W)
        im = transformer_util.image_via_jit_from(n_pixels=n, grid_radians=g.copy(), uv_wavelengths=uv.copy(),
                                                 visibilities=np.stack([V.real, V.imag], axis=-1))
        ctx.check(relclose(im, np.real(A.conj().T @ V)), "util.direct", which="image_via_jit_from", **W)
    except Exception as e:
        ctx.check(False, "util.direct", exception=repr(e)[:300], **W)
    distinct_nonzero = len({tuple(np.round(r, 6)) for r in uv if np.abs(r).max() > 0})
    cls = ["mask:" + c["fam"], "K=%d" % K]
    if np.abs(uv).max(1).min() == 0:
        cls.append("zero_baseline")
    if len({tuple(r) for r in uv}) < K:
        cls.append("duplicate_baseline")
    ctx.case(m, c["ps"], c["origin"], uv, nontrivial=(n >= 2 and distinct_nonzero >= 2), cls=cls,
             sample=lambda: {"mask": m.astype(int).tolist(), "scales": c["ps"], "origin": c["origin"], "uv": uv.tolist()[:4], "baselines": K})


def run_inv(ctx, i):
    aa = ctx.aa
    rng = gen.rng_for(ctx.seed, NO, 2, i)
    if not ctx.begin("inv:%d" % i):
        return
    sym = (i % 5 == 0)
    many = (i % 25 == 7)
    c = make(ctx, rng, point_symmetric=sym, many=many)
    m, mask, A, uv, n, K = c["m"], c["mask"], c["A"], c["uv"], c["n"], c["K"]
    W = dict(mask=m, scales=c["ps"], origin=c["origin"], uv=uv)
    Func = gen_aa.func_list_class(aa)
    g = aa.Grid2D.from_mask(mask=mask, over_sampling=aa.OverSamplingUniform(sub_size=1))
    objs, desc = [], []
    for o in range(int(rng.integers(1, 3))):
        unreg = rng.random() < 0.4
        if n >= 4 and rng.random() < 0.5:
            osamp = aa.OverSamplerUniform(mask=mask, sub_size=int(rng.integers(1, 3)))
            mp, d = gen_aa.mapper(aa, rng, mask, osamp, "rect" if rng.random() < 0.5 else "del",
                                  None if unreg else aa.reg.Constant(coefficient=float(rng.uniform(0.2, 2))))
            objs.append(mp)
            d["regularized"] = not unreg
            desc.append(d)
        else:
            M, mk = gen.mapping_matrix(rng, n, int(rng.integers(1, 3)), kind=str(rng.choice(["fractional", "signed", "tiny"])))
            M[0, :] += 0.5
            # every other function list also carries the operated matrix an IMAGING inversion would use for it (a convolved copy): the
            # interferometer inversion transforms the mapping matrix itself
            ov = (0.6 * M + 0.3 * rng.normal(size=M.shape)) if rng.random() < 0.5 else None
            objs.append(Func(grid=g, M=M, regularization=None if unreg else aa.reg.Zeroth(coefficient=float(rng.uniform(0.3, 2))), override=ov))
            desc.append({"kind": "func", "matrix": mk, "regularized": not unreg, "carries_imaging_operated_override": ov is not None})
    if sym:
        # dipole columns (+v at a pixel, -v at its mirror pixel): their transform is exactly imaginary (real part 0.0)
        idx = {tuple(p): k for k, p in enumerate(np.argwhere(~m))}
        Hh, Ww = m.shape
        pairs = [(k, idx[(Hh - 1 - p[0], Ww - 1 - p[1])]) for p, k in idx.items() if idx[(Hh - 1 - p[0], Ww - 1 - p[1])] > k]
        if pairs:
            ncol = int(rng.integers(1, 3))
            Md = np.zeros((n, ncol))
            for cc in range(ncol):
                for (a_, b_) in [pairs[int(q)] for q in rng.choice(len(pairs), size=min(len(pairs), int(rng.integers(1, 3))), replace=False)]:
                    v_ = float(rng.choice([1.0, 0.5, 2.0]))
                    Md[a_, cc], Md[b_, cc] = v_, -v_
            objs.append(Func(grid=g, M=Md, regularization=aa.reg.Zeroth(coefficient=float(rng.uniform(0.3, 2)))))
            desc.append({"kind": "func", "matrix": "dipole_columns(odd under point reflection)", "regularized": True})
    preload = bool(rng.integers(2))
    T = aa.TransformerDFT(uv_wavelengths=uv.copy(), real_space_mask=mask, preload_transform=preload)
    Vd = rng.normal(size=K) * 3 + 1j * rng.normal(size=K) * 3
    Nz = rng.uniform(0.3, 3, size=K) + 1j * rng.uniform(0.3, 3, size=K)
    ds = aa.DatasetInterface(data=aa.Visibilities(visibilities=Vd.copy()), noise_map=aa.VisibilitiesNoiseMap(visibilities=Nz.copy()),
                             transformer=T, grids=aa.GridsInterface(uniform=g))
    diag = float(rng.choice([1e-8, 1e-3]))
    st = aa.SettingsInversion(use_w_tilde=False, use_positive_only_solver=False, no_regularization_add_to_curvature_diag_value=diag)
    W.update(objects=desc, preload=preload, diag=diag)
    ok, inv = ctx.guarded("inversion.construct", lambda: aa.Inversion(dataset=ds, linear_obj_list=objs, settings=st))
    if not ok:
        return
    ctx.check(type(inv).__name__ == "InversionInterferometerMapping", "inversion.type", got=type(inv).__name__)
    B = A @ np.hstack([np.asarray(o.mapping_matrix, float) for o in objs])
    Dref = (B.real * (Vd.real / Nz.real ** 2)[:, None]).sum(0) + (B.imag * (Vd.imag / Nz.imag ** 2)[:, None]).sum(0)
    Fref = (B.real / Nz.real[:, None]).T @ (B.real / Nz.real[:, None]) + (B.imag / Nz.imag[:, None]).T @ (B.imag / Nz.imag[:, None])
    cix = 0
    for o in objs:
        p = int(np.asarray(o.mapping_matrix).shape[1])
        if o.regularization is None:
            Fref[np.arange(cix, cix + p), np.arange(cix, cix + p)] += diag
        cix += p
    ok, D = ctx.guarded("normal_equations.D", lambda: _np(inv.data_vector).copy())
    if ok:
        ctx.check(relclose(D, Dref, 1e-8), "normal_equations.D", got=D, expected=Dref, **W)
    ok, F = ctx.guarded("normal_equations.F", lambda: _np(inv.curvature_matrix).copy())
    if ok:
        ctx.check(relclose(F, Fref, 1e-8), "normal_equations.F", got=F, expected=Fref, **W)
    ok, O = ctx.guarded("normal_equations.operated", lambda: _np(inv.operated_mapping_matrix).copy())
    if ok:
        ctx.check(relclose(O, B), "normal_equations.operated", got=O, expected=B, **W)
        if sym:
            ctx.classes["operated_entries_with_real_part_exactly_zero_and_imaginary_part_nonzero"] += int(((O.real == 0.0) & (O.imag != 0.0)).sum())
    try:
        s = _np(inv.reconstruction).copy()
        md = _np(inv.mapped_reconstructed_data).copy()
        tol = 1e-9 * max(float((np.abs(B) @ np.abs(s)).max()), 1e-300)
        ctx.check(md.shape == (K,) and float(np.abs(md - B @ s).max()) <= tol, "normal_equations.mapped", got=md, expected=B @ s, **W)
    except aa.exc.InversionException:
        ctx.skipped["reconstruction:InversionException(allowed)"] += 1
    except Exception as e:
        ctx.check(False, "normal_equations.mapped", exception=repr(e)[:300], **W)
    ctx.case("inv", m, uv, Vd, Nz, B, nontrivial=(n >= 2 and K >= 2), cls=["inversion", "objs:" + "+".join(d["kind"] for d in desc),
                                                                        "visibilities:" + ("<=12" if K <= 12 else "<=4096" if K <= 4096 else ">4096")],
             sample=lambda: {"mask": m.astype(int).tolist(), "baselines": K, "objects": desc, "preload": preload})


def run_unit(ctx, u):
    for i in range(u["start"], u["stop"]):
        (run_op if u["kind"] == "op" else run_inv)(ctx, i)
