"""
Trace of every autoconf cached-property computation and read.

autoconf.CachedProperty is a non-data descriptor that stores its value in the instance __dict__, so reads after the
first bypass it. Adding __set__/__delete__ to the class at run time turns it into a data descriptor: *every* read then goes
through the wrapped __get__ below. `del obj.__dict__[name]` / `__dict__.update` as used by the repository keep working.

Events: (class, name, kind, value fingerprint) with kind in
  compute    the value was computed by this object
  hit        read of a value this object computed earlier
  inherited  read of a value present in __dict__ although this object never computed it (copied by copy / with_new_array /
             shallow dataset copies)
Checks made online (recorded, never raised):
  cache.hit_unchanged      the fingerprint of a hit equals the fingerprint recorded at compute time  (in-place edit of a
                           cached array, e.g. MapperValued zeroing columns of mapper.mapping_matrix)
  cache.inherited_matches  an inherited entry equals what the object computes for itself (the function is re-run on the
                           object with the entry removed; quantities that depend only on state shared with the source pass)
Object identity: id() guarded by weakref.finalize (no aliasing through id reuse); objects that cannot be weak-referenced
are keyed by id for the duration of the trace only.
"""
import collections
import weakref

from harness.monitors.fingerprints import value_fp

_state = {"installed": False, "ctx": None, "computed": {}, "orig_get": None, "events": collections.Counter(), "busy": False,
          "context": {}}


def install(ctx):
    from autoconf.tools import decorators as dec
    CP = dec.CachedProperty
    _state["ctx"] = ctx
    _state["computed"].clear()
    if _state["installed"]:
        return
    _state["orig_get"] = CP.__get__

    def key(obj):
        k = id(obj)
        return k

    def forget(k):
        for kk in [x for x in _state["computed"] if x[0] == k]:
            _state["computed"].pop(kk, None)

    def remember(obj, k, fpv):
        if not any(x[0] == k[0] for x in _state["computed"]):
            try:
                weakref.finalize(obj, forget, k[0])
            except TypeError:
                pass
        _state["computed"][k] = fpv

    def get(self, obj, cls):
        if obj is None:
            return self
        name = self.func.__name__
        d = obj.__dict__
        ctx = _state["ctx"]
        k = (key(obj), name)
        if name not in d:
            v = self.func(obj)
            d[name] = v
            if ctx is not None:
                remember(obj, k, value_fp(v))
                _state["events"]["compute"] += 1
            return v
        v = d[name]
        if ctx is None or _state["busy"]:
            return v
        fpv = value_fp(v)
        cname = type(obj).__name__ + "." + name
        if k in _state["computed"]:
            _state["events"]["hit"] += 1
            ctx.monitors["cache.hit_unchanged"] += 1
            if fpv != _state["computed"][k]:
                ctx.fire("cache.hit_unchanged", quantity=cname, at_compute=_state["computed"][k][:60], at_read=fpv[:60], **_state["context"])
                _state["computed"][k] = fpv
        else:
            _state["events"]["inherited"] += 1
            # what does the object compute for itself?
            _state["busy"] = True
            try:
                saved = d.pop(name)
                try:
                    own = value_fp(self.func(obj))
                except Exception as e:
                    own = "EXC:" + type(e).__name__
                finally:
                    d[name] = saved
            finally:
                _state["busy"] = False
            ctx.monitors["cache.inherited_matches"] += 1
            if own != fpv:
                ctx.fire("cache.inherited_matches", quantity=cname, inherited=fpv[:60], own=own[:60], **_state["context"])
            remember(obj, k, fpv)
        return v

    def set_(self, obj, value):
        obj.__dict__[self.func.__name__] = value
        _state["computed"].pop((id(obj), self.func.__name__), None)

    def del_(self, obj):
        try:
            del obj.__dict__[self.func.__name__]
        except KeyError:
            raise AttributeError(self.func.__name__)
        _state["computed"].pop((id(obj), self.func.__name__), None)

    CP.__get__ = get
    CP.__set__ = set_
    CP.__delete__ = del_
    _state["installed"] = True


def set_context(**kw):
    _state["context"] = kw


def events():
    return dict(_state["events"])


def uninstall():
    if not _state["installed"]:
        return
    from autoconf.tools import decorators as dec
    CP = dec.CachedProperty
    CP.__get__ = _state["orig_get"]
    for a in ("__set__", "__delete__"):
        try:
            delattr(CP, a)
        except Exception:
            pass
    _state["installed"] = False
    _state["ctx"] = None
