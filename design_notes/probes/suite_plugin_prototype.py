import sys, json, atexit
sys.path.insert(0,'/tmp/deps_test')
import numpy as np
counts={'evals':0,'skipped':0,'viol':0}
def pytest_configure(config):
    import icontract
    from autoarray.structures.arrays import array_2d_util
    from autoarray.mask import mask_2d_util
    class PostBroken(Exception): pass
    def slim_ok(array_2d_native, mask_2d, result):
        try:
            m=np.asarray(mask_2d,dtype=bool); a=np.asarray(array_2d_native)
            ref=a[~m]
        except Exception:
            counts['skipped']+=1; return True
        counts['evals']+=1
        if not np.array_equal(ref,result): counts['viol']+=1
        return True
    array_2d_util.array_2d_slim_from=icontract.ensure(slim_ok,error=PostBroken)(array_2d_util.array_2d_slim_from)
    orig=mask_2d_util.edge_1d_indexes_from
    def edge_ok(mask_2d,result):
        m=np.asarray(mask_2d,dtype=bool); H,W=m.shape
        ys,xs=np.where(~m); got=set(int(r) for r in result); must=set(); mustnot=set()
        for k,(y,x) in enumerate(zip(ys,xs)):
            nb=[(y+dy,x+dx) for dy in (-1,0,1) for dx in (-1,0,1) if (dy,dx)!=(0,0) and 0<=y+dy<H and 0<=x+dx<W]
            if any(m[a,b] for a,b in nb): must.add(k)
            elif len(nb)==8: mustnot.add(k)
        counts['edge_evals']=counts.get('edge_evals',0)+1
        if not (must<=got and not got&mustnot): counts['edge_viol']=counts.get('edge_viol',0)+1; counts.setdefault('edge_witness',m.astype(int).tolist())
        return True
    mask_2d_util.edge_1d_indexes_from=icontract.ensure(edge_ok,error=PostBroken)(orig)
def pytest_sessionfinish(session, exitstatus):
    json.dump(counts,open('/tmp/probe/plug/out.json','w'))
