from common import *
import logging; logging.disable(logging.CRITICAL)
m=aa.Mask2D(mask=np.array([[True,False,False],[False,True,False],[False,False,False]]),pixel_scales=1.0)
# grid ctor zeroes caller's array
g=np.ones((3,3,2)); aa.Grid2D(values=g,mask=m); print('Grid2D mutated caller:', (g==0).any())
g=np.ones((3,3,2)); gg=np.ones((3,3,2)); aa.VectorYX2D(values=g,grid=gg,mask=m); print('VectorYX2D mutated caller:', (g==0).any(),(gg==0).any())
a=np.ones((3,3)); aa.Array2D(values=a,mask=m); print('Array2D mutated caller:', (a==0).any())
# Visibilities stale
v=aa.Visibilities(visibilities=np.array([1+1j,2+0j]))
w=v*2; print('ordered_1d stale w/o read:', w.ordered_1d, 'amps fresh', w.amplitudes)
v=aa.Visibilities(visibilities=np.array([1+1j,2+0j])); _=v.amplitudes; w=v*2; print('amplitudes after read stale:', w.amplitudes, 'expected', np.abs(w.array))
# Grid2D.is_uniform
g=aa.Grid2D.uniform(shape_native=(3,3),pixel_scales=1.0); _=g.is_uniform; h=g*g; print('is_uniform of g*g after read:',h.is_uniform); g2=aa.Grid2D.uniform(shape_native=(3,3),pixel_scales=1.0); print(' without read:',(g2*g2).is_uniform)
# mask circular_radius cached -> derived
mc=aa.Mask2D.circular(shape_native=(9,9),radius=2.0,pixel_scales=1.0); _=mc.circular_radius
mi=mc.invert() if hasattr(mc,'invert') else None
try:
    print('circular_radius on resized (new obj):', mc.resized_from((11,11)).circular_radius, ' copy():', mc.copy().__dict__.keys())
except Exception as e: print('E',e)
# dataset trimmed grids
data=aa.Array2D.no_mask(values=np.ones((7,7)),pixel_scales=1.0); noise=aa.Array2D.no_mask(values=np.ones((7,7)),pixel_scales=1.0)
psf=aa.Kernel2D.no_mask(values=np.ones((3,3)),pixel_scales=1.0)
ds=aa.Imaging(data=data,noise_map=noise,psf=psf); _=ds.grids.uniform
t=ds.trimmed_after_convolution_from((3,3)); print('trimmed after read: grid shape', t.grids.uniform.shape_native, 'data shape', t.data.shape_native)
ds=aa.Imaging(data=data,noise_map=noise,psf=psf); t=ds.trimmed_after_convolution_from((3,3)); print('trimmed no read: grid shape', t.grids.uniform.shape_native)
# simulator seed determinism
img=aa.Array2D.no_mask(values=np.ones((5,5)),pixel_scales=1.0)
s=aa.SimulatorImaging(exposure_time=100.,noise_seed=7,psf=psf)
np.random.seed(1); d1=s.via_image_from(img).data.array.copy(); np.random.seed(99); np.random.random(5); d2=s.via_image_from(img).data.array
print('sim deterministic', np.array_equal(d1,d2))
# image input mutated?
