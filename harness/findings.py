"""
Known findings: genuine defects recorded (not repaired) in /verif/known_findings.json.

Each entry names a classifier below, which recognises the *mechanism* from the witness a monitor
recorded (never a case hash, seed or random value). A fired witness matched by a listed classifier
prints one KNOWN-FINDING line per mechanism and does not fail the run; anything else is a VIOLATION.
The file is never written at run time; 'fixed' entries suppress nothing.
"""
import json
import os

from harness import env


def c09_iterate_zero_shortcut(w):
    # OverSamplerIterate.array_via_func_from: every pixel-centre (level-1) value is exactly 0 and the
    # returned array is all 0 although the stated rule gives a non-zero value somewhere.
    return (w.get("monitor") == "iterate.rule" and w.get("all_centre_values_zero") is True
            and w.get("result_all_zero") is True and w.get("reference_all_zero") is False)


def c11_values_masked_inplace(w):
    # MapperValued.values_masked zeroes the caller-owned `values` array in place (only with a mesh_pixel_mask).
    # Two faces of the same mechanism: the fingerprint of `values` changes during MapperValued.values_masked, and the
    # public attribute mapper_valued.values therefore reads differently after any query of the valued mapper.
    if w.get("mesh_pixel_mask") is not True:
        return False
    if w.get("monitor") == "input_fingerprint":
        return w.get("callee") == "MapperValued.values_masked" and w.get("mutated") == ["values"]
    if w.get("monitor") == "order.matches_baseline":
        return w.get("quantity") == "mapper_valued.values" and w.get("same_object_queried_earlier") is True
    return False


def c05_absolute_tolerance(w):
    # fnnls_cholesky: tolerance = 2.2204e-16 * n is absolute; an optimum whose largest entry is within 1e3 of it is truncated
    return (w.get("monitor") == "kkt.solver.tiny_solution" and w.get("solution_scale_below_absolute_tolerance") is True
            and float(w.get("reference_max", 1.0)) <= 1e3 * float(w.get("abs_tolerance", 0.0)))


CLASSIFIERS = {
    "c05_absolute_tolerance": c05_absolute_tolerance,
    "c09_iterate_zero_shortcut": c09_iterate_zero_shortcut,
    "c11_values_masked_inplace": c11_values_masked_inplace,
}


def load():
    p = os.path.join(env.VERIF, "known_findings.json")
    if not os.path.exists(p):
        return {"known": [], "fixed": []}
    return json.load(open(p))


def classify(pid, witnesses):
    kf = [k for k in load().get("known", []) if k["property"] == pid]
    lines, new, seen = [], [], set()
    for w in witnesses:
        hit = None
        for k in kf:
            fn = CLASSIFIERS.get(k["classifier"])
            try:
                if fn is not None and fn(w):
                    hit = k
                    break
            except Exception:
                pass
        if hit is None:
            new.append(w)
        elif hit["mechanism"] not in seen:
            seen.add(hit["mechanism"])
            lines.append("KNOWN-FINDING: property=%s %s: %s" % (pid, hit["mechanism"], hit["what"]))
    return lines, new
