from common import *
import logging; logging.disable(logging.CRITICAL)
from p04 import build
from p15 import Func
class Fit(aa.FitImaging):
    def __init__(self,dataset,model,inv=None,**k):
        super().__init__(dataset=dataset,**k); self._m=model; self._inv=inv
    @property
    def model_data(self): return self._m
    @property
    def inversion(self): return self._inv
bad={}
def flag(k,info=None):
    bad.setdefault(k,[0,None]); bad[k][0]+=1
    if bad[k][1] is None: bad[k][1]=info
for s in range(16):
    rng=np.random.default_rng(s)
    ds,mapper=build(9,9,(3,3),False,sub=1,seed=s)
    mask=ds.mask; m=np.array(mask)
    objs=[mapper]
    if s%2:
        f=Func(grid=ds.grids.uniform,M=rng.random((mask.pixels_in_mask,2)),regularization=None); objs=[f,mapper] if s%4==1 else [mapper,f]
    st=aa.SettingsInversion(use_w_tilde=bool(s%3),use_positive_only_solver=False,no_regularization_add_to_curvature_diag_value=1e-3)
    inv=aa.Inversion(dataset=ds,linear_obj_list=objs,settings=st)
    model=inv.mapped_reconstructed_data
    bg=0.3 if s%2 else 0.0
    fit=Fit(ds,model,inv,dataset_model=aa.DatasetModel(background_sky_level=bg))
    d=ds.data.array-bg; nz=ds.noise_map.array; md=model.array
    chi=(((d-md)/nz)**2).sum(); nn=np.log(2*np.pi*nz**2).sum()
    if not np.isclose(fit.chi_squared,chi): flag('chi')
    if not np.isclose(fit.noise_normalization,nn): flag('nn')
    if not np.isclose(fit.log_likelihood,-0.5*(chi+nn)): flag('ll')
    H=inv.regularization_matrix; F=inv.curvature_matrix; sr=inv.reconstruction
    reg_idx=[]; c=0
    for o in objs:
        if o.regularization is not None: reg_idx+=list(range(c,c+o.params))
        c+=o.params
    Hr=H[np.ix_(reg_idx,reg_idx)]; Fr=(F+H)[np.ix_(reg_idx,reg_idx)]; s_r=sr[reg_idx]
    ev=-0.5*(chi+s_r@Hr@s_r+np.linalg.slogdet(Fr)[1]-np.linalg.slogdet(Hr)[1]+nn)
    if not np.isclose(fit.log_evidence,ev,rtol=1e-9): flag('evidence',(s,fit.log_evidence,ev))
    if not np.isclose(fit.figure_of_merit,ev,rtol=1e-9): flag('fom')
    rff=fit.residual_flux_fraction_map.array
    if not np.allclose(rff,(d-md)/d): flag('rff')
    # native mode w/ garbage
    dn=aa.Array2D(values=np.where(m,rng.normal(size=m.shape),ds.data.native.array),mask=mask,store_native=True,skip_mask=True)
    nn_=aa.Array2D(values=np.where(m,rng.uniform(0,2,size=m.shape),ds.noise_map.native.array),mask=mask,store_native=True,skip_mask=True)
    mn=aa.Array2D(values=np.where(m,rng.normal(size=m.shape),model.native.array),mask=mask,store_native=True,skip_mask=True)
    dsn=aa.Imaging(data=dn,noise_map=nn_,psf=ds.psf,check_noise_map=False)
    fitn=Fit(dsn,mn,None,use_mask_in_fit=True,dataset_model=aa.DatasetModel(background_sky_level=bg))
    if not np.isclose(fitn.chi_squared,chi): flag('chi native',(fitn.chi_squared,chi))
    if not np.isclose(fitn.noise_normalization,nn): flag('nn native')
    if not np.isclose(fitn.log_likelihood,-0.5*(chi+nn)): flag('ll native')
    if not np.isclose(fitn.reduced_chi_squared,chi/(~m).sum()): flag('redchi')
for k,v in bad.items(): print(k,v)
print('done')
