"""
C14 - resize, pad and trim keep data centred and attached to its coordinates.

Workload
  resize  - EVERY (H, W, H', W') in [1,7]^4 (quick, 2 401 combinations) / [1,10]^4 (thorough, 10 000), i.e. every parity
            combination of the four dimensions, growing, shrinking and mixed. Per combination: an Array2D with
            unique per-cell values (a read identifies the cell it came from) on a mask (all-unmasked / seeded hostile
            families), random anisotropic scales and an origin with unequal components, slim- and native-stored,
            mask pad value 0 and 1. Observed: Array2D.resized_from, Mask2D.resized_from, grow -> shrink back.
  padtrim - every (H, W) in the same range x every odd kernel (ky, kx) in {1,3,5,7}^2:
            padded_before_convolution_from -> trimmed_after_convolution_from and Mask2D.trimmed_array_from
            (identity), and trimmed_after_convolution_from on its own (centred crop).
  dataset - seeded imaging datasets (unique data / noise values) masked with masks that reach to within half a
            kernel of the frame, so that Imaging.apply_mask pads automatically; the (coordinate, data, noise) triples
            of the unmasked pixels are observed through .data / .noise_map / .grids.uniform / .mask, and the padded
            dataset is trimmed back with AbstractDataset.trimmed_after_convolution_from.
  zoom    - Array2D.zoomed_around_mask(buffer 0..3) and Mask2D.zoom_region on masks touching the frame.
Oracle (independent index arithmetic, bit-exact): the centred placement has offset (N' - N)/2 per axis; when the
parity of an axis changes the two nearest-centred placements floor/ceil((N' - N)/2) are both accepted (array and
mask must use the same one); pad cells carry 0 / the requested mask pad value. Grow -> shrink and pad -> trim must be
the identity in every parity combination. With parity preserved every surviving unmasked pixel - identified by its
unique value, not by an assumed offset - must have the same scaled coordinate before and after, where "after" is
evaluated (a) by the C02 closed formula on the *result's* shape / pixel scales / origin and (b) by the repository's
Grid2D.from_mask on the result's mask; tolerance 1e-9 pixel. Dataset triples are matched by the unique data value:
data and noise bit-exact, coordinates within 1e-9 pixel. Zoom: one integer offset - fixed by the first unmasked
pixel's unique value - must map every unmasked pixel into the window onto its own value.
Contracts (icontract) on array_2d_util.resized_array_2d_from, AbstractArray2D.resized_from /
padded_before_convolution_from / trimmed_after_convolution_from and Mask2D.resized_from see every internal call
(Imaging.apply_mask -> padded_before_convolution_from -> resized_from -> resized_array_2d_from ...).

Validated against (tools/mutant.py, seed 0). Suite stays green (699/699) and the quick tier reports VIOLATION:
  * `y_max` without `+1` for even inputs (default origin, non-square input; shows for odd targets: last row lost)
        -> resize.array / resize.grow_shrink + contracts resized_array_2d_from, Array2D/Mask2D.resized_from
  * centre `int(W/2) - 1` for even W >= 6 of non-square inputs  -> resize.*, pad.embedding + the same contracts
  * `x_min` computed from resized_shape[0] (odd inputs, non-square targets) -> resize.* + contracts
  * even -> odd crop moved by one cell (non-square, default origin): still one of the two nearest-centred placements,
        caught only because enlarging then shrinking back loses a row -> resize.grow_shrink / resize.mask_grow_shrink
  * mask origin shifted by half a pixel when padding with pad value 1 (= the automatic padding of apply_mask)
        -> dataset.triples_padded / triples_formula_padded / trim_back, pad.coords_*, contracts
  * trimming with floor instead of ceil (non-square kernels)  -> contract trimmed_after_convolution_from,
        padtrim.identity, trim.crop, dataset.trim_back
  * trimmed_after_convolution_from moves the origin by one pixel for non-square kernels -> same monitors + trim.coords_*
  * Mask2D.trimmed_array_from uses the row padding for the columns -> padtrim.mask_trimmed_array
  * zoom_region drops the last column when the unmasked box is > 2 wider than tall -> zoom.window / zoom.region
  * apply_mask rolls the noise map by one column for tall kernels -> dataset.triples_* (data/noise mis-registered)
  * noise map rolled after the automatic padding -> unexpected DatasetException inside the domain (dataset.apply_mask)
  Also caught by quick but already killed by the repository's suite: the unconditional variants of the first four,
  floor-trimming for all kernels, zoom_region without `+1` for all wide boxes, mask pad value dropped in the top rows.
  Correctly silent (not a violation of the statement): zoom window clamped at the top of the frame (the window still
  contains every unmasked pixel with its value; the statement makes no claim about the buffer).
"""
import itertools

import numpy as np

from harness import env, gen, ref
from harness.monitors import contracts

ID = "C14"
NO = 14
RULE = ("resize: a case is one (H,W,H',W', mask variant): an Array2D with unique per-cell values on a mask with random "
        "anisotropic scales / origin, resized by Array2D.resized_from and Mask2D.resized_from and grown-then-shrunk; "
        "padtrim: one (H,W,ky,kx, mask variant); dataset: one seeded (data, noise, psf, mask) imaging dataset pushed "
        "through apply_mask; zoom: one (mask, buffer). distinct = distinct (shapes, kernel/buffer, mask bits, scales, "
        "origin); non-trivial = the operation changes the shape (resize/padtrim), the dataset was automatically padded "
        "(dataset), the mask has a masked pixel (zoom)")
BOUNDS = {"quick": "all (H,W,H',W') in [1,7]^4 x 1 mask variant; all (H,W) in [1,7]^2 x odd kernels {1,3,5,7}^2; 240 datasets "
                   "with H,W in [3,9]; 300 zoom cases with H,W in [1,9], buffers 0..3",
          "thorough": "all (H,W,H',W') in [1,10]^4 x 3 mask variants; all (H,W) in [1,10]^2 x odd kernels {1,3,5,7}^2 x 3 mask "
                      "variants; 4000 datasets with H,W in [3,12]; 4000 zoom cases with H,W in [1,12], buffers 0..3"}
# the (H,W,H',W') and (H,W,ky,kx) index spaces are enumerated completely, but masks / values / scales are sampled
EXHAUSTIVE = {"quick": False, "thorough": False}
ASSUMPTIONS = ["when the parity of an axis changes, either of the two nearest-centred placements (floor / ceil of half the "
               "size difference) is accepted, as long as array and mask use the same one",
               "coordinates compared within 1e-9 pixel per axis; values, masks and shapes bit-exact",
               "only the shape spaces are exhaustive; masks, scales, origins, datasets and zoom cases are seeded samples",
               "zooming is only required to contain every unmasked pixel with its value (no claim about the zoomed "
               "array's coordinates or the size of the buffer)"]
QUICK_JOBS = 16
BAND = 1e-9
KERNELS = (1, 3, 5, 7)

_CONTRACTS = ["contract:array_2d_util.resized_array_2d_from", "contract:AbstractArray2D.resized_from",
              "contract:AbstractArray2D.padded_before_convolution_from",
              "contract:AbstractArray2D.trimmed_after_convolution_from", "contract:Mask2D.resized_from"]
MIN_MONITORS = {"*": dict({c: 1 for c in _CONTRACTS},
                          **{"resize.array": 1, "resize.mask": 1, "resize.at_fits_load": 20, "resize.nonfinite_border": 20, "resize.geometry_kept": 1, "resize.coords_formula": 1,
                             "resize.coords_grid": 1, "resize.grow_shrink": 1, "resize.mask_grow_shrink": 1,
                             "pad.embedding": 1, "pad.coords_formula": 1, "pad.coords_grid": 1, "padtrim.identity": 1,
                             "padtrim.mask_trimmed_array": 1, "trim.crop": 1, "trim.coords_formula": 1,
                             "dataset.triples_padded": 1, "dataset.triples_formula_padded": 1, "dataset.trim_back": 1,
                             "zoom.window": 1, "zoom.region": 1})}


def plan(tier, seed):
    S = 7 if tier == "quick" else 10
    units = []
    for H in range(1, S + 1):
        for W in range(1, S + 1):
            units.append({"kind": "resize", "H": H, "W": W, "S": S, "w": S * S * (1.0 if tier == "quick" else 3.0)})
            units.append({"kind": "padtrim", "H": H, "W": W, "w": 16 * (1.0 if tier == "quick" else 3.0)})
    nd, nz = (240, 300) if tier == "quick" else (4000, 4000)
    for s in range(0, nd, 20 if tier == "quick" else 100):
        e = min(nd, s + (20 if tier == "quick" else 100))
        units.append({"kind": "dataset", "start": s, "stop": e, "w": (e - s) * 3.0})
    for s in range(0, nz, 50 if tier == "quick" else 250):
        e = min(nz, s + (50 if tier == "quick" else 250))
        units.append({"kind": "zoom", "start": s, "stop": e, "w": (e - s) * 1.0})
    if tier == "thorough":
        units.append({"kind": "suite", "w": 200})      # the repository's own tests with the contracts installed
    return units


# ------------------------------------------------------------------------------ reference (no autoarray)
def _np(x):
    return np.asarray(x.array if hasattr(x, "array") and not isinstance(x, np.ndarray) else x)


def offsets_1d(n, N):
    """Admissible positions of input index 0 in the output (negative = cropped): centred; floor & ceil on a parity change."""
    d = N - n
    return [d // 2] if d % 2 == 0 else [d // 2, d // 2 + 1]


def place(a, new, oy, ox, pad):
    """Input cell (i, j) goes to (i + oy, j + ox) when that lies inside the new frame; everything else is `pad`."""
    out = np.full(new, pad, dtype=a.dtype)
    H, W = a.shape
    i0, i1 = max(0, -oy), min(H, new[0] - oy)
    j0, j1 = max(0, -ox), min(W, new[1] - ox)
    if i1 > i0 and j1 > j0:
        out[i0 + oy:i1 + oy, j0 + ox:j1 + ox] = a[i0:i1, j0:j1]
    return out


def candidates(shape, new):
    return list(itertools.product(offsets_1d(shape[0], new[0]), offsets_1d(shape[1], new[1])))


def expected_resize(native0, m, new, oy, ox, pad):
    """(values, mask) of an array with zero-filled native values `native0` on mask `m` resized with offset (oy, ox)."""
    em = place(m, new, oy, ox, bool(pad))
    ev = np.where(em, 0.0, place(native0, new, oy, ox, 0.0))
    return ev, em


def match_resize(got_native, got_mask, native0, m, new, pad):
    """Does (got_native, got_mask) equal the centred placement (either of the two on a parity change)?"""
    if got_native is not None and tuple(got_native.shape) != tuple(new):
        return False
    if got_mask is not None and tuple(got_mask.shape) != tuple(new):
        return False
    for oy, ox in candidates(m.shape, new):
        ev, em = expected_resize(native0, m, new, oy, ox, pad)
        if (got_native is None or np.array_equal(got_native, ev, equal_nan=True)) and (got_mask is None or np.array_equal(got_mask, em)):
            return True
    return False


def coords_close(got, exp, scales):
    got, exp = np.asarray(got, dtype=float), np.asarray(exp, dtype=float)
    if got.shape != exp.shape:
        return False
    if got.size == 0:
        return True
    return bool(np.all(np.isfinite(got)) and np.all(np.abs(got - exp) <= BAND * np.array([scales[0], scales[1]])))


def geometry_of(mask):
    return (tuple(int(v) for v in mask.shape_native), tuple(float(v) for v in mask.pixel_scales), tuple(float(v) for v in mask.origin))


class Identity:
    """Maps a (unique, positive) value back to the cell of the original array it came from."""

    def __init__(self, vals):
        self.flat = vals.ravel()
        self.order = np.argsort(self.flat)
        self.sorted = self.flat[self.order]
        self.W = vals.shape[1]

    def cells(self, v):
        """(found (n,) bool, ij (n,2)) for an array of values."""
        v = np.asarray(v, dtype=float).ravel()
        k = np.clip(np.searchsorted(self.sorted, v), 0, len(self.sorted) - 1)
        found = self.sorted[k] == v
        q = self.order[k]
        return found, np.stack([q // self.W, q % self.W], axis=-1)


def attached(result_native, result_mask_bool, ident, old_centres, new_centres, scales):
    """
    Every unmasked pixel of the result that carries one of the original values must sit at the coordinate the
    original pixel had. Returns (ok, n_surviving, first offending).
    """
    pos = np.argwhere(~result_mask_bool)
    if len(pos) == 0:
        return True, 0, None
    v = result_native[~result_mask_bool]
    found, ij = ident.cells(v)
    pos, ij = pos[found], ij[found]
    if len(pos) == 0:
        return True, 0, None
    a = old_centres[ij[:, 0], ij[:, 1]]
    b = new_centres[pos[:, 0], pos[:, 1]]
    bad = np.any(np.abs(a - b) > BAND * np.array(scales), axis=1)
    w = None
    if bad.any():
        k = int(np.flatnonzero(bad)[0])
        w = {"original_pixel": ij[k].tolist(), "new_pixel": pos[k].tolist(), "coordinate_before": a[k].tolist(), "coordinate_after": b[k].tolist()}
    return (not bad.any()), int(len(pos)), w


# ------------------------------------------------------------------------------ contracts
def _native0(arr):
    return np.array(_np(arr.native), dtype=float), np.array(_np(arr.mask)).astype(bool)


def _shape2(s):
    s = tuple(int(v) for v in s)
    if len(s) != 2 or s[0] < 1 or s[1] < 1:
        return None
    return s


def post_resized_array_2d(ctx, a, result, old):
    arr = _np(a["array_2d"])
    new = _shape2(a["resized_shape"])
    if arr.ndim != 2 or new is None or tuple(a["origin"]) != (-1, -1):
        return None
    arr = arr.astype(float)
    pad = float(a["pad_value"])
    got = _np(result)
    ok = tuple(got.shape) == new and any(np.array_equal(got, place(arr, new, oy, ox, pad), equal_nan=True) for oy, ox in candidates(arr.shape, new))
    return ok, {"array_2d": arr, "resized_shape": new, "pad_value": pad, "got": got,
                "expected_one_of": [place(arr, new, oy, ox, pad) for oy, ox in candidates(arr.shape, new)][:2]}


def post_array_resized_from(ctx, a, result, old):
    new = _shape2(a["new_shape"])
    if new is None:
        return None
    native0, m = _native0(a["self"])
    pad = a["mask_pad_value"]
    gn, gm = _native0(result)
    ok = match_resize(gn, gm, native0, m, new, pad) and geometry_of(result.mask)[1:] == geometry_of(a["self"].mask)[1:]
    return ok, {"input_native": native0, "input_mask": m, "new_shape": new, "mask_pad_value": pad, "got_native": gn, "got_mask": gm,
                "geometry_before": geometry_of(a["self"].mask), "geometry_after": geometry_of(result.mask)}


def post_mask_resized_from(ctx, a, result, old):
    new = _shape2(a["new_shape"])
    if new is None:
        return None
    m = np.array(_np(a["self"])).astype(bool)
    pad = a["pad_value"]
    gm = np.array(_np(result)).astype(bool)
    ok = match_resize(None, gm, np.zeros(m.shape), m, new, pad) and geometry_of(result)[1:] == geometry_of(a["self"])[1:]
    return ok, {"input_mask": m, "new_shape": new, "pad_value": pad, "got_mask": gm,
                "geometry_before": geometry_of(a["self"]), "geometry_after": geometry_of(result)}


def _odd_kernel(k):
    k = tuple(int(v) for v in k)
    return k if len(k) == 2 and k[0] % 2 == 1 and k[1] % 2 == 1 and k[0] > 0 and k[1] > 0 else None


def post_padded(ctx, a, result, old):
    k = _odd_kernel(a["kernel_shape"])
    if k is None:
        return None
    native0, m = _native0(a["self"])
    new = (m.shape[0] + k[0] - 1, m.shape[1] + k[1] - 1)
    ev, em = expected_resize(native0, m, new, (k[0] - 1) // 2, (k[1] - 1) // 2, a["mask_pad_value"])
    gn, gm = _native0(result)
    ok = np.array_equal(gn, ev) and np.array_equal(gm, em) and geometry_of(result.mask)[1:] == geometry_of(a["self"].mask)[1:]
    return ok, {"input_native": native0, "input_mask": m, "kernel_shape": k, "mask_pad_value": a["mask_pad_value"],
                "got_native": gn, "got_mask": gm, "expected_native": ev, "expected_mask": em}


def post_trimmed(ctx, a, result, old):
    k = _odd_kernel(a["kernel_shape"])
    if k is None:
        return None
    native0, m = _native0(a["self"])
    new = (m.shape[0] - k[0] + 1, m.shape[1] - k[1] + 1)
    if new[0] < 1 or new[1] < 1:
        return None
    cy, cx = (k[0] - 1) // 2, (k[1] - 1) // 2
    ev, em = native0[cy:cy + new[0], cx:cx + new[1]], m[cy:cy + new[0], cx:cx + new[1]]
    gn, gm = _native0(result)
    ok = np.array_equal(gn, np.where(em, 0.0, ev)) and np.array_equal(gm, em) and geometry_of(result.mask)[1:] == geometry_of(a["self"].mask)[1:]
    return ok, {"input_native": native0, "input_mask": m, "kernel_shape": k, "got_native": gn, "got_mask": gm,
                "expected_native": ev, "expected_mask": em}


def install_contracts(ctx):
    from autoarray.structures.arrays import array_2d_util
    from autoarray.structures.arrays.uniform_2d import AbstractArray2D
    from autoarray.mask.mask_2d import Mask2D
    contracts.attach(ctx, array_2d_util, "resized_array_2d_from", post_resized_array_2d)
    contracts.attach(ctx, AbstractArray2D, "resized_from", post_array_resized_from)
    contracts.attach(ctx, AbstractArray2D, "padded_before_convolution_from", post_padded)
    contracts.attach(ctx, AbstractArray2D, "trimmed_after_convolution_from", post_trimmed)
    contracts.attach(ctx, Mask2D, "resized_from", post_mask_resized_from)


def setup(ctx):
    ctx.aa = env.boot("base")
    install_contracts(ctx)


def teardown(ctx):
    contracts.detach_all()


# ------------------------------------------------------------------------------ shared case material
def scales_origin(rng):
    s = (float(np.exp(rng.uniform(np.log(0.05), np.log(20)))), float(np.exp(rng.uniform(np.log(0.05), np.log(20)))))
    if rng.random() < 0.15:
        s = (s[0], s[0])
    if rng.random() < 0.15:
        o = (0.0, 0.0)
    else:
        o = (float(rng.uniform(-30, 30) * s[0]), float(rng.uniform(-30, 30) * s[1]))
    return s, o


def mask_variant(rng, H, W, v):
    if v == 0:
        return np.zeros((H, W), bool), "all_unmasked"
    return gen.random_mask(rng, H, W)


def unique_values(rng, H, W):
    return (1.0 + np.arange(H * W) + 0.5 * rng.random(H * W)).reshape(H, W)


def parity_class(a, b):
    return "%s_to_%s" % ("odd" if a % 2 else "even", "odd" if b % 2 else "even")


def coords_checks(ctx, prefix, R, gn, gm, ident, old_centres, s, wit):
    """(a) C02 formula on the result's own geometry, (b) the repository's Grid2D.from_mask on the result's mask."""
    shape, rs, ro = geometry_of(R.mask)
    newc = ref.pixel_centres(shape, rs, ro)
    ok, nsurv, w = attached(gn, gm, ident, old_centres, newc, s)
    ctx.check(ok, prefix + ".coords_formula", offending=w, surviving=nsurv, result_geometry=(shape, rs, ro), **wit)
    okg, G = ctx.guarded(prefix + ".coords_grid", lambda: _np(ctx.aa.Grid2D.from_mask(mask=R.mask).native))
    if okg:
        ok, nsurv, w = attached(gn, gm, ident, old_centres, G, s) if G.shape == newc.shape else (False, 0, {"grid_shape": list(G.shape)})
        ctx.check(ok, prefix + ".coords_grid", offending=w, surviving=nsurv, result_geometry=(shape, rs, ro), **wit)
    return nsurv


# ------------------------------------------------------------------------------ resize
def resize_case(ctx, H, W, nH, nW, v):
    aa = ctx.aa
    if not ctx.begin("resize:%d,%d,%d,%d:%d" % (H, W, nH, nW, v)):
        return
    rng = gen.rng_for(ctx.seed, NO, 1, H, W, nH, nW, v)
    s, o = scales_origin(rng)
    m, fam = mask_variant(rng, H, W, v if ctx.tier == "thorough" else (H + W + nH + nW) % 3)
    vals = unique_values(rng, H, W)
    native0 = np.where(m, 0.0, vals)
    pad = int(rng.integers(2))
    store_native = bool(rng.integers(2))
    new = (nH, nW)
    wit = {"shape": (H, W), "new_shape": new, "mask": m, "values": vals, "pixel_scales": s, "origin": o, "mask_pad_value": pad,
           "store_native": store_native}
    mask = aa.Mask2D(mask=m.copy(), pixel_scales=s, origin=o)
    A = aa.Array2D(values=vals.copy(), mask=mask, store_native=store_native)
    same_parity = (nH - H) % 2 == 0 and (nW - W) % 2 == 0
    nsurv = None

    ok, R = ctx.guarded("resize.array", lambda: A.resized_from(new_shape=new, mask_pad_value=pad))
    if ok:
        gn, gm = _native0(R)
        ctx.check(match_resize(gn, gm, native0, m, new, pad), "resize.array", got_native=gn, got_mask=gm,
                  admissible_offsets=candidates((H, W), new), **wit)
        ctx.check(geometry_of(R.mask) == (new, s, o), "resize.geometry_kept", how="Array2D.resized_from", got=lambda: geometry_of(R.mask), **wit)
        if same_parity and gn.shape == new:
            nsurv = coords_checks(ctx, "resize", R, gn, gm, Identity(vals), ref.pixel_centres((H, W), s, o), s, wit)

    if (H + 2 * W + nH + v) % 3 == 0:
        # the same values as a Kernel2D (a PSF that is cut to a smaller stamp or embedded in a larger one): every subclass of the
        # array resizes by the same centred crop / embedding, values untouched (the kernel is not normalised to begin with)
        mk0 = np.zeros((H, W), bool)
        okk, RK = ctx.guarded("resize.kernel2d", lambda: aa.Kernel2D.no_mask(values=vals.copy(), pixel_scales=s, origin=o).resized_from(new_shape=new))
        if okk:
            gkn, gkm = _native0(RK)
            ctx.check(match_resize(gkn, gkm, vals, mk0, new, 0), "resize.array", how="Kernel2D.resized_from", got_native=gkn, got_mask=gkm,
                      admissible_offsets=candidates((H, W), new), **wit)
            ctx.check(geometry_of(RK.mask) == (new, s, o), "resize.geometry_kept", how="Kernel2D.resized_from", got=lambda: geometry_of(RK.mask), **wit)
        ctx.classes["resized:Kernel2D"] += 1

    ok, MR = ctx.guarded("resize.mask", lambda: mask.resized_from(new_shape=new, pad_value=pad))
    if ok:
        gmm = np.array(_np(MR)).astype(bool)
        ctx.check(match_resize(None, gmm, native0, m, new, pad), "resize.mask", got_mask=gmm, admissible_offsets=candidates((H, W), new), **wit)
        ctx.check(geometry_of(MR) == (new, s, o), "resize.geometry_kept", how="Mask2D.resized_from", got=lambda: geometry_of(MR), **wit)

    # non-finite values on the border of the input (NaN outside a detector footprint, inf where the exposure is zero): the padding
    # of an enlargement is still exactly zero and every input pixel keeps its value
    if nH >= H and nW >= W and new != (H, W) and (H + W + nH + nW + v) % 2 == 0:
        v2 = vals.copy()
        v2[0, :] = np.nan
        v2[-1, -1] = np.inf
        v2[:, 0] = -np.inf if W > 1 else v2[:, 0]
        okn, Rn = ctx.guarded("resize.nonfinite_border", lambda: _np(aa.Array2D.no_mask(values=v2.copy(), pixel_scales=s, origin=o).resized_from(new_shape=new).native))
        if okn:
            good = False
            for oy, ox in candidates((H, W), new):
                ev = place(v2, new, oy, ox, 0.0)
                if Rn.shape == ev.shape and np.array_equal(Rn, ev, equal_nan=True):
                    good = True
            ctx.check(good, "resize.nonfinite_border", got_native=Rn, input=v2, **wit)
    # resizing while loading: Mask2D.from_fits(resized_mask_shape=..., invert=...) is the mask the file describes (as loaded by
    # the same call without a resize), resized: centred, padded with False, with the requested geometry
    if (H + 2 * W + 3 * nH + 5 * nW + v) % 4 == 1:
        import os
        import tempfile
        if getattr(ctx, "_c14_tmp", None) is None:
            ctx._c14_tmp = tempfile.TemporaryDirectory(prefix="verif_c14_")
        path = os.path.join(ctx._c14_tmp.name, "mask_%d_%d.fits" % (os.getpid(), H * 100 + W))
        okw, _ = ctx.guarded("resize.at_fits_load", lambda: mask.output_to_fits(file_path=path, overwrite=True))
        for inv in ((False, True) if okw else ()):
            okb, base = ctx.guarded("resize.at_fits_load", lambda: aa.Mask2D.from_fits(file_path=path, pixel_scales=s, origin=o, invert=inv))
            okr, got = ctx.guarded("resize.at_fits_load", lambda: aa.Mask2D.from_fits(file_path=path, pixel_scales=s, origin=o, invert=inv,
                                                                                       resized_mask_shape=new))
            if okb and okr:
                bm_ = np.array(_np(base)).astype(bool)
                gm_ = np.array(_np(got)).astype(bool)
                ctx.check(bm_.shape == (H, W) and np.array_equal(bm_, ~m if inv else m) and match_resize(None, gm_, np.zeros((H, W)), bm_, new, 0)
                          and geometry_of(got) == (new, s, o), "resize.at_fits_load", invert=inv, loaded_without_resize=bm_, got_mask=gm_,
                          got_geometry=lambda: geometry_of(got), admissible_offsets=candidates((H, W), new), **wit)
    # enlarging then shrinking back loses nothing - in every parity combination
    G = (max(H, nH), max(W, nW))
    if G != (H, W):
        ok, B = ctx.guarded("resize.grow_shrink", lambda: A.resized_from(new_shape=G, mask_pad_value=pad).resized_from(new_shape=(H, W), mask_pad_value=pad))
        if ok:
            bn, bm = _native0(B)
            ctx.check(np.array_equal(bn, native0) and np.array_equal(bm, m) and geometry_of(B.mask) == ((H, W), s, o),
                      "resize.grow_shrink", grown_shape=G, got_native=bn, got_mask=bm, **wit)
        ok, Bm = ctx.guarded("resize.mask_grow_shrink", lambda: mask.resized_from(new_shape=G, pad_value=pad).resized_from(new_shape=(H, W), pad_value=pad))
        if ok:
            ctx.check(np.array_equal(np.array(_np(Bm)).astype(bool), m), "resize.mask_grow_shrink", grown_shape=G, got_mask=lambda: _np(Bm), **wit)

    cls = ["rows:" + parity_class(H, nH), "cols:" + parity_class(W, nW),
           "rows:" + ("grow" if nH > H else "shrink" if nH < H else "same"), "cols:" + ("grow" if nW > W else "shrink" if nW < W else "same"),
           "mask_pad_%d" % pad, "mask:" + fam]
    ctx.case("resize", H, W, nH, nW, m, s, o, pad, store_native, nontrivial=new != (H, W), cls=cls,
             sample=lambda: {"kind": "resize", "shape": [H, W], "new_shape": list(new), "mask": m.astype(int).tolist(), "pixel_scales": s,
                             "origin": o, "mask_pad_value": pad, "parity_preserved": same_parity, "surviving_pixels_coordinate_checked": nsurv,
                             "admissible_offsets": candidates((H, W), new)})


# ------------------------------------------------------------------------------ pad / trim
def padtrim_case(ctx, H, W, ky, kx, v):
    aa = ctx.aa
    if not ctx.begin("padtrim:%d,%d,%d,%d:%d" % (H, W, ky, kx, v)):
        return
    rng = gen.rng_for(ctx.seed, NO, 2, H, W, ky, kx, v)
    s, o = scales_origin(rng)
    m, fam = mask_variant(rng, H, W, v if ctx.tier == "thorough" else (H + W + ky + kx) % 3)
    vals = unique_values(rng, H, W)
    native0 = np.where(m, 0.0, vals)
    pad = int(rng.integers(2))
    store_native = bool(rng.integers(2))
    k = (ky, kx)
    wit = {"shape": (H, W), "kernel_shape": k, "mask": m, "values": vals, "pixel_scales": s, "origin": o, "mask_pad_value": pad,
           "store_native": store_native}
    mask = aa.Mask2D(mask=m.copy(), pixel_scales=s, origin=o)
    A = aa.Array2D(values=vals.copy(), mask=mask, store_native=store_native)
    ident = Identity(vals)
    oldc = ref.pixel_centres((H, W), s, o)
    P_shape = (H + ky - 1, W + kx - 1)

    ok, P = ctx.guarded("pad.embedding", lambda: A.padded_before_convolution_from(kernel_shape=k, mask_pad_value=pad))
    if ok:
        pn, pm = _native0(P)
        ev, em = expected_resize(native0, m, P_shape, (ky - 1) // 2, (kx - 1) // 2, pad)
        good = ctx.check(np.array_equal(pn, ev) and np.array_equal(pm, em) and geometry_of(P.mask) == (P_shape, s, o), "pad.embedding",
                         got_native=pn, got_mask=pm, expected_native=ev, expected_mask=em, got_geometry=lambda: geometry_of(P.mask), **wit)
        if pn.shape == P_shape:
            coords_checks(ctx, "pad", P, pn, pm, ident, oldc, s, wit)
        ok, T = ctx.guarded("padtrim.identity", lambda: P.trimmed_after_convolution_from(kernel_shape=k))
        if ok:
            tn, tm = _native0(T)
            ctx.check(np.array_equal(tn, native0) and np.array_equal(tm, m) and geometry_of(T.mask) == ((H, W), s, o), "padtrim.identity",
                      got_native=tn, got_mask=tm, got_geometry=lambda: geometry_of(T.mask), **wit)
        ok, T2 = ctx.guarded("padtrim.mask_trimmed_array", lambda: P.mask.trimmed_array_from(padded_array=P, image_shape=(H, W)))
        if ok:
            t2 = np.array(_np(T2.native), dtype=float)
            ctx.check(np.array_equal(t2, native0) and geometry_of(T2.mask) == ((H, W), s, o), "padtrim.mask_trimmed_array",
                      got_native=t2, got_geometry=lambda: geometry_of(T2.mask), **wit)

    # trimming on its own: the centred crop, coordinates attached (parity preserved because the kernel is odd)
    tshape = (H - ky + 1, W - kx + 1)
    if tshape[0] >= 1 and tshape[1] >= 1:
        ok, C = ctx.guarded("trim.crop", lambda: A.trimmed_after_convolution_from(kernel_shape=k))
        if ok:
            cn, cm = _native0(C)
            cy, cx = (ky - 1) // 2, (kx - 1) // 2
            em = m[cy:cy + tshape[0], cx:cx + tshape[1]]
            ev = np.where(em, 0.0, native0[cy:cy + tshape[0], cx:cx + tshape[1]])
            ctx.check(np.array_equal(cn, ev) and np.array_equal(cm, em) and geometry_of(C.mask) == (tshape, s, o), "trim.crop",
                      got_native=cn, got_mask=cm, expected_native=ev, got_geometry=lambda: geometry_of(C.mask), **wit)
            if cn.shape == tshape:
                coords_checks(ctx, "trim", C, cn, cm, ident, oldc, s, wit)
    else:
        ctx.skipped["trim_kernel_larger_than_array"] += 1

    ctx.case("padtrim", H, W, ky, kx, m, s, o, pad, store_native, nontrivial=k != (1, 1),
             cls=["kernel_%dx%d" % k, "kernel_square" if ky == kx else "kernel_non_square", "mask_pad_%d" % pad, "mask:" + fam,
                  "rows:%s" % ("odd" if H % 2 else "even"), "cols:%s" % ("odd" if W % 2 else "even")],
             sample=lambda: {"kind": "padtrim", "shape": [H, W], "kernel_shape": list(k), "padded_shape": list(P_shape), "mask": m.astype(int).tolist(),
                             "pixel_scales": s, "origin": o, "mask_pad_value": pad})


# ------------------------------------------------------------------------------ automatically padded datasets
def dataset_case(ctx, idx):
    aa = ctx.aa
    if not ctx.begin("dataset:%d" % idx):
        return
    rng = gen.rng_for(ctx.seed, NO, 3, idx)
    smax = 9 if ctx.tier == "quick" else 12
    H, W = int(rng.integers(3, smax + 1)), int(rng.integers(3, smax + 1))
    ky, kx = int(KERNELS[int(rng.integers(4))]), int(KERNELS[int(rng.integers(4))])
    if idx % 5 == 0:
        ky, kx = max(ky, 3), max(kx, 3)
    s, o = scales_origin(rng)
    m, fam = gen.random_mask(rng, H, W)
    vals = unique_values(rng, H, W) * float(rng.choice([1.0, -1.0]))
    nz = (0.5 + np.arange(H * W)[::-1] * 0.25 + 0.1 * rng.random(H * W)).reshape(H, W)
    kern, kkind = gen.kernel(rng, ky, kx, "positive")
    k = (ky, kx)
    wit = {"shape": (H, W), "kernel_shape": k, "mask": m, "pixel_scales": s, "origin": o, "data": vals, "noise": nz}
    _, leaves = ref.blurring_mask(m, k)

    def build():
        data = aa.Array2D.no_mask(values=vals.copy(), pixel_scales=s, origin=o)
        noise = aa.Array2D.no_mask(values=nz.copy(), pixel_scales=s, origin=o)
        psf = aa.Kernel2D.no_mask(values=kern.copy(), pixel_scales=s)
        ds = aa.Imaging(data=data, noise_map=noise, psf=psf)
        return ds.apply_mask(mask=aa.Mask2D(mask=m.copy(), pixel_scales=s, origin=o))

    ok, md = ctx.guarded("dataset.apply_mask", build)
    padded = None
    if ok:
        new_shape = tuple(int(v) for v in md.data.shape_native)
        padded = new_shape != (H, W)
        tag = "_padded" if padded else "_unpadded"
        # reference triples, ordered by the (unique) data value
        exp_c, exp_d, exp_n = ref.slim_centres(m, s, o), vals[~m], nz[~m]
        order = np.argsort(exp_d)
        exp_c, exp_d, exp_n = exp_c[order], exp_d[order], exp_n[order]

        def judge(monitor, gd, gnz, gc, **extra):
            gd, gnz, gc = np.asarray(gd, dtype=float), np.asarray(gnz, dtype=float), np.asarray(gc, dtype=float)
            good = gd.shape == exp_d.shape and gnz.shape == exp_n.shape and gc.shape == exp_c.shape
            if good:
                g = np.argsort(gd)
                good = np.array_equal(gd[g], exp_d) and np.array_equal(gnz[g], exp_n) and coords_close(gc[g], exp_c, s)
            ctx.check(good, monitor, expected_triples=lambda: np.column_stack([exp_c, exp_d, exp_n]),
                      got_triples=lambda: np.column_stack([gc[np.argsort(gd)], np.sort(gd), gnz[np.argsort(gd)]]) if gd.shape == gnz.shape and gc.shape == (len(gd), 2) else [list(gd.shape), list(gnz.shape), list(gc.shape)],
                      new_shape=new_shape, **extra, **wit)

        # (a) as the user sees them: slim data / noise / uniform grid
        okq, q = ctx.guarded("dataset.triples" + tag, lambda: (_np(md.data.slim), _np(md.noise_map.slim), _np(md.grids.uniform.slim)))
        if okq:
            judge("dataset.triples" + tag, q[0], q[1], q[2])
        # (b) native arrays + mask of the result, coordinates by the C02 formula on the result's own geometry
        okq, q = ctx.guarded("dataset.triples_formula" + tag, lambda: (_native0(md.data), _native0(md.noise_map), geometry_of(md.mask)))
        if okq:
            (dn, dm), (nn, nm), (gshape, gs, go) = q
            same = dn.shape == nn.shape == dm.shape == gshape and np.array_equal(dm, nm) and np.array_equal(dm, np.array(_np(md.mask)).astype(bool))
            ctx.check(same, "dataset.masks_consistent" + tag, data_mask=dm, noise_mask=nm, result_mask=lambda: _np(md.mask), **wit)
            if same:
                judge("dataset.triples_formula" + tag, dn[~dm], nn[~dm], ref.pixel_centres(gshape, gs, go)[~dm], result_geometry=(gshape, gs, go))
        # trimming the padded dataset back by the same kernel restores the unpadded masked dataset
        if padded:
            okt, tr = ctx.guarded("dataset.trim_back", lambda: md.trimmed_after_convolution_from(kernel_shape=k))
            if okt:
                (dn, dm), (nn, nm) = _native0(tr.data), _native0(tr.noise_map)
                gc = _np(tr.grids.uniform.slim)
                ctx.check(np.array_equal(dn, np.where(m, 0.0, vals)) and np.array_equal(nn, np.where(m, 0.0, nz)) and np.array_equal(dm, m)
                          and np.array_equal(nm, m) and geometry_of(tr.mask) == ((H, W), s, o) and coords_close(gc, ref.slim_centres(m, s, o), s),
                          "dataset.trim_back", padded_shape=new_shape, got_data=dn, got_noise=nn, got_mask=dm, got_geometry=lambda: geometry_of(tr.mask), **wit)
    ctx.case("dataset", H, W, ky, kx, m, s, o, vals, nontrivial=bool(padded),
             cls=["kernel_%dx%d" % k, "mask:" + fam, "footprint_leaves_frame" if leaves else "footprint_inside_frame",
                  "padded" if padded else "not_padded"],
             sample=lambda: {"kind": "dataset", "shape": [H, W], "kernel_shape": list(k), "mask": m.astype(int).tolist(), "pixel_scales": s,
                             "origin": o, "footprint_leaves_frame": bool(leaves), "padded": padded,
                             "shape_after_apply_mask": list(md.data.shape_native) if ok else None, "unmasked": int((~m).sum())})


# ------------------------------------------------------------------------------ zoom
def zoom_case(ctx, idx):
    aa = ctx.aa
    if not ctx.begin("zoom:%d" % idx):
        return
    rng = gen.rng_for(ctx.seed, NO, 4, idx)
    smax = 9 if ctx.tier == "quick" else 12
    H, W = int(rng.integers(1, smax + 1)), int(rng.integers(1, smax + 1))
    buffer = idx % 4
    s, o = scales_origin(rng)
    m, fam = gen.random_mask(rng, H, W)
    vals = unique_values(rng, H, W)
    wit = {"shape": (H, W), "mask": m, "values": vals, "buffer": buffer, "pixel_scales": s, "origin": o}
    mask = aa.Mask2D(mask=m.copy(), pixel_scales=s, origin=o)
    A = aa.Array2D(values=vals.copy(), mask=mask)
    un = np.argwhere(~m)
    zshape = None
    ok, Z = ctx.guarded("zoom.window", lambda: np.array(_np(A.zoomed_around_mask(buffer=buffer).native), dtype=float))
    if ok:
        zshape = list(Z.shape)
        # the single integer offset is fixed by where the first unmasked pixel's (unique) value landed
        hit = np.argwhere(Z == vals[un[0, 0], un[0, 1]]) if Z.ndim == 2 else np.zeros((0, 2), int)
        good, w = False, {"first_unmasked_value_found_at": hit.tolist()}
        if len(hit) == 1:
            dy, dx = int(un[0, 0] - hit[0, 0]), int(un[0, 1] - hit[0, 1])
            zy, zx = un[:, 0] - dy, un[:, 1] - dx
            inside = (zy >= 0) & (zy < Z.shape[0]) & (zx >= 0) & (zx < Z.shape[1])
            good = bool(inside.all()) and bool(np.array_equal(Z[zy, zx], vals[un[:, 0], un[:, 1]]))
            if not good:
                miss = un[~inside] if not inside.all() else un[Z[zy, zx] != vals[un[:, 0], un[:, 1]]]
                w = {"offset": [dy, dx], "unmasked_pixels_missing_or_wrong": miss[:6].tolist()}
        ctx.check(good, "zoom.window", zoomed=Z, **w, **wit)
    ok, reg = ctx.guarded("zoom.region", lambda: [int(v) for v in mask.zoom_region])
    if ok:
        ctx.check(len(reg) == 4 and reg[0] <= un[:, 0].min() and reg[1] > un[:, 0].max() and reg[2] <= un[:, 1].min() and reg[3] > un[:, 1].max(),
                  "zoom.region", region=reg, unmasked_rows=[int(un[:, 0].min()), int(un[:, 0].max())],
                  unmasked_cols=[int(un[:, 1].min()), int(un[:, 1].max())], **wit)
    # history: the zoom region and a zoomed array were read above; the SAME mask object is now edited in place (a far pixel is
    # unmasked) and zoomed again - the window again contains every pixel that is unmasked NOW, with its value
    cand = np.argwhere(m)
    if len(cand):
        far = cand[int(np.argmax(np.abs(cand[:, 0] - un[:, 0].mean()) + np.abs(cand[:, 1] - un[:, 1].mean())))]
        okh, Z2 = ctx.guarded("zoom.window", lambda: (mask.__setitem__((int(far[0]), int(far[1])), False),
                                                      np.array(_np(aa.Array2D(values=vals.copy(), mask=mask).zoomed_around_mask(buffer=buffer).native), dtype=float))[1])
        if okh:
            m2 = m.copy()
            m2[far[0], far[1]] = False
            un2 = np.argwhere(~m2)
            hit = np.argwhere(Z2 == vals[un2[0, 0], un2[0, 1]]) if Z2.ndim == 2 else np.zeros((0, 2), int)
            good2 = False
            if len(hit) == 1:
                dy, dx = int(un2[0, 0] - hit[0, 0]), int(un2[0, 1] - hit[0, 1])
                zy, zx = un2[:, 0] - dy, un2[:, 1] - dx
                inside = (zy >= 0) & (zy < Z2.shape[0]) & (zx >= 0) & (zx < Z2.shape[1])
                good2 = bool(inside.all()) and bool(np.array_equal(Z2[zy, zx], vals[un2[:, 0], un2[:, 1]]))
            ctx.check(good2, "zoom.window", history="mask edited in place after its zoom region was read", newly_unmasked=[int(far[0]), int(far[1])],
                      zoomed=Z2, **wit)
    touches = bool((~m[0, :]).any() or (~m[-1, :]).any() or (~m[:, 0]).any() or (~m[:, -1]).any())
    bh, bw = int(un[:, 0].max() - un[:, 0].min() + 1), int(un[:, 1].max() - un[:, 1].min() + 1)
    ctx.case("zoom", H, W, buffer, m, nontrivial=bool(m.any()),
             cls=["buffer_%d" % buffer, "mask:" + fam, "unmasked_touches_frame" if touches else "unmasked_interior",
                  "bbox_square" if bh == bw else ("bbox_tall" if bh > bw else "bbox_wide"),
                  "bbox_odd_difference" if (bh - bw) % 2 else "bbox_even_difference"],
             sample=lambda: {"kind": "zoom", "shape": [H, W], "buffer": buffer, "mask": m.astype(int).tolist(), "zoomed_shape": zshape,
                             "unmasked_bounding_box": [bh, bw]})


def run_unit(ctx, u):
    nv = 1 if ctx.tier == "quick" else 3
    if u["kind"] == "resize":
        for nH in range(1, u["S"] + 1):
            for nW in range(1, u["S"] + 1):
                for v in range(nv):
                    resize_case(ctx, u["H"], u["W"], nH, nW, v)
    elif u["kind"] == "padtrim":
        for ky in KERNELS:
            for kx in KERNELS:
                for v in range(nv):
                    padtrim_case(ctx, u["H"], u["W"], ky, kx, v)
    elif u["kind"] == "dataset":
        for idx in range(u["start"], u["stop"]):
            dataset_case(ctx, idx)
    elif u["kind"] == "zoom":
        for idx in range(u["start"], u["stop"]):
            zoom_case(ctx, idx)
