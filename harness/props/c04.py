"""
C04 - data vector and curvature matrix equal the normal equations in both formalisms.

Per generated (dataset, ordered list of 1..3 linear objects) the real aa.Inversion is built with use_w_tilde on
and off and compared with an independent dense reference
    B = C_ref . hstack(M_obj),  D_ref = B^T N^-1 d,  F_ref = B^T N^-1 B (+ configured diag on unregularised params)
where C_ref is the plain-loop convolution matrix of harness/ref.py built from the dataset's own PSF values and
M_obj the objects' own mapping matrices (decided separately by C06). Monitors:
  D.vs_ref, F.vs_ref            each formalism against the reference (1e-8 * scale, DESIGN 1.8)
  F.symmetric, blocks.order     symmetry; permuting linear_obj_list permutes the blocks of D and F
  formalisms.D / .F / .reconstruction / .mapped   w-tilde against mapping formalism
  factory.formalism             use_w_tilde=True with >= 1 mapper really produced the w-tilde inversion (else the
                                comparison would be vacuous); all-function lists legitimately fall back to mapping
  operated.vs_ref               operated_mapping_matrix == B
  mapped.vs_ref                 mapped_reconstructed_data == B s (unconstrained solver)
validated against (scratch copies, suite green): reverting each of the three repairs (transposed half-widths,
`> 0` overlap filter, `value > 0` in the convolver), forgetting the `/2` on the preload diagonal, dropping the
mirror step for two mappers, forgetting the diag term in the w-tilde path, noise instead of noise^2.
"""
import itertools

import numpy as np

from harness import env, gen, gen_aa

ID = "C04"
NO = 4
RULE = ("seeded cases: imaging dataset (mask with footprint inside the frame, 4..36 unmasked pixels, odd PSF with independent "
        "sizes 1/3/5 per axis and positive/signed/asymmetric/sparse/spike entries, signed data, noise in [0.3,3], pixelization "
        "sub-size 1..2) x ordered list of 1..3 linear objects (rectangular / Delaunay mappers on distorted source grids, "
        "function lists with signed/tiny matrices, regularised or not); a case = (dataset, object list); distinct by hash of "
        "(mask, kernel, data, noise, mapping matrices); non-trivial = kernel larger than 1x1 or more than one object")
BOUNDS = {"quick": "1024 cases x 2 formalisms (+ block permutations), n<=36 unmasked pixels",
          "thorough": "30000 cases x 2 formalisms"}
EXHAUSTIVE = {"quick": False, "thorough": False}
ASSUMPTIONS = ["assembled quantities compared with |got-ref| <= 1e-8*max(1,|ref|inf); reconstructions compared only when cond(F+H) <= 1e8 (1e-6*scale), otherwise counted and skipped",
               "the objects' own mapping matrices are taken as given here (their correctness is C06)"]
QUICK_JOBS = 16
MIN_MONITORS = {"*": {"D.vs_ref": 2, "F.vs_ref": 2, "F.symmetric": 2, "formalisms.D": 1, "formalisms.F": 1,
                      "formalisms.reconstruction": 1, "formalisms.mapped": 1, "factory.formalism": 1, "blocks.order": 1,
                      "operated.vs_ref": 1, "mapped.vs_ref": 1, "DF.after_solve": 1, "dataset_reused.other_objects": 20, "dataset_derived.after_w_tilde": 20, "dataset_interface.changed_data": 20, "with_library_preloads": 20}}
RT = 1e-8


def plan(tier, seed):
    n = 1024 if tier == "quick" else 30000
    step = 8 if tier == "quick" else 25
    return [{"kind": "inv", "start": s, "stop": min(n, s + step), "w": step} for s in range(0, n, step)]


def setup(ctx):
    ctx.aa = env.boot("base")


def teardown(ctx):
    pass


def _np(x):
    return np.asarray(x.array if hasattr(x, "array") and not isinstance(x, np.ndarray) else x)


def relclose(a, b, rtol):
    """max|a-b| <= rtol*max|b| - relative to the size of the reference itself (no absolute floor), because the
    noise level spans 1e-3..1e4 and D, F scale with 1/noise^2."""
    a, b = np.asarray(a, float), np.asarray(b, float)
    if a.shape != b.shape or not (np.isfinite(a).all() and np.isfinite(b).all()):
        return False
    if a.size == 0:
        return True
    return bool(np.max(np.abs(a - b)) <= rtol * max(float(np.max(np.abs(b))), 1e-300))


def reference(case, objs, diag):
    from harness import ref
    k = _np(case["ds"].psf.native)
    C = ref.conv_matrix(case["m"], k)
    Ms = [np.asarray(o.mapping_matrix, float) for o in objs]
    # an object that supplies its operated columns itself (operated_mapping_matrix_override) contributes exactly those columns
    B = np.hstack([np.asarray(o.operated_mapping_matrix_override, float) if getattr(o, "operated_mapping_matrix_override", None) is not None
                   else C @ M for o, M in zip(objs, Ms)])
    d = case["d"][~case["m"]]
    nz = case["noise"][~case["m"]]
    D = B.T @ (d / nz ** 2)
    F = (B / nz[:, None]).T @ (B / nz[:, None])
    c = 0
    for o, M in zip(objs, Ms):
        p = M.shape[1]
        if o.regularization is None:
            F[np.arange(c, c + p), np.arange(c, c + p)] += diag
        c += p
    return B, D, F, k


def run_case(ctx, i):
    aa = ctx.aa
    rng = gen.rng_for(ctx.seed, NO, i)
    if not ctx.begin("inv:%d" % i):
        return
    case = gen_aa.imaging_case(aa, rng, noise_covariance=True)
    if case["noise_covariance_matrix"] is not None:
        ctx.classes["dataset_with_full_noise_covariance_matrix"] += 1
    objs, desc = gen_aa.linear_objects(aa, rng, case, overrides=True)
    diag = float(rng.choice([1e-8, 1e-3]))
    W = dict(mask=case["m"], kernel=case["k"], normalized_psf=case["normalized"], objects=desc, diag=diag, sub=case["sub"],
             noise_scale=case["noise_scale"])
    B, Dref, Fref, k_used = reference(case, objs, diag)
    ctx.check(ctx.close(k_used, case["k_used"], 1e-12), "psf.as_given", got=k_used, expected=case["k_used"], **W)
    scD, scF = max(1.0, float(np.abs(Dref).max())), max(1.0, float(np.abs(Fref).max()))
    has_mapper = any(d["kind"] != "func" for d in desc)
    res = {}
    for use_w in (False, True):
        st = aa.SettingsInversion(use_w_tilde=use_w, use_positive_only_solver=False,
                                  no_regularization_add_to_curvature_diag_value=diag)
        tag = "w_tilde" if use_w else "mapping"
        ok, inv = ctx.guarded("inversion.construct", lambda: aa.Inversion(dataset=case["ds"], linear_obj_list=objs, settings=st))
        if not ok:
            continue
        if use_w:
            is_w = type(inv).__name__ == "InversionImagingWTilde"
            ctx.check(is_w == has_mapper, "factory.formalism", got=type(inv).__name__, has_mapper=has_mapper, **W)
        okD, D = ctx.guarded("D.vs_ref", lambda: _np(inv.data_vector).copy(), )
        okF, F = ctx.guarded("F.vs_ref", lambda: _np(inv.curvature_matrix).copy())
        if okD:
            ctx.check(relclose(D, Dref, RT), "D.vs_ref", formalism=tag, got=D, expected=Dref, **W)
        if okF:
            ctx.check(relclose(F, Fref, RT), "F.vs_ref", formalism=tag, got=F, expected=Fref,
                      maxdiff=lambda: float(np.abs(F - Fref).max()) if F.shape == Fref.shape else "shape", **W)
            ctx.check(F.shape == Fref.shape and float(np.abs(F - F.T).max()) <= 1e-10 * float(np.abs(Fref).max()), "F.symmetric", formalism=tag, **W)
        okO, O = ctx.guarded("operated.vs_ref", lambda: _np(inv.operated_mapping_matrix).copy())
        if okO:
            ctx.check(relclose(O, B, 1e-10), "operated.vs_ref", formalism=tag, got=O, expected=B, **W)
        rec = md = None
        if okD and okF:
            try:
                rec = _np(inv.reconstruction).copy()
                md = _np(inv.mapped_reconstructed_data).copy()
            except aa.exc.InversionException:
                ctx.skipped["reconstruction:InversionException(allowed for the unconstrained solver)"] += 1
            except Exception as e:
                ctx.check(False, "mapped.vs_ref", formalism=tag, exception=repr(e)[:300], **W)
        if rec is not None:
            exp = B @ rec
            # forward error of a matrix-vector product scales with |B||s| (s of an ill-conditioned solve can be large)
            tol = 1e-9 * max(float((np.abs(B) @ np.abs(rec)).max()), 1e-300)
            ctx.check(md.shape == exp.shape and float(np.abs(md - exp).max()) <= tol, "mapped.vs_ref", formalism=tag, got=md,
                      expected=exp, tol=tol, **W)
            # D and F as reported *after* the solve (reconstruction, evidence terms) must still be the normal equations
            try:
                inv.log_det_curvature_reg_matrix_term
                inv.regularization_term
            except Exception:
                pass
            okA, DFa = ctx.guarded("DF.after_solve", lambda: (_np(inv.data_vector).copy(), _np(inv.curvature_matrix).copy()))
            if okA:
                ctx.check(relclose(DFa[0], Dref, RT) and relclose(DFa[1], Fref, RT), "DF.after_solve", formalism=tag,
                          got_F=DFa[1], expected_F=Fref, **W)
        res[tag] = (D if okD else None, F if okF else None, rec, md, inv)
    if "mapping" in res and "w_tilde" in res and has_mapper:
        (D0, F0, r0, m0, i0), (D1, F1, r1, m1, i1) = res["mapping"], res["w_tilde"]
        if D0 is not None and D1 is not None:
            ctx.check(relclose(D1, D0, RT), "formalisms.D", w_tilde=D1, mapping=D0, **W)
        if F0 is not None and F1 is not None:
            ctx.check(relclose(F1, F0, RT), "formalisms.F", w_tilde=F1, mapping=F0, **W)
        if r0 is not None and r1 is not None:
            A = F0 + _np(i0.regularization_matrix)
            cond = np.linalg.cond(A)
            if cond <= 1e8:
                ctx.check(relclose(r1, r0, 1e-6), "formalisms.reconstruction", w_tilde=r1, mapping=r0, cond=float(cond), **W)
                ctx.check(relclose(m1, m0, 1e-6), "formalisms.mapped", w_tilde=m1, mapping=m0, cond=float(cond), **W)
            else:
                ctx.skipped["formalisms.reconstruction:cond>1e8 (forward comparison skipped)"] += 1
            # always: the w-tilde reconstruction must solve the *mapping* formalism's system (normwise backward error)
            be = np.linalg.norm(A @ r1 - D0) / (np.linalg.norm(A, 2) * np.linalg.norm(r1) + np.linalg.norm(D0) + 1e-300)
            ctx.check(be <= 1e-9, "formalisms.reconstruction.backward", backward_error=float(be), cond=float(cond), **W)
    # metamorphic: permuting the object list permutes the blocks accordingly (both formalisms, one permutation each)
    if len(objs) > 1:
        perms = [p for p in itertools.permutations(range(len(objs))) if p != tuple(range(len(objs)))]
        perm = perms[int(rng.integers(len(perms)))]
        sizes = [int(np.asarray(o.mapping_matrix).shape[1]) for o in objs]
        offs = np.concatenate([[0], np.cumsum(sizes)])
        index = np.concatenate([np.arange(offs[j], offs[j + 1]) for j in perm])
        pobjs = [objs[j] for j in perm]
        for use_w in (False, True):
            st = aa.SettingsInversion(use_w_tilde=use_w, use_positive_only_solver=False,
                                      no_regularization_add_to_curvature_diag_value=diag)
            ok, inv = ctx.guarded("blocks.order", lambda: aa.Inversion(dataset=case["ds"], linear_obj_list=pobjs, settings=st))
            if not ok:
                continue
            ok2, DF = ctx.guarded("blocks.order", lambda: (_np(inv.data_vector).copy(), _np(inv.curvature_matrix).copy()))
            if ok2:
                ctx.check(relclose(DF[0], Dref[index], RT) and relclose(DF[1], Fref[np.ix_(index, index)], RT), "blocks.order",
                          perm=perm, formalism="w_tilde" if use_w else "mapping", got_D=DF[0], expected_D=Dref[index], **W)
    # history: the SAME dataset object (its convolver / w-tilde tables are cached on it and were used above) now serves an
    # inversion of OTHER linear objects: D and F are the normal equations of those objects
    if i % 3 == 0:
        objs2, desc2 = gen_aa.linear_objects(aa, rng, case, overrides=False)
        B2, Dref2, Fref2, _ = reference(case, objs2, diag)
        for use_w in (False, True):
            st = aa.SettingsInversion(use_w_tilde=use_w, use_positive_only_solver=False, no_regularization_add_to_curvature_diag_value=diag)
            ok, DF = ctx.guarded("dataset_reused.other_objects", lambda: (lambda v: (_np(v.data_vector).copy(), _np(v.curvature_matrix).copy()))(
                aa.Inversion(dataset=case["ds"], linear_obj_list=objs2, settings=st)))
            if ok:
                ctx.check(relclose(DF[0], Dref2, RT) and relclose(DF[1], Fref2, RT), "dataset_reused.other_objects", formalism="w_tilde" if use_w else "mapping",
                          second_objects=desc2, got_D=DF[0], expected_D=Dref2, **W)
    # history: datasets DERIVED from one whose w-tilde tables / convolver have already been computed (apply_over_sampling): their inversions are the normal equations of the derived dataset's own PSF, noise map and grids
    if i % 3 == 1:
        try:
            case["ds"].w_tilde
            case["ds"].convolver
        except Exception:
            pass
        derived = []
        ok, ds2 = ctx.guarded("dataset_derived.after_w_tilde", lambda: case["ds"].apply_over_sampling(
            over_sampling=aa.OverSamplingDataset(pixelization=aa.OverSamplingUniform(sub_size=int(rng.integers(1, 4))))))
        if ok:
            derived.append(("apply_over_sampling", dict(case, ds=ds2)))
        for how, case2 in derived:
            objs2, desc2 = gen_aa.linear_objects(aa, rng, case2, overrides=False)
            B2, Dref2, Fref2, k2 = reference(case2, objs2, diag)
            for use_w in (False, True):
                st = aa.SettingsInversion(use_w_tilde=use_w, use_positive_only_solver=False, no_regularization_add_to_curvature_diag_value=diag)
                ok, DF = ctx.guarded("dataset_derived.after_w_tilde", lambda: (lambda v: (_np(v.data_vector).copy(), _np(v.curvature_matrix).copy()))(
                    aa.Inversion(dataset=case2["ds"], linear_obj_list=objs2, settings=st)))
                if ok:
                    ctx.check(relclose(DF[0], Dref2, RT) and relclose(DF[1], Fref2, RT), "dataset_derived.after_w_tilde", derived_by=how,
                              formalism="w_tilde" if use_w else "mapping", objects_on_derived=desc2, psf_of_derived=k2, got_F=DF[1], expected_F=Fref2, **W)
    # the dataset handed over through DatasetInterface with CHANGED data (a model image subtracted) and the noise map, grids,
    # convolver and w-tilde tables of the original imaging dataset: D is B^T N^-1 d for the data that was passed
    if i % 3 == 2:
        n_ = int((~case["m"]).sum())
        d_new = case["d"][~case["m"]] - (0.3 + rng.random(n_)) * float(np.abs(case["d"]).max())
        case3 = dict(case)
        dn = np.zeros(case["m"].shape)
        dn[~case["m"]] = d_new
        case3["d"] = dn
        Bi, Drefi, Frefi, _ = reference(case3, objs, diag)
        got_i = {}
        for use_w in (True, False):
            st = aa.SettingsInversion(use_w_tilde=use_w, use_positive_only_solver=False, no_regularization_add_to_curvature_diag_value=diag)

            def via_interface():
                ds_ = case["ds"]
                di = aa.DatasetInterface(data=aa.Array2D(values=d_new.copy(), mask=case["mask"]), noise_map=ds_.noise_map, grids=ds_.grids,
                                         convolver=ds_.convolver, w_tilde=ds_.w_tilde)
                v = aa.Inversion(dataset=di, linear_obj_list=objs, settings=st)
                return _np(v.data_vector).copy(), _np(v.curvature_matrix).copy()
            ok, DF = ctx.guarded("dataset_interface.changed_data", via_interface)
            if ok:
                ctx.check(relclose(DF[0], Drefi, RT) and relclose(DF[1], Frefi, RT), "dataset_interface.changed_data", formalism="w_tilde" if use_w else "mapping",
                          got_D=DF[0], expected_D=Drefi, D_of_the_original_data=Dref, **W)
    # the normal equations of a later fit that takes the library's own preloads (filled by Preloads.set_* from two earlier, identical
    # fits): still B^T N^-1 d and B^T N^-1 B of the objects in their order; function lists alone with a w-tilde preload switch included
    if i % 4 == 1:
        class FitLike:
            def __init__(self, inv_, ds_):
                self.inversion, self.dataset, self.noise_map = inv_, ds_, ds_.noise_map
        fobjs, fdesc = gen_aa.linear_objects(aa, rng, case, nobj=int(rng.integers(1, 4)), kinds=("func",), overrides=True)
        for which, objs_p, desc_p in (("same_objects", objs, desc), ("function_lists_only", fobjs, fdesc)):
            Bp, Drefp, Frefp, _ = reference(case, objs_p, diag)
            for use_w in (False, True):
                st = aa.SettingsInversion(use_w_tilde=use_w, use_positive_only_solver=False, no_regularization_add_to_curvature_diag_value=diag)

                def with_library_preloads():
                    f0 = FitLike(aa.Inversion(dataset=case["ds"], linear_obj_list=objs_p, settings=st), case["ds"])
                    f1 = FitLike(aa.Inversion(dataset=case["ds"], linear_obj_list=objs_p, settings=st), case["ds"])
                    pre = aa.Preloads()
                    for prod in ("set_w_tilde_imaging", "set_linear_func_inversion_dicts"):
                        try:
                            getattr(pre, prod)(f0, f1)
                        except Exception:
                            ctx.skipped["library_preloads:producer_raised:" + prod] += 1
                    if which == "function_lists_only":
                        pre.use_w_tilde = True          # what set_w_tilde_imaging leaves behind after any fit with a mapper and a fixed noise map
                    v = aa.Inversion(dataset=case["ds"], linear_obj_list=objs_p, settings=st, preloads=pre)
                    return _np(v.data_vector).copy(), _np(v.curvature_matrix).copy()
                ok, DF = ctx.guarded("with_library_preloads", with_library_preloads)
                if ok:
                    ctx.check(relclose(DF[0], Drefp, RT) and relclose(DF[1], Frefp, RT), "with_library_preloads", objects_used=which, formalism_requested="w_tilde" if use_w else "mapping",
                              objects_of_this_inversion=desc_p, got_D=DF[0], expected_D=Drefp, **W)
    k = case["k"]
    cls = ["kernel:%s" % case["kernel_kind"], "kshape:%dx%d" % k.shape, "data:%s" % case["data_kind"], "nobj:%d" % len(objs),
           "objs:" + "+".join(d["kind"] for d in desc)]
    if k.shape[0] != k.shape[1]:
        cls.append("nonsquare_psf")
    if (k < 0).any():
        cls.append("signed_psf")
    if any(not d["regularized"] for d in desc):
        cls.append("has_unregularized_object")
    if case["normalized"]:
        cls.append("normalized_psf")
    if case["noise_scale"] != 1.0:
        cls.append("noise_scale:1e%d" % int(np.floor(np.log10(case["noise_scale"]))))
    cls.append("sub_size:per_pixel_map" if isinstance(case["sub"], np.ndarray) else "sub_size:uniform")
    ctx.case(case["m"], k, case["d"], case["noise"], B, nontrivial=(k.size > 1 or len(objs) > 1), cls=cls,
             sample=lambda: {"mask": case["m"].astype(int).tolist(), "kernel": k.tolist(), "objects": desc, "sub": np.asarray(case["sub"]).tolist(),
                             "diag": diag, "data_kind": case["data_kind"]})


def run_unit(ctx, u):
    for i in range(u["start"], u["stop"]):
        run_case(ctx, i)
