"""
C02 - pixel indices and scaled (y,x) coordinates are consistent inverse maps; shape-based mask constructors.

Workload (seeded, stratified; every case is generated from gen.rng_for(seed, 2, kind, index)):
  geom  - one geometry = (H, W, anisotropic scales, origin with unequal components up to +-100 pixel scales, mask).
          All four (H parity, W parity) classes are cycled, square / 1xN / Nx1 / tiny shapes are forced regularly.
          Observed: geometry.extent, Grid2D.from_mask / Grid2D.uniform / derive_grid.all_false (every pixel centre),
          the scalar maps pixel_coordinates_2d_from / scaled_coordinates_2d_from /
          scaled_coordinate_2d_to_scaled_at_pixel_centre_from on pixel centres and interior points, the grid maps
          grid_pixel_centres_2d_from / grid_pixel_indexes_2d_from on k random interior points per pixel + one
          near-edge and one near-corner point per pixel (distance 1e-8 .. 1e-4 pixel from the pixel boundary,
          i.e. >= 10x outside the tie band), and both compositions of grid_pixels_2d_from / grid_scaled_2d_from.
  ctor  - the five constructors circular / circular_annular / circular_anti_annular / elliptical /
          elliptical_annular on non-square shapes with anisotropic scales, a non-zero mask origin (must not change
          the booleans), centres inside and outside the frame, random radii and *critical* radii placed
          1e-8..1e-5 * max(1,r) on either side of the radial measure r of a randomly chosen pixel (10 % exactly on
          it: these pixels must come out as don't-care).
  dim1  - Grid1D.from_mask / Grid1D.uniform / Mask1D.geometry.extent.
Oracle: the closed formulas of the statement (harness/ref.py: centre y = o_y + ((H-1)/2 - i) s_y, x = o_x +
(j - (W-1)/2) s_x; extent = union of the pixel squares; index = the pixel whose square contains the point, flat
i*W + j; radial inequalities evaluated at the pixel centres relative to the mask origin, the elliptical radius by
rotating (dy, dx) by -phi). Integer / boolean results exact; coordinates within 1e-9 pixel; points whose position is
within 1e-9 pixel of a pixel boundary and mask pixels with |r - radius| < 1e-9*max(1, radius) are don't-care
(Kleene three-valued evaluation of the compound inequalities), counted in `skipped`, never violations. A few
points are placed exactly on pixel boundaries on purpose to exercise that path.
Contracts (icontract) on mask_2d_util.mask_2d_{circular,circular_annular,circular_anti_annular,elliptical,
elliptical_annular}_from and on grid_2d_util.grid_2d_slim_via_mask_from check every internal call as well.

Validated against (tools/mutant.py, seed 0). Suite stays green (699/699) and the quick tier reports VIOLATION:
  * circular radius 2 % too large only when H != W                         -> ctor.circular + contract
  * `+0.5` -> `+0.49` in grid_pixel_centres_2d_slim_from (x, non-square)   -> points.centres / points.indexes
  * `+0.5` -> `+0.500005` in the same conversion (y, non-square)           -> points.* (near-edge points only)
  * origin_x used for y in the scalar pixel_coordinates_2d_from            -> scalar.pixel_of_centre / _of_point / roundtrip
  * central pixel W/2 instead of (W-1)/2 for even W >= 8, non-square       -> grid.*, scalar.*, contract grid_2d_slim_via_mask_from
  * mask centre x converted with the y pixel scale (mask_2d_centres_from)  -> ctor.circular, anti-annular (+ contracts)
  * anti-annular outer radius 1 % too large when centre_y != centre_x      -> ctor.circular_anti_annular + contract
  * ellipse angle negated for angles > 180 deg                             -> ctor.elliptical / elliptical_annular + contracts
  * annular mask measures y with the x pixel scale (anisotropic only)      -> ctor.circular_annular + contract
  * 1-D central pixel floor((L-1)/2) for L > 6                             -> dim1.grid / dim1.uniform
  Suite green, quick misses, thorough catches (documented limit of the quick tier's sample of near-edge points):
  * `+0.5` -> `+0.5000001` (1e-7 pixel bias, non-square only)
  Also caught by quick (but already killed by the repository's own suite): swapped pixel scales / origin_x for y /
  conditional variants of it in central_scaled_coordinate_2d_from, `+0.49` for all shapes, even-centre variants in
  central_pixel_coordinates_2d_from and mask_2d_centres_from, swapped scale in grid_pixels_2d_slim_from, `-0.5000001`
  in grid_scaled_2d_slim_from, flat index with H instead of W, extent built from origin_y / the y shape for x, 1-D
  origin sign, 1-D extent sign, ellipse angle sign, outer ellipse rotated by inner_phi.
"""
import math

import numpy as np

from harness import env, gen, ref
from harness.monitors import contracts

ID = "C02"
NO = 2
RULE = ("geom: a case is one generated geometry (shape, anisotropic pixel scales, origin, mask) with every pixel centre "
        "and (k random + 1 near-edge + 1 near-corner) interior points per pixel pushed through every conversion; ctor: a "
        "case is one parameter set (shape, scales, mask origin, centre, radii / axis ratios / angles) pushed through all "
        "five shape-based constructors; dim1: one 1-D mask. distinct = distinct materialised parameter tuples (+ mask "
        "bits); non-trivial = at least two pixels (geom, dim1) / the five masks are not all fully masked or all fully "
        "unmasked (ctor)")
BOUNDS = {"quick": "2400 geometries with H,W in [1,12] (5 interior points per pixel, >= 1e-8 px from pixel boundaries), 2000 constructor "
                   "parameter sets x 5 constructors with H,W in [1,12], 400 1-D masks of length <= 12, 6 frames of 2^24 .. 8.1e7 pixels (60 query points each)",
          "thorough": "12000 geometries with H,W in [1,40] (6 interior points per pixel, >= 1e-8 px from pixel boundaries), 12000 constructor "
                      "parameter sets x 5 constructors with H,W in [1,40], 3000 1-D masks of length <= 40, 24 frames of 2^24 .. 8.1e7 pixels"}
EXHAUSTIVE = {"quick": False, "thorough": False}
ASSUMPTIONS = ["coordinates are compared with an absolute tolerance of 1e-9 pixel per axis (origin <= 100 pixel scales, so "
               "accumulated rounding stays < 1e-11 pixel)",
               "query points within 1e-9 pixel of a pixel boundary and mask pixels with |r - radius| < 1e-9*max(1,radius) "
               "are don't-care (either answer accepted) and are counted in `skipped`",
               "the continuous pixel coordinate is only required to round-trip with its inverse (both compositions); its "
               "zero point is not part of the statement"]
QUICK_JOBS = 16

BAND = 1e-9
MARGIN = 1e-8        # closest approach of a generated point / radius to a boundary: 10x the tie band; rounding is < 1e-11
_CTORS = ("circular", "circular_annular", "circular_anti_annular", "elliptical", "elliptical_annular")
_CONTRACTS = ["contract:mask_2d_util.mask_2d_%s_from" % c for c in _CTORS] + ["contract:grid_2d_util.grid_2d_slim_via_mask_from"]
MIN_MONITORS = {"*": dict({c: 1 for c in _CONTRACTS},
                          **{"extent": 1, "grid.from_mask": 1, "grid.uniform": 1, "grid.all_false": 1,
                             "scalar.pixel_of_centre": 1, "scalar.scaled_of_pixel": 1, "scalar.centre_roundtrip": 1,
                             "scalar.pixel_of_point": 1, "scalar.centre_of_point": 1,
                             "points.centres": 1, "points.indexes": 1, "points.other_frame": 20,
                             "continuous.scaled_pixels_scaled": 1, "continuous.pixels_scaled_pixels": 1,
                             "ctor.circular": 1, "ctor.circular_annular": 1, "ctor.circular_anti_annular": 1,
                             "ctor.elliptical": 1, "ctor.elliptical_annular": 1, "ctor.origin_independent": 1,
                             "ctor.geometry_kept": 1,
                             "dim1.grid": 1, "dim1.uniform": 1, "dim1.extent": 1})}

_N = {"quick": {"geom": 2400, "ctor": 2000, "dim1": 400}, "thorough": {"geom": 12000, "ctor": 12000, "dim1": 3000}}
_CHUNK = {"quick": {"geom": 20, "ctor": 25, "dim1": 100}, "thorough": {"geom": 25, "ctor": 50, "dim1": 250}}
_KIND_NO = {"geom": 1, "ctor": 2, "dim1": 3}


def plan(tier, seed):
    units = []
    cost = {"geom": 6.0, "ctor": 2.0, "dim1": 0.1}
    for kind in ("geom", "ctor", "dim1"):
        n, ch = _N[tier][kind], _CHUNK[tier][kind]
        for s in range(0, n, ch):
            units.append({"kind": kind, "start": s, "stop": min(n, s + ch), "w": (min(n, s + ch) - s) * cost[kind]})
    units.append({"kind": "huge", "start": 0, "stop": 6 if tier == "quick" else 24, "w": 30})
    if tier == "thorough":
        units.append({"kind": "suite", "w": 200})      # the repository's own tests with the contracts installed
    return units


# ------------------------------------------------------------------------------ reference helpers (no autoarray)
def _np(x):
    return np.asarray(x.array if hasattr(x, "array") and not isinstance(x, np.ndarray) else x)


def _pair(x):
    return (float(x[0]), float(x[1]))


def coords_close(got, exp, scales):
    """|got - exp| <= 1e-9 pixel per axis; last axis = (y, x)."""
    got, exp = np.asarray(got, dtype=float), np.asarray(exp, dtype=float)
    if got.shape != exp.shape:
        return False
    if got.size == 0:
        return True
    tol = BAND * np.array([scales[0], scales[1]])
    return bool(np.all(np.isfinite(got)) and np.all(np.abs(got - exp) <= tol))


def containing_pixel(pts, shape, scales, origin):
    """
    Independent of the repository: the pixel whose square contains each point, from the statement's picture
    (rows counted downward from the top edge o_y + H s_y / 2, columns rightward from the left edge o_x - W s_x / 2).
    Returns (ij (n,2) int, care (n,) bool); care is False inside the 1e-9 pixel band around a pixel boundary.
    """
    H, W = shape
    fy = (origin[0] + H * scales[0] / 2.0 - pts[:, 0]) / scales[0]
    fx = (pts[:, 1] - (origin[1] - W * scales[1] / 2.0)) / scales[1]
    ij = np.stack([np.floor(fy), np.floor(fx)], axis=-1).astype(np.int64)
    dist = np.minimum(np.abs(fy - np.round(fy)), np.abs(fx - np.round(fx)))
    inside = (fy > 0) & (fy < H) & (fx > 0) & (fx < W)
    return ij, (dist >= BAND) & inside


def _tri_le(r, R):
    band = np.abs(r - R) < BAND * max(1.0, abs(R))
    return (r <= R) & ~band, (r <= R) | band          # (certainly true, possibly true)


def _tri_ge(r, R):
    band = np.abs(r - R) < BAND * max(1.0, abs(R))
    return (r >= R) & ~band, (r >= R) | band


def _and(a, b):
    return a[0] & b[0], a[1] & b[1]


def _or(a, b):
    return a[0] | b[0], a[1] | b[1]


def _offsets(shape, scales, centre):
    """(dy, dx) of every pixel centre, measured relative to the mask origin, from the requested centre."""
    c = ref.pixel_centres(shape, scales, (0.0, 0.0))
    return c[:, :, 0] - centre[0], c[:, :, 1] - centre[1]


def r_circ(shape, scales, centre):
    dy, dx = _offsets(shape, scales, centre)
    return np.sqrt(dy * dy + dx * dx)


def r_ell(shape, scales, centre, axis_ratio, angle_deg):
    """Elliptical radius: rotate (dx, dy) by -phi into the ellipse frame, r = sqrt(x'^2 + (y'/q)^2)."""
    dy, dx = _offsets(shape, scales, centre)
    p = math.radians(angle_deg)
    xe = dx * math.cos(p) + dy * math.sin(p)
    ye = -dx * math.sin(p) + dy * math.cos(p)
    return np.sqrt(xe * xe + (ye / axis_ratio) ** 2)


def unmasked_ref(name, shape, scales, centre, p):
    """Three-valued reference: (certainly unmasked, possibly unmasked) per pixel for constructor `name`."""
    if name == "circular":
        return _tri_le(r_circ(shape, scales, centre), p["radius"])
    if name == "circular_annular":
        r = r_circ(shape, scales, centre)
        return _and(_tri_ge(r, p["inner_radius"]), _tri_le(r, p["outer_radius"]))
    if name == "circular_anti_annular":
        r = r_circ(shape, scales, centre)
        return _or(_tri_le(r, p["inner_radius"]), _and(_tri_ge(r, p["outer_radius"]), _tri_le(r, p["outer_radius_2"])))
    if name == "elliptical":
        return _tri_le(r_ell(shape, scales, centre, p["axis_ratio"], p["angle"]), p["major_axis_radius"])
    if name == "elliptical_annular":
        ri = r_ell(shape, scales, centre, p["inner_axis_ratio"], p["inner_phi"])
        ro = r_ell(shape, scales, centre, p["outer_axis_ratio"], p["outer_phi"])
        return _and(_tri_ge(ri, p["inner_major_axis_radius"]), _tri_le(ro, p["outer_major_axis_radius"]))
    raise KeyError(name)


def judge_mask(got, lo, hi):
    """got: boolean mask (True = masked). Returns (ok, n_dont_care, offending pixel list)."""
    got = np.asarray(got).astype(bool)
    if got.shape != lo.shape:
        return False, 0, [["shape", list(got.shape), list(lo.shape)]]
    care = lo == hi
    bad = care & ((~got) != lo)
    return (not bad.any()), int((~care).sum()), np.argwhere(bad)[:6].tolist()


# ------------------------------------------------------------------------------ contracts
def _shape2(s):
    s = tuple(int(v) for v in s)
    return s if len(s) == 2 else None


def _mask_post(name, params_of):
    def post(ctx, a, result, old):
        shape, scales, centre = _shape2(a["shape_native"]), _pair(a["pixel_scales"]), _pair(a["centre"])
        if shape is None:
            return None
        p = {k: float(v) for k, v in params_of(a).items()}
        if not all(math.isfinite(v) for v in p.values()):
            return None
        lo, hi = unmasked_ref(name, shape, scales, centre, p)
        ok, ndc, bad = judge_mask(_np(result), lo, hi)
        if ndc:
            ctx.skipped["contract:%s:tie_band_pixels" % name] += ndc
        return ok, {"constructor": name, "shape": shape, "pixel_scales": scales, "centre": centre, "params": p,
                    "offending_pixels": bad, "got_mask": _np(result), "expected_unmasked": lo}
    return post


def post_grid_via_mask(ctx, a, result, old):
    m = _np(a["mask_2d"])
    if m.ndim != 2:
        return None
    m = m.astype(bool)
    scales, origin = _pair(a["pixel_scales"]), _pair(a["origin"])
    exp = ref.slim_centres(m, scales, origin)
    return (coords_close(_np(result), exp, scales),
            {"mask": m, "pixel_scales": scales, "origin": origin, "expected": exp, "got": _np(result)})


def install_contracts(ctx):
    from autoarray.mask import mask_2d_util
    from autoarray.structures.grids import grid_2d_util
    contracts.attach(ctx, mask_2d_util, "mask_2d_circular_from",
                     _mask_post("circular", lambda a: {"radius": a["radius"]}))
    contracts.attach(ctx, mask_2d_util, "mask_2d_circular_annular_from",
                     _mask_post("circular_annular", lambda a: {"inner_radius": a["inner_radius"], "outer_radius": a["outer_radius"]}))
    contracts.attach(ctx, mask_2d_util, "mask_2d_circular_anti_annular_from",
                     _mask_post("circular_anti_annular", lambda a: {"inner_radius": a["inner_radius"], "outer_radius": a["outer_radius"],
                                                                    "outer_radius_2": a["outer_radius_2_scaled"]}))
    contracts.attach(ctx, mask_2d_util, "mask_2d_elliptical_from",
                     _mask_post("elliptical", lambda a: {"major_axis_radius": a["major_axis_radius"], "axis_ratio": a["axis_ratio"],
                                                         "angle": a["angle"]}))
    contracts.attach(ctx, mask_2d_util, "mask_2d_elliptical_annular_from",
                     _mask_post("elliptical_annular", lambda a: {k: a[k] for k in (
                         "inner_major_axis_radius", "inner_axis_ratio", "inner_phi",
                         "outer_major_axis_radius", "outer_axis_ratio", "outer_phi")}))
    contracts.attach(ctx, grid_2d_util, "grid_2d_slim_via_mask_from", post_grid_via_mask)


def setup(ctx):
    ctx.aa = env.boot("base")
    install_contracts(ctx)


def teardown(ctx):
    contracts.detach_all()


# ------------------------------------------------------------------------------ generators
_NICE = (1.0, 0.5, 2.0, 0.1, 3.0, 0.25)


def _side(rng, smax, parity):
    vals = [v for v in range(1, smax + 1) if v % 2 == parity]
    return int(vals[int(rng.integers(len(vals)))])


def gen_shape(rng, idx, tier):
    smax = 12 if tier == "quick" else 40
    pH, pW = idx % 2, (idx // 2) % 2                 # 1 = odd, 0 = even: all four parity classes in turn
    kind = (idx // 4) % 6
    H, W = _side(rng, smax, pH), _side(rng, smax, pW)
    if kind == 0 and pH == pW:
        W = H                                        # square
    elif kind == 1:                                  # one row / one column (odd parity side only)
        if pH == 1 and (pW == 0 or rng.random() < 0.5):
            H = 1
        elif pW == 1:
            W = 1
    elif kind == 2:                                  # tiny: parity effects are largest
        H, W = _side(rng, 4, pH), _side(rng, 4, pW)
    elif kind == 3 and tier == "thorough":           # the suite-sized shapes in thorough too
        H, W = _side(rng, 12, pH), _side(rng, 12, pW)
    return H, W


def gen_scales_origin(rng):
    u = rng.random()
    if u < 0.15:
        s = (float(_NICE[int(rng.integers(len(_NICE)))]), float(_NICE[int(rng.integers(len(_NICE)))]))
    elif u < 0.28:
        v = float(np.exp(rng.uniform(np.log(0.05), np.log(20))))
        s = (v, v)
    else:
        s = (float(np.exp(rng.uniform(np.log(0.05), np.log(20)))), float(np.exp(rng.uniform(np.log(0.05), np.log(20)))))
    a, b = float(rng.uniform(-100, 100)), float(rng.uniform(-100, 100))
    if rng.random() < 0.3:                           # small origins: a fraction of a pixel up to a few pixels
        a, b = float(rng.uniform(-3, 3)), float(rng.uniform(-3, 3))
    v = rng.random()
    if v < 0.12:
        o, oc = (0.0, 0.0), "origin_zero"
    elif v < 0.20:
        o, oc = (a * s[0], 0.0), "origin_y_only"
    elif v < 0.28:
        o, oc = (0.0, b * s[1]), "origin_x_only"
    elif v < 0.36:
        o, oc = (a * s[0], -a * s[0]), "origin_opposite_components"
    elif v < 0.42:
        o, oc = (a * s[0], a * s[0]), "origin_equal_components"
    else:
        o, oc = (a * s[0], b * s[1]), "origin_unequal_components"
    return s, o, oc


def shape_classes(H, W, s):
    c = ["H_%s,W_%s" % ("odd" if H % 2 else "even", "odd" if W % 2 else "even")]
    c.append("square" if H == W else ("tall" if H > W else "wide"))
    if H == 1 or W == 1:
        c.append("one_row_or_col")
    c.append("isotropic_scales" if s[0] == s[1] else "anisotropic_scales")
    return c


def query_offsets(rng, n, margin, k):
    """Relative offsets (in pixels, inside (-0.5, 0.5)^2) of the query points of every pixel: list of (n,2) batches."""
    out = []
    for _ in range(k):
        out.append(("interior", rng.uniform(-0.5 + margin, 0.5 - margin, size=(n, 2))))
    # near one edge: distance margin .. 1e4*margin from the boundary in one axis, anywhere in the other
    d = 0.5 - margin * 10.0 ** rng.uniform(0.0, 4.0, size=(n, 2))
    e = rng.choice([-1.0, 1.0], size=(n, 2)) * d
    other = rng.uniform(-0.5 + margin, 0.5 - margin, size=n)
    which = rng.random(n) < 0.5
    e[which, 0] = other[which]
    e[~which, 1] = other[~which]
    out.append(("near_edge", e))
    # near a corner: both axes close to the boundary
    d2 = 0.5 - margin * 10.0 ** rng.uniform(0.0, 4.0, size=(n, 2))
    out.append(("near_corner", rng.choice([-1.0, 1.0], size=(n, 2)) * d2))
    return out


# ------------------------------------------------------------------------------ geometry cases
def _first_bad(pts, exp, got, bad, extra=None):
    k = np.flatnonzero(bad)[:5]
    w = [{"point": pts[i].tolist(), "expected": np.asarray(exp)[i].tolist(), "got": np.asarray(got)[i].tolist()} for i in k]
    return w


def geom_case(ctx, idx):
    aa = ctx.aa
    if not ctx.begin("geom:%d" % idx):
        return
    rng = gen.rng_for(ctx.seed, NO, _KIND_NO["geom"], idx)
    H, W = gen_shape(rng, idx, ctx.tier)
    s, o, oc = gen_scales_origin(rng)
    m, fam = gen.random_mask(rng, H, W)
    margin = MARGIN
    k = 3 if ctx.tier == "quick" else 4
    n = H * W
    wit = {"shape": (H, W), "pixel_scales": s, "origin": o}

    mask = aa.Mask2D(mask=m.copy(), pixel_scales=s, origin=o)
    full = aa.Mask2D.all_false(shape_native=(H, W), pixel_scales=s, origin=o)
    geo = mask.geometry
    C = ref.pixel_centres((H, W), s, o)                # (H, W, 2) reference centres
    Cf = C.reshape(-1, 2)

    # ---- extent = union of the pixel squares: [x_min, x_max, y_min, y_max]
    ok, ext = ctx.guarded("extent", lambda: np.array([float(v) for v in geo.extent]))
    if ok:
        e = ref.extent((H, W), s, o)
        tol = BAND * np.array([s[1], s[1], s[0], s[0]])
        ctx.check(ext.shape == (4,) and bool(np.all(np.abs(ext - e) <= tol)), "extent", expected=e, got=ext, **wit)

    # ---- pixel-centre grids
    def grid_check(monitor, build, msk):
        ok, g = ctx.guarded(monitor, build)
        if not ok:
            return
        exp_slim = C[~msk]
        exp_nat = np.where(msk[:, :, None], 0.0, C)
        ctx.check(coords_close(_np(g.slim), exp_slim, s) and coords_close(_np(g.native), exp_nat, s)
                  and tuple(g.mask.shape) == (H, W) and np.array_equal(_np(g.mask).astype(bool), msk),
                  monitor, mask=msk, expected_slim=exp_slim, got_slim=lambda: _np(g.slim), **wit)
        ctx.check(tuple(float(v) for v in g.mask.origin) == o and tuple(float(v) for v in g.mask.pixel_scales) == s,
                  "grid.geometry_kept", how=monitor, got_origin=lambda: list(g.mask.origin), got_scales=lambda: list(g.mask.pixel_scales), **wit)

    nomask = np.zeros((H, W), bool)
    grid_check("grid.from_mask", lambda: aa.Grid2D.from_mask(mask=mask), m)
    grid_check("grid.uniform", lambda: aa.Grid2D.uniform(shape_native=(H, W), pixel_scales=s, origin=o), nomask)
    grid_check("grid.all_false", lambda: mask.derive_grid.all_false, nomask)

    # ---- scalar maps on a sample of pixels (all of them for small shapes)
    if n <= 48:
        sel = np.arange(n)
    else:
        corners = np.array([0, W - 1, (H - 1) * W, n - 1])
        sel = np.unique(np.concatenate([corners, rng.choice(n, size=44, replace=False)]))
    offs = rng.uniform(-0.5 + margin, 0.5 - margin, size=(len(sel), 2))
    for t, q in enumerate(sel):
        i, j = int(q // W), int(q % W)
        c = (float(Cf[q, 0]), float(Cf[q, 1]))
        ok, got = ctx.guarded("scalar.pixel_of_centre", geo.pixel_coordinates_2d_from, scaled_coordinates_2d=c)
        if ok:
            ctx.check(tuple(int(v) for v in got) == (i, j) and all(float(v) == int(v) for v in got), "scalar.pixel_of_centre",
                      centre=c, expected=(i, j), got=got, **wit)
        ok, got = ctx.guarded("scalar.scaled_of_pixel", geo.scaled_coordinates_2d_from, pixel_coordinates_2d=(i, j))
        if ok:
            ctx.check(coords_close(np.array(got, dtype=float), np.array(c), s), "scalar.scaled_of_pixel", pixel=(i, j), expected=c, got=got, **wit)
        # centre -> index -> centre through the repository's own two maps
        ok, got = ctx.guarded("scalar.centre_roundtrip", lambda: geo.scaled_coordinates_2d_from(
            pixel_coordinates_2d=geo.pixel_coordinates_2d_from(scaled_coordinates_2d=c)))
        if ok:
            ctx.check(coords_close(np.array(got, dtype=float), np.array(c), s), "scalar.centre_roundtrip", centre=c, got=got, **wit)
        # an interior point of the same pixel
        p = (c[0] - offs[t, 0] * s[0], c[1] + offs[t, 1] * s[1])
        ij, care = containing_pixel(np.array([p]), (H, W), s, o)
        if not care[0] or tuple(ij[0]) != (i, j):
            ctx.skipped["tie_band_points"] += 1
            continue
        ok, got = ctx.guarded("scalar.pixel_of_point", geo.pixel_coordinates_2d_from, scaled_coordinates_2d=p)
        if ok:
            ctx.check(tuple(int(v) for v in got) == (i, j), "scalar.pixel_of_point", point=p, expected=(i, j), got=got, **wit)
        ok, got = ctx.guarded("scalar.centre_of_point", geo.scaled_coordinate_2d_to_scaled_at_pixel_centre_from, scaled_coordinate_2d=p)
        if ok:
            ctx.check(coords_close(np.array(got, dtype=float), np.array(c), s), "scalar.centre_of_point", point=p, expected=c, got=got, **wit)

    # ---- grid maps: every pixel x (k interior + near-edge + near-corner) points
    batches = query_offsets(rng, n, margin, k)
    if n <= 150 and (idx // 4) % 3 == 0:
        # exactly on pixel boundaries: must be classified don't-care by the reference, exercised on purpose
        on = rng.uniform(-0.5, 0.5, size=(n, 2))
        ax = rng.integers(0, 2, size=n)
        on[np.arange(n), ax] = rng.choice([-0.5, 0.5], size=n)
        batches.append(("on_boundary", on))
    expected_ij = np.stack(np.divmod(np.arange(n), W), axis=-1).astype(np.int64)
    npts = ndc = 0
    for label, off in batches:
        pts = np.stack([Cf[:, 0] - off[:, 0] * s[0], Cf[:, 1] + off[:, 1] * s[1]], axis=-1)
        ij, care = containing_pixel(pts, (H, W), s, o)
        agree = np.all(ij == expected_ij, axis=1)
        if label != "on_boundary":
            ctx.skipped["oracle_vs_construction_disagree"] += int((care & ~agree).sum())
        care = care & agree
        npts += int(care.sum())
        ndc += int((~care).sum())
        ok, G = ctx.guarded("points.build", lambda: aa.Grid2D(values=pts.copy(), mask=full))
        if not ok:
            continue
        ok, got = ctx.guarded("points.centres", lambda: _np(geo.grid_pixel_centres_2d_from(grid_scaled_2d=G).slim))
        if ok:
            good = got.shape == (n, 2) and np.issubdtype(got.dtype, np.integer)
            bad = (care & np.any(got != ij, axis=1)) if good else np.ones(n, bool)
            ctx.check(good and not bad.any(), "points.centres", batch=label, got_shape=list(got.shape), got_dtype=str(got.dtype),
                      offending=lambda: _first_bad(pts, ij, got, bad) if good else None, **wit)
        ok, got = ctx.guarded("points.indexes", lambda: _np(geo.grid_pixel_indexes_2d_from(grid_scaled_2d=G).slim))
        if ok:
            flat = ij[:, 0] * W + ij[:, 1]
            good = got.shape == (n,) and np.issubdtype(got.dtype, np.integer)
            bad = (care & (got != flat)) if good else np.ones(n, bool)
            ctx.check(good and not bad.any(), "points.indexes", batch=label, got_shape=list(got.shape), got_dtype=str(got.dtype),
                      offending=lambda: _first_bad(pts, flat, got, bad) if good else None, **wit)
        # continuous conversion and its inverse: scaled -> pixels -> scaled
        ok, got = ctx.guarded("continuous.scaled_pixels_scaled", lambda: _np(geo.grid_scaled_2d_from(
            grid_pixels_2d=geo.grid_pixels_2d_from(grid_scaled_2d=G)).slim))
        if ok:
            ctx.check(coords_close(got, pts, s), "continuous.scaled_pixels_scaled", batch=label,
                      offending=lambda: _first_bad(pts, pts, got, np.any(np.abs(got - pts) > BAND * np.array(s), axis=1))
                      if got.shape == pts.shape else list(got.shape), **wit)
        # whole-number pixel coordinates handed over in an integer-typed grid (what grid_pixel_centres_2d_from returns):
        # pixels -> scaled -> pixels is still the identity
        if label == "interior":
            ok, got = ctx.guarded("continuous.pixels_scaled_pixels", lambda: (lambda P: (str(_np(P).dtype), _np(geo.grid_pixels_2d_from(
                grid_scaled_2d=geo.grid_scaled_2d_from(grid_pixels_2d=P)).slim)))(geo.grid_pixel_centres_2d_from(grid_scaled_2d=G)))
            if ok:
                dt, back = got
                ctx.classes["pixel_coordinates_dtype:" + dt] += 1
                bad = care & np.any(np.abs(back - ij) > BAND, axis=1) if back.shape == ij.shape else np.ones(n, bool)
                ctx.check(back.shape == ij.shape and not bad.any(), "continuous.pixels_scaled_pixels", batch="integer_typed_pixel_coordinates",
                          dtype=dt, offending=lambda: _first_bad(ij.astype(float), ij, back, bad) if back.shape == ij.shape else list(back.shape), **wit)
        # the same query coordinates carried by a grid that lives on ANOTHER frame (other shape, pixel scales, origin): the
        # conversions belong to this geometry, so the answers are those of this frame
        if label == "interior" and n >= 2:
            K = int(min(n, 12))
            sel = rng.choice(n, size=K, replace=False)
            h2 = 2 if (K % 2 == 0 and K >= 4) else 1
            shp2 = (h2, K // h2)
            if shp2 == (H, W):
                shp2 = (K, 1) if (K, 1) != (H, W) else (1, K)
            ok, G2 = ctx.guarded("points.build", lambda: aa.Grid2D.no_mask(values=pts[sel].reshape(shp2 + (2,)).copy(), pixel_scales=(0.37, 1.9),
                                                                           origin=(5.0, -3.0)))
            if ok:
                flat = ij[:, 0] * W + ij[:, 1]
                ok, got = ctx.guarded("points.other_frame", lambda: (_np(geo.grid_pixel_centres_2d_from(grid_scaled_2d=G2).slim),
                                                                   _np(geo.grid_pixel_indexes_2d_from(grid_scaled_2d=G2).slim),
                                                                   _np(geo.grid_pixels_2d_from(grid_scaled_2d=G2).slim)))
                if ok:
                    gc, gi, gp = got
                    cs = care[sel]
                    okc = gc.shape == (K, 2) and not (cs & np.any(gc != ij[sel], axis=1)).any()
                    oki = gi.shape == (K,) and not (cs & (gi != flat[sel])).any()
                    okp = gp.shape == (K, 2) and not (cs & np.any(np.floor(gp) != ij[sel], axis=1)).any()
                    ctx.check(okc and oki and okp, "points.other_frame", carrier_shape=list(shp2), centres_ok=okc, indexes_ok=oki, pixels_ok=okp,
                              points=pts[sel], expected_indexes=flat[sel], got_indexes=gi, got_centres=gc, **wit)
    ctx.skipped["tie_band_points"] += ndc
    # pixels -> scaled -> pixels on random continuous pixel coordinates spanning the frame
    Q = np.stack([rng.uniform(0.0, H, size=n), rng.uniform(0.0, W, size=n)], axis=-1)
    ok, got = ctx.guarded("continuous.pixels_scaled_pixels", lambda: _np(geo.grid_pixels_2d_from(
        grid_scaled_2d=geo.grid_scaled_2d_from(grid_pixels_2d=aa.Grid2D(values=Q.copy(), mask=full))).slim))
    if ok:
        ctx.check(coords_close(got, Q, (1.0, 1.0)), "continuous.pixels_scaled_pixels",
                  offending=lambda: _first_bad(Q, Q, got, np.any(np.abs(got - Q) > BAND, axis=1)) if got.shape == Q.shape else list(got.shape), **wit)

    ctx.classes["mask_family:" + fam] += 1
    ctx.case("geom", H, W, s, o, m, nontrivial=n >= 2, cls=shape_classes(H, W, s) + [oc],
             sample=lambda: {"kind": "geom", "shape": [H, W], "pixel_scales": s, "origin": o, "origin_class": oc,
                             "unmasked_pixels": int((~m).sum()), "query_points_judged": npts, "tie_band_points": ndc,
                             "centre_of_pixel_0_0": C[0, 0].tolist()})


# ------------------------------------------------------------------------------ constructor cases
def _critical(rng, rmap, margin):
    """A radius margin*max(1,r) on either side of the radial measure r of a random pixel (10x outside the tie band)."""
    r = float(rmap.ravel()[int(rng.integers(rmap.size))])
    if rng.random() < 0.1:
        return r                                     # exact tie: inside the band, must be classified don't-care
    return r + float(rng.choice([-1.0, 1.0])) * margin * float(10.0 ** rng.uniform(0, 3)) * max(1.0, r)


def ctor_case(ctx, idx):
    aa = ctx.aa
    if not ctx.begin("ctor:%d" % idx):
        return
    rng = gen.rng_for(ctx.seed, NO, _KIND_NO["ctor"], idx)
    H, W = gen_shape(rng, idx, ctx.tier)
    s, o, oc = gen_scales_origin(rng)
    margin = MARGIN
    hy, hx = H * s[0] / 2.0, W * s[1] / 2.0
    cc = rng.random()
    if cc < 0.2:
        centre, ccls = (0.0, 0.0), "centre_zero"
    elif cc < 0.7:
        centre, ccls = (float(rng.uniform(-hy, hy)), float(rng.uniform(-hx, hx))), "centre_inside_frame"
    else:
        centre = (float(rng.choice([-1, 1]) * rng.uniform(1.0, 1.6) * hy), float(rng.uniform(-1.6, 1.6) * hx))
        ccls = "centre_outside_frame"
    base = float([min(hy, hx), max(hy, hx), math.sqrt(hy * hx)][int(rng.integers(3))])
    rc = r_circ((H, W), s, centre)

    def rad(lo, hi, rmap, tag):
        if rng.random() < 0.4:
            ctx.classes["critical_radius:" + tag] += 1
            return _critical(rng, rmap, margin)
        return float(rng.uniform(lo, hi) * base)

    q1, q2 = float(rng.uniform(0.15, 1.0)), float(rng.uniform(0.15, 1.0))
    if rng.random() < 0.1:
        q1 = 1.0
    phi1, phi2 = float(rng.uniform(0.0, 360.0)), float(rng.uniform(0.0, 360.0))
    if rng.random() < 0.15:
        phi1 = float(rng.choice([0.0, 90.0, 180.0, 270.0, 45.0]))
    re1 = r_ell((H, W), s, centre, q1, phi1)
    re2 = r_ell((H, W), s, centre, q2, phi2)
    params = {
        "circular": {"radius": rad(0.1, 1.4, rc, "circular")},
        "circular_annular": {"inner_radius": rad(0.05, 0.7, rc, "annular_inner"), "outer_radius": rad(0.6, 1.5, rc, "annular_outer")},
        "circular_anti_annular": {"inner_radius": rad(0.05, 0.5, rc, "anti_inner"), "outer_radius": rad(0.5, 0.9, rc, "anti_outer"),
                                  "outer_radius_2": rad(0.9, 1.6, rc, "anti_outer2")},
        "elliptical": {"major_axis_radius": rad(0.1, 1.6, re1, "elliptical"), "axis_ratio": q1, "angle": phi1},
        "elliptical_annular": {"inner_major_axis_radius": rad(0.05, 0.7, re1, "ell_annular_inner"), "inner_axis_ratio": q1, "inner_phi": phi1,
                               "outer_major_axis_radius": rad(0.6, 1.8, re2, "ell_annular_outer"), "outer_axis_ratio": q2, "outer_phi": phi2},
    }
    n_unmasked = {}
    ndc_total = 0
    for name in _CTORS:
        p = params[name]
        ctor = getattr(aa.Mask2D, name)
        wit = {"constructor": name, "shape": (H, W), "pixel_scales": s, "origin": o, "centre": centre, "params": p}
        ok, got = ctx.guarded("ctor." + name, lambda: ctor(shape_native=(H, W), pixel_scales=s, origin=o, centre=centre, **p))
        if not ok:
            continue
        gm = _np(got).astype(bool)
        lo, hi = unmasked_ref(name, (H, W), s, centre, p)
        good, ndc, bad = judge_mask(gm, lo, hi)
        ndc_total += ndc
        n_unmasked[name] = int((~gm).sum())
        ctx.check(good, "ctor." + name, offending_pixels=bad, got_mask=gm, expected_unmasked=lo, **wit)
        ctx.check(tuple(float(v) for v in got.origin) == o and tuple(float(v) for v in got.pixel_scales) == s,
                  "ctor.geometry_kept", got_origin=lambda: list(got.origin), got_scales=lambda: list(got.pixel_scales), **wit)
        # the mask origin must not change the booleans
        ok, got0 = ctx.guarded("ctor.origin_independent", lambda: ctor(shape_native=(H, W), pixel_scales=s, centre=centre, **p))
        if ok:
            ctx.check(np.array_equal(_np(got0).astype(bool), gm), "ctor.origin_independent", with_origin=gm, without_origin=lambda: _np(got0), **wit)
    ctx.skipped["mask_radius_tie_band_pixels"] += ndc_total
    vals = list(n_unmasked.values())
    nontrivial = any(0 < v < H * W for v in vals)
    ctx.case("ctor", H, W, s, o, centre, sorted((k, tuple(sorted(v.items()))) for k, v in params.items()),
             nontrivial=nontrivial, cls=shape_classes(H, W, s) + [oc, ccls],
             sample=lambda: {"kind": "ctor", "shape": [H, W], "pixel_scales": s, "origin": o, "centre": centre,
                             "params": params, "unmasked_per_constructor": n_unmasked, "tie_band_pixels": ndc_total})


# ------------------------------------------------------------------------------ 1-D cases
def dim1_case(ctx, idx):
    aa = ctx.aa
    if not ctx.begin("dim1:%d" % idx):
        return
    rng = gen.rng_for(ctx.seed, NO, _KIND_NO["dim1"], idx)
    smax = 12 if ctx.tier == "quick" else 40
    L = _side(rng, smax, idx % 2)
    if (idx // 2) % 5 == 0:
        L = _side(rng, 3, idx % 2)
    sc = float(_NICE[int(rng.integers(len(_NICE)))]) if rng.random() < 0.2 else float(np.exp(rng.uniform(np.log(0.05), np.log(20))))
    og = 0.0 if rng.random() < 0.15 else float(rng.uniform(-100, 100) * sc)
    m = rng.random(L) < 0.35
    if m.all():
        m[int(rng.integers(L))] = False
    wit = {"length": L, "pixel_scale": sc, "origin": og, "mask": m}
    centres = og + (np.arange(L) - (L - 1) / 2.0) * sc
    tol = BAND * sc
    mask = aa.Mask1D(mask=m.copy(), pixel_scales=(sc,), origin=(og,))
    ok, g = ctx.guarded("dim1.grid", lambda: aa.Grid1D.from_mask(mask=mask))
    if ok:
        gs, gn = _np(g.slim), _np(g.native)
        exp_s, exp_n = centres[~m], np.where(m, 0.0, centres)
        ctx.check(gs.shape == exp_s.shape and gn.shape == exp_n.shape and bool(np.all(np.abs(gs - exp_s) <= tol))
                  and bool(np.all(np.abs(gn - exp_n) <= tol)), "dim1.grid", expected=exp_s, got=gs, **wit)
    ok, u = ctx.guarded("dim1.uniform", lambda: aa.Grid1D.uniform(shape_native=(L,), pixel_scales=(sc,), origin=(og,)))
    if ok:
        us = _np(u.slim)
        ctx.check(us.shape == centres.shape and bool(np.all(np.abs(us - centres) <= tol)), "dim1.uniform", expected=centres, got=us, **wit)
    ok, ext = ctx.guarded("dim1.extent", lambda: np.array([float(v) for v in mask.geometry.extent]))
    if ok:
        e = np.array([og - L * sc / 2.0, og + L * sc / 2.0])
        ctx.check(ext.shape == (2,) and bool(np.all(np.abs(ext - e) <= tol)), "dim1.extent", expected=e, got=ext, **wit)
    ctx.case("dim1", L, sc, og, m, nontrivial=L >= 2, cls=["dim1", "L_%s" % ("odd" if L % 2 else "even")],
             sample=lambda: {"kind": "dim1", "length": L, "pixel_scale": sc, "origin": og, "mask": m.astype(int).tolist(),
                             "centres": centres.tolist()})


HUGE_SHAPES = ((4097, 4099), (5000, 4000), (9001, 9001), (3, 2 ** 24 + 5), (2 ** 25 + 3, 1), (4096, 4096))


def huge_case(ctx, idx):
    """Frames with more than 2**24 pixels (flattened indexes no longer representable in single precision): coordinates at pixel
    centres and interior points of pixels with large indexes, incl. the last pixel. No mask is allocated (geometry object and
    the util function only); the query points are carried by a small grid."""
    aa = ctx.aa
    if not ctx.begin("huge:%d" % idx):
        return
    rng = gen.rng_for(ctx.seed, NO, 9, idx)
    H, W = HUGE_SHAPES[idx % len(HUGE_SHAPES)]
    s = (float(rng.uniform(0.05, 2.0)), float(rng.uniform(0.05, 2.0)))
    o = (0.0, 0.0) if idx % 2 == 0 else (float(rng.normal()), float(rng.normal()))
    K = 60
    ii = np.concatenate([[H - 1, H - 1, 0], rng.integers(max(0, H - 1 - H // 3), H, size=K - 3)]).astype(np.int64)
    jj = np.concatenate([[W - 1, 0, W - 1], rng.integers(0, W, size=K - 3)]).astype(np.int64)
    off = rng.uniform(-0.3, 0.3, size=(K, 2))
    off[:3] = 0.0
    pts = np.stack([o[0] + ((H - 1) / 2.0 - ii - off[:, 0]) * s[0], o[1] + (jj - (W - 1) / 2.0 + off[:, 1]) * s[1]], axis=-1)
    ij, care = containing_pixel(pts, (H, W), s, o)
    care = care & (ij[:, 0] == ii) & (ij[:, 1] == jj)
    flat = ii * W + jj
    wit = dict(shape=(H, W), scales=s, origin=o)
    from autoarray.geometry import geometry_util
    ok, got = ctx.guarded("points.indexes", lambda: np.asarray(geometry_util.grid_pixel_indexes_2d_slim_from(
        grid_scaled_2d_slim=pts.copy(), shape_native=(H, W), pixel_scales=s, origin=o)))
    if ok:
        bad = care & (got.astype(np.int64) != flat) if got.shape == (K,) else np.ones(K, bool)
        ctx.check(got.shape == (K,) and not bad.any(), "points.indexes", batch="huge_frame(util)", offending=lambda: _first_bad(pts, flat, got, bad), **wit)
    ok, got = ctx.guarded("points.centres", lambda: np.asarray(geometry_util.grid_pixel_centres_2d_slim_from(
        grid_scaled_2d_slim=pts.copy(), shape_native=(H, W), pixel_scales=s, origin=o)))
    if ok:
        bad = care & np.any(got.astype(np.int64) != np.stack([ii, jj], -1), axis=1) if got.shape == (K, 2) else np.ones(K, bool)
        ctx.check(got.shape == (K, 2) and not bad.any(), "points.centres", batch="huge_frame(util)", offending=lambda: _first_bad(pts, np.stack([ii, jj], -1), got, bad), **wit)
    geo = aa.Geometry2D(shape_native=(H, W), pixel_scales=s, origin=o) if hasattr(aa, "Geometry2D") else None
    if geo is None:
        from autoarray.geometry.geometry_2d import Geometry2D
        geo = Geometry2D(shape_native=(H, W), pixel_scales=s, origin=o)
    G = aa.Grid2D.no_mask(values=pts.reshape(6, 10, 2).copy(), pixel_scales=(1.0, 1.0))
    ok, got = ctx.guarded("points.indexes", lambda: _np(geo.grid_pixel_indexes_2d_from(grid_scaled_2d=G).slim))
    if ok:
        bad = care & (got.astype(np.int64) != flat) if got.shape == (K,) else np.ones(K, bool)
        ctx.check(got.shape == (K,) and np.issubdtype(got.dtype, np.integer) and not bad.any(), "points.indexes", batch="huge_frame(geometry)",
                  got_dtype=str(got.dtype), offending=lambda: _first_bad(pts, flat, got, bad), **wit)
    for t in range(3):
        ok, got = ctx.guarded("scalar.pixel_of_point", geo.pixel_coordinates_2d_from, scaled_coordinates_2d=(float(pts[t, 0]), float(pts[t, 1])))
        if ok:
            ctx.check(tuple(int(v) for v in got) == (int(ii[t]), int(jj[t])), "scalar.pixel_of_point", batch="huge_frame", expected=(int(ii[t]), int(jj[t])), got=got, **wit)
    ctx.case("huge", H, W, s, o, nontrivial=True, cls=["frame_over_2^24_pixels" if H * W > 2 ** 24 else "frame_exactly_2^24_pixels"],
             sample=lambda: {"kind": "huge", "shape": [H, W], "pixel_scales": s, "origin": o, "largest_index_queried": int(flat.max())})


def run_unit(ctx, u):
    fn = {"geom": geom_case, "ctor": ctor_case, "dim1": dim1_case, "huge": huge_case}[u["kind"]]
    for idx in range(u["start"], u["stop"]):
        fn(ctx, idx)
