#!/usr/bin/env python3
"""Prints the markdown table 'seeded change -> what the checks reported' from seeded/*/meta.json."""
import glob, json, os
rows = []
for f in sorted(glob.glob("/verif/seeded/*/meta.json")):
    m = json.load(open(f))
    name = os.path.basename(os.path.dirname(f))
    runs = m.get("ran", [])
    caught = [r for r in runs if r.get("caught")]
    if caught:
        r = caught[0]
        res = "caught by %s %s: %s" % (r["check"], r["tier"], ", ".join(r["monitors_fired"][:5]))
    else:
        res = "MISSED by " + ", ".join("%s %s" % (r["check"], r["tier"]) for r in runs)
    rows.append("| %s | %s | %s | %s |" % (name, "yes" if m.get("confirmed") else "NO", "green" if m.get("suite_green") else "red", res))
print("| seeded change | demonstration confirmed | repository suite | result on the current checks |")
print("|---|---|---|---|")
print("\n".join(rows))
