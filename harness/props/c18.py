"""
C18 - border relocation only pulls outliers radially inward to the border.

Workload
  reloc   : seeded cases. Mask 3..9 x 3..9 from hostile families (blobs inside a masked ring, annuli = edge pixels that
            are not border pixels, L / U / comb shapes = non-convex borders, several components, one-pixel bridges,
            masks touching the frame), <= 40 unmasked pixels; anisotropic pixel scales and shifted origin; sub-size map
            uniform 1..4 or per pixel 1..4. The source-plane grid is the over-sampled image grid under a random
            distortion (similarity / general affine incl. reflections / affine + sinusoidal shear / inversion-like
            radial map) plus a translation (off-centre centroid), ~30 % of the points pushed out radially by factors
            1.5..10 (in 30 % of the cases border points may be pushed too = star-shaped / ragged borders), plus special
            points: exact copies of border points (incl. the minimum-radius border point), points on the circle of the
            minimum border radius, the centroid itself, one point ~1e5 away. Entry points per case:
            BorderRelocator.relocated_grid_from, .relocated_mesh_grid_from (random vertices, inside / far outside / on a
            border point), Rectangular.mapper_grids_from and Delaunay.mapper_grids_from with border_relocator=...,
            sub_border_slim / sub_border_grid / border_grid.
  subenum : every mask of every shape with H*W <= 9 (quick) / <= 12 (thorough) x sub-size maps {1,2,3,4, two random per
            pixel maps}: sub-border index oracle and one relocation each (exhaustive over small masks, seeded in the maps).

Oracle (independent re-computation; centroid by math.fsum, radii by hypot, all-pairs distances by broadcasting)
  c = centroid of the border points B = grid[sub_border_slim], r = |p-c|, rmin/rmax = min/max |b-c|,
  eps = 1e-9*max(1, rmax, |c|, |B|inf, r) per point.
  relocate.count_order_shape   output has the input's shape (entry k of the output is judged against entry k of the input)
  relocate.interior_bitwise    r < rmin-eps  => output bit-for-bit equal to the input
  relocate.ray                 a changed point lies on the ray from c through p (perpendicular offset <= eps, not behind c)
  relocate.never_outward       |out-c| <= r+eps
  relocate.nearest_border_radius  r > rmin-eps => |out-c| = min(r, |b*-c|) for a border point b* whose distance to p is
                               within eps of the smallest distance (ties accepted)
  relocate.unmoved_bitwise     every such b* has |b*-c| > r+eps, or p coincides exactly with a border point (its nearest
                               border point is then itself, with exactly its own radius)  => output bit-for-bit equal
  relocate.max_radius          |out-c| <= rmax+eps
  Points within eps of rmin, or whose nearest border radius is within eps of r, are in the tie band of DESIGN 1.8:
  either reading is accepted there and the band is counted. The same judge is the icontract post-condition of
  grid_2d_util.relocated_grid_via_jit_from (sees every internal call) and judges the mesh-vertex variant with the border
  of the *data* grid.
  sub_border.*: len == number of border pixels; entry i is a sub-pixel of border pixel i; its distance (pixel units,
  sub-pixel centres at (a+0.5)/s inside the pixel) from the centre of the bounding box of the unmasked pixels is within
  1e-9 of the largest over the sub-pixels of that pixel (ties accepted); sub_border_grid / border_grid are the
  corresponding coordinates.

Validated against (tools/mutant.py; every break marked caught makes the quick tier print VIOLATION):
  repository suite stays green (699/699), i.e. only this check sees them
    - caught  `move_factor < 1.0` -> `<= 1.0` (border points / points on a border point are rewritten with rounding)
    - caught  `move_factor < 1.0` -> `!= 1.0` (points pushed outward to their nearest border radius)
    - caught  `border_min_radii = np.max(...)` (nothing inside the largest border radius is moved; non-circular borders)
    - caught  centre of the sub-border search = mean of the sub-grid instead of the bounding-box centre (asymmetric masks)
    - caught  Rectangular.mapper_grids_from hands the un-relocated data grid to MapperGrids
    - equivalent, not detectable: `grid_radii > border_min_radii` -> `>=` (a point exactly at the minimum radius has a
      nearest border radius >= its own, so the move factor is >= 1 and the output is identical)
  breaks that the repository suite also notices (1..11 baseline tests fail), caught here as well
    - move factor applied about the origin instead of the centroid
    - nearest border point chosen by radius instead of by distance
    - x term of the nearest-point distance taken from the border's y column
    - centroid y taken from the whole grid instead of the border
    - `<=` / `>` instead of `>=` in furthest_grid_2d_slim_index_from (UnboundLocalError for a pixel at the centre)
    - relocated_grid_from uses border_slim instead of sub_border_slim (sub size > 1 only)
    - Delaunay.mapper_grids_from passes the un-relocated mesh vertices on
"""
import math

import numpy as np

from harness import core, env, gen
from harness.monitors import contracts

ID = "C18"
NO = 18
RULE = ("reloc: one case = (mask, sub-size map, distorted source grid with pushed-out and special points, mesh vertices); "
        "subenum: one case = (mask of the exhaustive small-mask enumeration, sub-size map, simple distorted grid). "
        "distinct = distinct (mask bits, sub-size map, source-grid bytes); non-trivial = the border is non-empty and the "
        "relocation left at least one strictly interior point untouched and moved at least one point (both sides of the "
        "rule exercised); cases with an empty border are out of the statement's domain and counted as skipped")
BOUNDS = {"quick": "1600 seeded reloc cases (masks 3..9 x 3..9, <=40 unmasked pixels, sub sizes 1..4); subenum: all masks with H*W<=9 x 6 sub-size maps",
          "thorough": "40000 seeded reloc cases; subenum: all masks with H*W<=12 x 6 sub-size maps"}
EXHAUSTIVE = {"quick": False, "thorough": False}
ASSUMPTIONS = ["tie band: points within 1e-9*scale of the minimum border radius, of their nearest border point's radius, or with two "
               "border points within 1e-9*scale of the smallest distance accept either reading (counted in skipped_or_dont_care)",
               "a point that the rule does not move (nearest border radius > its own) must come back bit-for-bit",
               "sub-pixel k of a pixel with sub size s is row k//s, column k%s of the pixel (row-major, top-left first), centres at "
               "(a+0.5)/s; the layout is checked against BorderRelocator.sub_grid in every case",
               "the set of border pixels in use (Mask2D.derive_indexes.border_slim) is held against the definition of C10 (edge pixel + clear axis walk; frame pixels without a masked neighbour may or may not count)",
               "sub-size maps have integer dtype (a float-typed map raises TypeError in the un-jitted code and is not exercised)"]
QUICK_JOBS = 16

MIN_MONITORS = {"*": {"contract:grid_2d_util.relocated_grid_via_jit_from": 1,
                      "relocate.count_order_shape": 1, "relocate.interior_bitwise": 1, "relocate.ray": 1,
                      "relocate.never_outward": 1, "relocate.nearest_border_radius": 1, "relocate.unmoved_bitwise": 1,
                      "relocate.max_radius": 1,
                      "mesh.count_order_shape": 1, "mesh.interior_bitwise": 1, "mesh.ray": 1, "mesh.never_outward": 1,
                      "mesh.nearest_border_radius": 1, "mesh.max_radius": 1,
                      "mapper_grids.rectangular_data_grid": 1, "mapper_grids.delaunay_data_grid": 1,
                      "mapper_grids.delaunay_mesh_grid": 1,
                      "sub_border.count": 1, "sub_border.pixels_are_the_border": 20, "sub_border.in_its_border_pixel": 1, "sub_border.farthest_subpixel": 1,
                      "sub_border.grid": 1, "border_grid.coordinates": 1}}

NRELOC = {"quick": 1600, "thorough": 40000}
SUBENUM_CELLS = {"quick": 9, "thorough": 12}
TOL = 1e-9


def plan(tier, seed):
    units = []
    for s in range(0, NRELOC[tier], 25):
        units.append({"kind": "reloc", "start": s, "stop": s + 25, "w": 25 * 25.0})
    for (H, W) in gen.shapes_upto(SUBENUM_CELLS[tier]):
        total = (1 << (H * W)) - 1
        for s in range(0, total, 256):
            e = min(total, s + 256)
            units.append({"kind": "subenum", "H": H, "W": W, "start": s, "stop": e, "w": (e - s) * 6 * (2.3 + 0.6 * H * W)})
    # realistic sizes: thousands of coordinates beyond the smallest border radius in one call (block / chunk boundaries)
    for b in range(1 if tier == "quick" else 8):
        units.append({"kind": "big", "index": b, "w": 4000.0})
    if tier == "thorough":
        units.append({"kind": "suite", "w": 200})      # the repository's own tests with the contracts installed
    return units


def _np(x):
    return np.asarray(x.array if hasattr(x, "array") and not isinstance(x, np.ndarray) else x)


# ------------------------------------------------------------------------------ the relocation rule, judged
def _bits_equal(a, b):
    """Row-wise bit-for-bit equality of two (N, 2) arrays."""
    if a.dtype == np.float64 and b.dtype == np.float64:
        ai = np.ascontiguousarray(a).view(np.uint64)
        bi = np.ascontiguousarray(b).view(np.uint64)
        return (ai == bi).all(axis=1)
    return np.zeros(len(a), bool) if a.dtype != b.dtype else (a == b).all(axis=1)


def judge(grid, border, out, tol=TOL):
    """
    Evaluates the statement on one relocation. Returns (results, info): results = {monitor suffix: (ok, witness)},
    info = counts (interior / moved / band ...). `grid`, `border`, `out` are plain arrays.
    """
    g = np.asarray(grid)
    b = np.asarray(border, dtype=float)
    o = np.asarray(out)
    res = {}
    info = {}
    okshape = (o.shape == g.shape and o.ndim == 2 and o.shape[1] == 2)
    res["count_order_shape"] = (okshape, {"input_shape": list(g.shape), "output_shape": list(o.shape)})
    if not okshape:
        return res, info
    gf = g.astype(float)
    of = o.astype(float)
    c = np.array([math.fsum(b[:, 0]) / len(b), math.fsum(b[:, 1]) / len(b)])
    rb = np.hypot(b[:, 0] - c[0], b[:, 1] - c[1])
    rmin, rmax = float(rb.min()), float(rb.max())
    r = np.hypot(gf[:, 0] - c[0], gf[:, 1] - c[1])
    ro = np.hypot(of[:, 0] - c[0], of[:, 1] - c[1])
    S = max(1.0, rmax, float(np.abs(c).max()), float(np.abs(b).max()))
    eps = tol * np.maximum(S, r)
    same = _bits_equal(o, g)
    interior = r < rmin - eps
    outer = ~interior                      # exterior points and the band around rmin
    band_rmin = np.abs(r - rmin) <= eps

    def wit(i, **extra):
        i = int(i)
        w = {"index": i, "point": gf[i], "output": of[i], "centroid": c, "r_point": float(r[i]), "r_output": float(ro[i]),
             "r_border_min": rmin, "r_border_max": rmax, "eps": float(eps[i]), "n_points": len(gf), "border": b}
        w.update(extra)
        return w

    bad = np.flatnonzero(interior & ~same)
    res["interior_bitwise"] = (bad.size == 0, wit(bad[0]) if bad.size else {})

    bad = np.flatnonzero(ro > r + eps)
    res["never_outward"] = (bad.size == 0, wit(bad[0]) if bad.size else {})

    bad = np.flatnonzero(ro > rmax + eps)
    res["max_radius"] = (bad.size == 0, wit(bad[0]) if bad.size else {})

    # ray: perpendicular offset of the output from the line c->p, and not on the far side of c
    dg = gf - c
    do = of - c
    cross = np.abs(dg[:, 0] * do[:, 1] - dg[:, 1] * do[:, 0])
    dot = dg[:, 0] * do[:, 0] + dg[:, 1] * do[:, 1]
    changed = ~same
    offray = changed & ((cross > eps * np.maximum(r, eps)) | (dot < -eps * np.maximum(r, eps)))
    bad = np.flatnonzero(offray)
    res["ray"] = (bad.size == 0, wit(bad[0], perpendicular_offset=float(cross[bad[0]] / max(r[bad[0]], 1e-300))) if bad.size else {})

    # nearest border point (ties within eps accepted) -> target radius min(r, r_b*)
    idx = np.flatnonzero(outer)
    n_band = int(band_rmin.sum())
    n_tie = 0
    n_must_move = 0
    if idx.size:
        D = np.hypot(gf[idx, 0][:, None] - b[None, :, 0], gf[idx, 1][:, None] - b[None, :, 1])
        dmin = D.min(axis=1)
        cand = D <= (dmin + eps[idx])[:, None]
        n_tie = int((cand.sum(axis=1) > 1).sum())
        target = np.minimum(rb[None, :], r[idx][:, None])
        hit = cand & (np.abs(ro[idx][:, None] - target) <= eps[idx][:, None])
        okr = hit.any(axis=1)
        bad = np.flatnonzero(~okr)
        if bad.size:
            k = bad[0]
            res["nearest_border_radius"] = (False, wit(idx[k], nearest_border_points=b[cand[k]], nearest_border_radii=rb[cand[k]],
                                                       expected_radius=target[k][cand[k]]))
        else:
            res["nearest_border_radius"] = (True, {})
        # every nearest candidate is farther out than the point itself -> the point must not move at all
        rc_min = np.where(cand, rb[None, :], np.inf).min(axis=1)
        rc_max = np.where(cand, rb[None, :], -np.inf).max(axis=1)
        # ... and so must a point that coincides exactly with a border point (distance exactly 0: that border point is
        # its nearest one and has exactly its radius, which is not smaller than its own)
        stay = ((rc_min > r[idx] + eps[idx]) & ~band_rmin[idx]) | (dmin == 0.0)
        bad = np.flatnonzero(stay & ~same[idx])
        res["unmoved_bitwise"] = (bad.size == 0, wit(idx[bad[0]], nearest_border_radii=rb[cand[bad[0]]]) if bad.size else {})
        n_must_move = int((rc_max < r[idx] - eps[idx]).sum())
        info["band_nearest_radius"] = int(((np.abs(rc_min - r[idx]) <= eps[idx]) | (np.abs(rc_max - r[idx]) <= eps[idx])).sum())
    info.update({"interior": int(interior.sum()), "outer": int(idx.size), "band_rmin": n_band, "nearest_ties": n_tie,
                 "must_move": n_must_move, "changed": int(changed.sum()), "n": int(len(gf)), "border_points": int(len(b)),
                 "centroid_offset": float(np.hypot(c[0], c[1])), "rmin_over_rmax": rmin / rmax if rmax > 0 else 1.0})
    return res, info


def apply_judgement(ctx, prefix, grid, border, out, **inputs):
    res, info = judge(grid, border, out)
    for name, (ok, w) in res.items():
        if ok:
            ctx.check(True, prefix + "." + name)
        else:
            ctx.check(False, prefix + "." + name, **dict(w, **inputs))
    if info.get("band_rmin"):
        ctx.skipped["tie_band:points_at_min_border_radius"] += info["band_rmin"]
    if info.get("nearest_ties"):
        ctx.skipped["tie_band:equidistant_border_points"] += info["nearest_ties"]
    if info.get("band_nearest_radius"):
        ctx.skipped["tie_band:nearest_border_radius_equals_own"] += info["band_nearest_radius"]
    return info


def post_relocated(ctx, a, result, old):
    g, b = np.asarray(a["grid"]), np.asarray(a["border_grid"])
    if g.ndim != 2 or g.shape[1] != 2 or b.ndim != 2 or b.shape[1] != 2 or len(b) == 0:
        return None
    if g.dtype.kind not in "fiu" or b.dtype.kind not in "fiu" or not (np.isfinite(g).all() and np.isfinite(b).all()):
        return None
    # integer-typed coordinates are coordinates too; "bit-for-bit unchanged" is judged on their float64 values
    res, info = judge(g.astype(float), b.astype(float), np.asarray(result, dtype=float))
    for name, (ok, w) in res.items():
        if not ok:
            return False, dict(w, failed=name, grid=g)
    return True


def install_contracts(ctx):
    from autoarray.structures.grids import grid_2d_util
    contracts.attach(ctx, grid_2d_util, "relocated_grid_via_jit_from", post_relocated)


def setup(ctx):
    ctx.aa = env.boot("base")
    install_contracts(ctx)


def teardown(ctx):
    contracts.detach_all()


# ------------------------------------------------------------------------------ sub-grid layout and sub-border oracle
def sub_layout(m, ssz):
    """(start offset of each slim pixel in the over-sampled slim grid, (N_sub, 2) positions in pixel-index units)."""
    nfs = np.argwhere(~m)
    starts = np.concatenate([[0], np.cumsum(ssz.astype(np.int64) ** 2)])
    pos = np.zeros((int(starts[-1]), 2))
    for p, ((i, j), s) in enumerate(zip(nfs, ssz)):
        s = int(s)
        a = (np.arange(s) + 0.5) / s - 0.5
        blk = np.stack(np.meshgrid(i + a, j + a, indexing="ij"), axis=-1).reshape(-1, 2)
        pos[starts[p]:starts[p + 1]] = blk
    return starts, pos


def to_scaled(pos, shape, scales, origin):
    H, W = shape
    return np.stack([origin[0] + ((H - 1) / 2.0 - pos[:, 0]) * scales[0], origin[1] + (pos[:, 1] - (W - 1) / 2.0) * scales[1]], axis=-1)


def check_sub_border(ctx, m, mask, br, ssz, starts, pos, image_grid, geometry):
    """Returns (sub_border_slim as int array or None)."""
    ok, v = ctx.guarded("sub_border.no_exception", lambda: (br.sub_border_slim, br.sub_grid, br.sub_border_grid, br.border_grid,
                                                             mask.derive_indexes.border_slim))
    if not ok:
        return None
    sbs, sg, sbg, bg, bs = np.asarray(v[0]), _np(v[1]), _np(v[2]), _np(v[3]), np.asarray(v[4])
    lay = sg.shape == image_grid.shape and ctx.close(sg, image_grid, 1e-9)
    ctx.check(lay, "assumption.sub_grid_layout", mask=m, sub_sizes=ssz, expected=image_grid, got=sg)
    # "for each border pixel of the mask": the pixels the relocator works with are the border pixels by the definition (edge
    # pixels with a clear axis walk to the array boundary; C10 decides the rule in full, here the set in use is held against it)
    from harness.props.c10 import ref_edge_sets, ref_walk
    must_e, mustnot_e = ref_edge_sets(m)
    walk = ref_walk(m)
    slim_of = -np.ones(m.shape, dtype=int)
    slim_of[~m] = np.arange(int((~m).sum()))
    must_b = set(slim_of[must_e & walk].tolist())
    never_b = set(slim_of[(~m) & (mustnot_e | ~walk)].tolist())
    bs_set = set(int(b) for b in np.asarray(bs).ravel())
    ctx.check(must_b <= bs_set and not (bs_set & never_b), "sub_border.pixels_are_the_border", mask=m, missing=sorted(must_b - bs_set),
              not_border=sorted(bs_set & never_b), border_slim=bs)
    # ... and against the edge set the mask itself publishes: the border pixels are exactly its edge pixels with a clear axis walk
    # (this pins the frame pixels the definition leaves open to whatever the mask's own edge set says)
    oke, es = ctx.guarded("sub_border.no_exception", lambda: np.asarray(mask.derive_indexes.edge_slim))
    if oke:
        walk_slim = set(slim_of[(~m) & walk].tolist())
        exp_b = set(int(e) for e in es.ravel()) & walk_slim
        ctx.check(bs_set == exp_b, "sub_border.pixels_are_the_border", mask=m, how="published edge pixels with a clear axis walk",
                  extra=sorted(bs_set - exp_b), missing=sorted(exp_b - bs_set), border_slim=bs)
    okc = (sbs.ndim == 1 and len(sbs) == len(bs) and np.issubdtype(sbs.dtype, np.integer))
    ctx.check(okc, "sub_border.count", mask=m, sub_sizes=ssz, border_slim=bs, got=sbs)
    if not okc or not lay:
        return None
    nfs = np.argwhere(~m)
    ctr = ((nfs[:, 0].min() + nfs[:, 0].max()) / 2.0, (nfs[:, 1].min() + nfs[:, 1].max()) / 2.0)
    inpix = True
    far = True
    wbad = None
    nties = 0
    for bi, bp in enumerate(bs):
        lo, hi = int(starts[bp]), int(starts[bp + 1])
        k = int(sbs[bi])
        if not (lo <= k < hi):
            inpix = False
            wbad = {"border_pixel_slim": int(bp), "border_pixel_native": nfs[bp], "sub_range": [lo, hi], "got_sub_index": k}
            break
        d2 = (pos[lo:hi, 0] - ctr[0]) ** 2 + (pos[lo:hi, 1] - ctr[1]) ** 2
        nties += int((d2 >= d2.max() - 1e-9).sum() > 1)
        if d2[k - lo] < d2.max() - 1e-9:
            far = False
            wbad = {"border_pixel_slim": int(bp), "border_pixel_native": nfs[bp], "sub_size": int(ssz[bp]), "bbox_centre": ctr,
                    "got_sub_index_in_pixel": k - lo, "got_distance2": float(d2[k - lo]), "max_distance2": float(d2.max()),
                    "farthest_in_pixel": int(np.argmax(d2))}
            break
    ctx.check(inpix, "sub_border.in_its_border_pixel", mask=m, sub_sizes=ssz, border_slim=bs, got=sbs, **(wbad if not inpix else {}))
    if inpix:
        ctx.check(far, "sub_border.farthest_subpixel", mask=m, sub_sizes=ssz, border_slim=bs, got=sbs, **(wbad if not far else {}))
    if nties:
        ctx.skipped["sub_border_ties_accepted"] += nties
    if inpix:
        exp = image_grid[sbs]
        ctx.check(sbg.shape == exp.shape and ctx.close(sbg, exp, 1e-9), "sub_border.grid", mask=m, sub_sizes=ssz, expected=exp, got=sbg)
    centres = to_scaled(nfs.astype(float), m.shape, geometry[0], geometry[1])[bs]
    ctx.check(bg.shape == centres.shape and ctx.close(bg, centres, 1e-9), "border_grid.coordinates", mask=m, expected=centres, got=bg)
    return sbs if inpix else None


# ------------------------------------------------------------------------------ generators
MASK_FAMILIES = ("blob_ring", "annulus", "L", "U", "comb", "components", "bridge", "frame_touch", "bernoulli_ring", "gen")


def reloc_mask(rng):
    H, W = int(rng.integers(3, 10)), int(rng.integers(3, 10))
    fam = MASK_FAMILIES[int(rng.integers(len(MASK_FAMILIES)))]
    m = np.ones((H, W), bool)
    yy, xx = np.indices((H, W))
    if fam == "blob_ring":
        cy, cx = rng.uniform(1, H - 2), rng.uniform(1, W - 2)
        r = np.hypot((yy - cy) * rng.uniform(0.6, 1.6), (xx - cx))
        m = r > rng.uniform(1.0, max(H, W) / 2.0)
        m[0, :] = m[-1, :] = True
        m[:, 0] = m[:, -1] = True
    elif fam == "annulus":
        cy, cx = (H - 1) / 2.0 + rng.uniform(-0.5, 0.5), (W - 1) / 2.0 + rng.uniform(-0.5, 0.5)
        r = np.hypot(yy - cy, xx - cx)
        r1 = rng.uniform(0.4, 1.6)
        m = ~((r >= r1) & (r <= r1 + rng.uniform(1.0, 2.5)))
    elif fam in ("L", "U", "comb"):
        y0, x0 = int(rng.integers(0, 2)), int(rng.integers(0, 2))
        y1, x1 = H - int(rng.integers(0, 2)), W - int(rng.integers(0, 2))
        m[y0:y1, x0:x1] = False
        if fam == "L":
            m[y0:y0 + max(1, (y1 - y0) // 2), x0 + max(1, (x1 - x0) // 2):x1] = True
        elif fam == "U":
            m[y0:y1 - 1, x0 + 1:x1 - 1] = True
        else:
            m[y0:y1 - 1, x0 + 1:x1:2] = True
        if rng.random() < 0.5:
            m = m[::-1, :] if rng.random() < 0.5 else m.T.copy() if H == W else m[:, ::-1]
    elif fam == "components":
        for _ in range(int(rng.integers(2, 4))):
            a, b2 = int(rng.integers(H)), int(rng.integers(W))
            m[a:min(H, a + int(rng.integers(1, 4))), b2:min(W, b2 + int(rng.integers(1, 4)))] = False
    elif fam == "bridge":
        m[int(rng.integers(H)), :] = False
        m[:, int(rng.integers(W))] = False
        a, b2 = int(rng.integers(H)), int(rng.integers(W))
        m[a:min(H, a + 2), b2:min(W, b2 + 3)] = False
    elif fam == "frame_touch":
        m = rng.random((H, W)) < 0.55
        side = int(rng.integers(4))
        if side == 0:
            m[0, rng.integers(W)] = False
        elif side == 1:
            m[-1, rng.integers(W)] = False
        elif side == 2:
            m[rng.integers(H), 0] = False
        else:
            m[rng.integers(H), -1] = False
    elif fam == "bernoulli_ring":
        m = rng.random((H, W)) < rng.uniform(0.3, 0.7)
        m[0, :] = m[-1, :] = True
        m[:, 0] = m[:, -1] = True
    else:
        m, sub = gen.random_mask(rng, H, W)
        fam = "gen_" + sub
    m = np.ascontiguousarray(m)
    if m.all():
        m[int(rng.integers(H)), int(rng.integers(W))] = False
    while (~m).sum() > 40:
        u = np.argwhere(~m)
        y, x = u[int(rng.integers(len(u)))]
        m[y, x] = True
    return m, fam


DISTORTIONS = ("similarity", "affine", "affine_reflect", "sinusoidal", "inversion")


def distort(rng, g):
    kind = DISTORTIONS[int(rng.integers(len(DISTORTIONS)))]
    ctr = g.mean(axis=0)
    d = g - ctr
    if kind == "similarity":
        th, s = rng.uniform(0, 2 * np.pi), rng.uniform(0.4, 2.5)
        A = s * np.array([[np.cos(th), -np.sin(th)], [np.sin(th), np.cos(th)]])
        out = d @ A.T
    elif kind in ("affine", "affine_reflect"):
        A = np.eye(2) * rng.uniform(0.5, 2.0) + rng.normal(scale=0.5, size=(2, 2))
        if abs(np.linalg.det(A)) < 0.15:
            A = A + np.eye(2)
        if kind == "affine_reflect":
            A = A @ np.array([[1.0, 0.0], [0.0, -1.0]])
        out = d @ A.T
    elif kind == "sinusoidal":
        A = np.eye(2) * rng.uniform(0.6, 1.6) + rng.normal(scale=0.2, size=(2, 2))
        out = d @ A.T + rng.uniform(0.05, 0.4) * np.sin(rng.uniform(1, 4) * d[:, ::-1] + rng.uniform(0, 6))
    else:
        rr = np.hypot(d[:, 0], d[:, 1])[:, None]
        out = d * (1.0 - rng.uniform(0.2, 0.9) / (1.0 + rr ** 2))  # demagnified centre, like a lens core
    t = rng.normal(scale=rng.choice([0.0, 0.3, 3.0]), size=2)
    return out + ctr + t, kind


def source_grid(rng, image_grid, sbs):
    """Distorted grid with pushed-out points and the special points of the statement. Border indexes sbs are never specials."""
    n = len(image_grid)
    src, kind = distort(rng, image_grid)
    cls = ["distortion:" + kind]
    isb = np.zeros(n, bool)
    isb[sbs] = True
    push_border = rng.random() < 0.3
    sel = rng.random(n) < 0.3
    if not push_border:
        sel &= ~isb
    else:
        cls.append("border_points_pushed")
    pivot = src[sbs].mean(axis=0) if rng.random() < 0.6 else src.mean(axis=0)
    f = rng.uniform(1.5, 10.0, size=int(sel.sum()))
    src[sel] = pivot + (src[sel] - pivot) * f[:, None]
    free = np.flatnonzero(~isb)
    rng.shuffle(free)
    b = src[sbs]
    c = b.mean(axis=0)
    rb = np.hypot(b[:, 0] - c[0], b[:, 1] - c[1])
    jmin = int(np.argmin(rb))
    specials = []
    if len(free) >= 8:
        k = 0
        src[free[k]] = b[jmin]; specials.append("copy_of_min_radius_border_point"); k += 1
        src[free[k]] = b[int(rng.integers(len(b)))]; specials.append("copy_of_border_point"); k += 1
        th = rng.uniform(0, 2 * np.pi)
        src[free[k]] = c + rb[jmin] * np.array([np.sin(th), np.cos(th)]); specials.append("on_min_radius_circle"); k += 1
        src[free[k]] = c + (b[jmin] - c) * (1.0 - 2.0 ** -40); specials.append("just_inside_min_radius"); k += 1
        src[free[k]] = c; specials.append("at_centroid"); k += 1
        th = rng.uniform(0, 2 * np.pi)
        src[free[k]] = c + 1e5 * np.array([np.sin(th), np.cos(th)]); specials.append("very_far"); k += 1
        j = int(rng.integers(len(b)))
        src[free[k]] = c + (b[j] - c) * rng.uniform(1.05, 3.0); specials.append("beyond_a_border_point_on_its_ray"); k += 1
        cls.append("special_points")
    return src, cls


def mesh_vertices(rng, src, sbs):
    b = src[sbs]
    c = b.mean(axis=0)
    rmax = float(np.hypot(b[:, 0] - c[0], b[:, 1] - c[1]).max())
    k = int(rng.integers(6, 13))
    v = c + rng.normal(size=(k, 2)) * max(rmax, 1e-3) * rng.choice([0.4, 1.0, 3.0], size=(k, 1))
    v[0] = b[int(rng.integers(len(b)))]                      # exactly on a border point
    v[1] = c + (v[1] - c) * 25.0                             # far outside
    return v


def sub_map(rng, n, choice=None):
    choice = int(rng.integers(0, 8)) if choice is None else choice
    if choice < 4:
        return np.full(n, choice + 1, dtype=np.int64), "uniform_%d" % (choice + 1)
    return rng.integers(1, 5, size=n).astype(np.int64), "per_pixel"


def zlib_crc(key):
    import zlib
    return zlib.crc32(str(key).encode())


# ------------------------------------------------------------------------------ cases
def run_case(ctx, key, m, rng, fam, ssz, subname, full=True):
    if not ctx.begin(key):
        return
    aa = ctx.aa
    n = int((~m).sum())
    geometry = gen.mild_scales_origin(rng)
    far = full and (zlib_crc(key) % 6 == 0)
    if far:
        # small pixels very far from the coordinate origin: coordinates ~1e6, neighbouring border points 0.01 .. 0.05 apart
        geometry = ((float(rng.uniform(0.01, 0.05)), float(rng.uniform(0.01, 0.05))),
                    (float(rng.choice([-1, 1]) * rng.uniform(1e6, 2e6)), float(rng.choice([-1, 1]) * rng.uniform(1e6, 2e6))))
    mask = aa.Mask2D(mask=m.copy(), pixel_scales=geometry[0], origin=geometry[1])
    uniform = subname.startswith("uniform")
    sub_dt = np.int64
    if not uniform and zlib_crc(key) % 3 == 1:
        sub_dt = [np.int8, np.uint8, np.int16, np.int32][zlib_crc(key) % 4]       # the map held in a compact integer type
        subname = subname + ":" + np.dtype(sub_dt).name
    sub = int(ssz[0]) if (uniform and rng.random() < 0.5) else aa.Array2D(values=ssz.astype(sub_dt), mask=mask)
    starts, pos = sub_layout(m, ssz)
    image_grid = to_scaled(pos, m.shape, geometry[0], geometry[1])
    br = aa.BorderRelocator(mask=mask, sub_size=sub)
    cls = ["mask:" + fam, "sub:" + subname, "sub_passed_as_int" if isinstance(sub, int) else "sub_passed_as_array"] + (["far_origin_small_pixels"] if far else [])
    ring = np.ones(m.shape, bool)
    ring[1:-1, 1:-1] = False
    if (~m & ring).any():
        cls.append("unmasked_on_outer_ring")
    sbs = check_sub_border(ctx, m, mask, br, ssz, starts, pos, image_grid, geometry)
    if sbs is None:
        ctx.case(key, nontrivial=False, cls=cls + ["sub_border_unusable"])
        return
    if len(sbs) == 0:
        # outside the statement's domain (no border): the relocator hands the grid back
        ctx.skipped["empty_border_out_of_domain"] += 1
        src = image_grid * 1.5
        ok, out = ctx.guarded("relocate.no_exception", lambda: br.relocated_grid_from(grid=aa.Grid2DIrregular(values=src.copy())))
        if ok:
            ctx.check(np.array_equal(_np(out), src), "empty_border.grid_returned_unchanged", mask=m)
        ctx.case(key, nontrivial=False, cls=cls + ["empty_border"])
        return
    if len(sbs) < n:
        cls.append("has_non_border_pixels")
    if full:
        src, c2 = source_grid(rng, image_grid, sbs)
        cls += c2
    else:
        src, kind = distort(rng, image_grid)
        sel = rng.random(len(src)) < 0.3
        pivot = src[sbs].mean(axis=0)
        src[sel] = pivot + (src[sel] - pivot) * rng.uniform(1.5, 10.0, size=(int(sel.sum()), 1))
        cls.append("distortion:" + kind)
    border = src[sbs].copy()
    grid_obj = aa.Grid2DIrregular(values=src.copy())
    ok, out = ctx.guarded("relocate.no_exception", lambda: br.relocated_grid_from(grid=grid_obj))
    info = {}
    if ok:
        info = apply_judgement(ctx, "relocate", src, border, _np(out), mask=m, sub_sizes=ssz, entry="BorderRelocator.relocated_grid_from")
        if info.get("centroid_offset", 0) > 1.0:
            cls.append("centroid_far_from_origin")
        if info.get("rmin_over_rmax", 1) < 0.6:
            cls.append("border_far_from_circular")
    if full:
        verts = mesh_vertices(rng, src, sbs)
        ok2, outm = ctx.guarded("mesh.no_exception", lambda: br.relocated_mesh_grid_from(grid=grid_obj, mesh_grid=aa.Grid2DIrregular(values=verts.copy())))
        if ok2:
            apply_judgement(ctx, "mesh", verts, border, _np(outm), mask=m, sub_sizes=ssz, entry="BorderRelocator.relocated_mesh_grid_from")
        # history on ONE relocator object (datasets hold it as a cached property): after relocating data grid A, the mesh
        # vertices of ANOTHER source-plane configuration B must be judged against B's border, not a remembered one
        srcB, _ = distort(rng, image_grid)
        srcB = srcB * float(rng.uniform(0.4, 2.5)) + rng.normal(size=2) * 0.5
        selB = rng.random(len(srcB)) < 0.3
        pivB = srcB[sbs].mean(axis=0)
        srcB[selB] = pivB + (srcB[selB] - pivB) * rng.uniform(1.5, 8.0, size=(int(selB.sum()), 1))
        vertsB = mesh_vertices(rng, srcB, sbs)
        okB, outB = ctx.guarded("mesh.no_exception", lambda: br.relocated_mesh_grid_from(grid=aa.Grid2DIrregular(values=srcB.copy()),
                                                                                         mesh_grid=aa.Grid2DIrregular(values=vertsB.copy())))
        if okB:
            apply_judgement(ctx, "mesh", vertsB, srcB[sbs].copy(), _np(outB), mask=m, sub_sizes=ssz,
                            entry="BorderRelocator.relocated_mesh_grid_from(second configuration on the same relocator)")
            ctx.monitors["history.second_configuration_same_relocator"] += 1
        # integer-typed coordinates (np.mgrid lattices, literal int tuples) are coordinates too: the rule must hold for them
        # (lattice around the border only: the source grid may contain a point 1e5 away)
        lo_, hi_ = np.floor(border.min(0)).astype(int) - 4, np.ceil(border.max(0)).astype(int) + 4
        hi_ = np.minimum(hi_, lo_ + 14)
        yy, xx = np.mgrid[lo_[0]:hi_[0] + 1:2, lo_[1]:hi_[1] + 1:2]
        ivert = np.stack([yy.ravel(), xx.ravel()], axis=1)[:64]
        if ivert.dtype.kind == "i" and len(ivert):
            okI, outI = ctx.guarded("mesh.no_exception", lambda: br.relocated_mesh_grid_from(grid=grid_obj, mesh_grid=aa.Grid2DIrregular(values=ivert.copy())))
            if okI:
                apply_judgement(ctx, "mesh", ivert.astype(float), border, np.asarray(_np(outI), float), mask=m, sub_sizes=ssz,
                                entry="BorderRelocator.relocated_mesh_grid_from(integer-typed vertices)")
                ctx.monitors["input.integer_typed_coordinates"] += 1
        if ok:
            which = int(rng.integers(2))
            if which == 0:
                mesh = aa.mesh.Rectangular(shape=(int(rng.integers(3, 5)), int(rng.integers(3, 5))))
                ok3, mg = ctx.guarded("mapper_grids.no_exception", lambda: mesh.mapper_grids_from(
                    mask=mask, source_plane_data_grid=aa.Grid2DIrregular(values=src.copy()), border_relocator=br))
                if ok3:
                    got = _np(mg.source_plane_data_grid)
                    ctx.check(got.shape == _np(out).shape and bool(_bits_equal(got, _np(out)).all()), "mapper_grids.rectangular_data_grid",
                              mask=m, sub_sizes=ssz, expected=_np(out), got=got)
                cls.append("mapper_grids:rectangular")
            else:
                mesh = aa.mesh.Delaunay()
                ok3, mg = ctx.guarded("mapper_grids.no_exception", lambda: mesh.mapper_grids_from(
                    mask=mask, source_plane_data_grid=aa.Grid2DIrregular(values=src.copy()), border_relocator=br,
                    source_plane_mesh_grid=aa.Grid2DIrregular(values=verts.copy())))
                if ok3:
                    got = _np(mg.source_plane_data_grid)
                    ctx.check(got.shape == _np(out).shape and bool(_bits_equal(got, _np(out)).all()), "mapper_grids.delaunay_data_grid",
                              mask=m, sub_sizes=ssz, expected=_np(out), got=got)
                    gm = _np(mg.source_plane_mesh_grid)
                    res, _ = judge(verts, border, gm)
                    okm = all(v[0] for v in res.values())
                    firstbad = next((dict(v[1], failed=k) for k, v in res.items() if not v[0]), {})
                    ctx.check(okm, "mapper_grids.delaunay_mesh_grid", mask=m, sub_sizes=ssz, vertices=verts, **firstbad)
                    # a later fit with the same mass model: the relocated data grid is handed over through Preloads, the mesh
                    # vertices are new - they are still relocated by the same rule against the data grid's border
                    vertsC = mesh_vertices(rng, src, sbs)
                    ok4, mg2 = ctx.guarded("mapper_grids.no_exception", lambda: mesh.mapper_grids_from(
                        mask=mask, source_plane_data_grid=aa.Grid2DIrregular(values=src.copy()), border_relocator=br,
                        source_plane_mesh_grid=aa.Grid2DIrregular(values=vertsC.copy()),
                        preloads=aa.Preloads(relocated_grid=mg.source_plane_data_grid)))
                    if ok4:
                        got2 = _np(mg2.source_plane_data_grid)
                        gm2 = _np(mg2.source_plane_mesh_grid)
                        res2, _ = judge(vertsC, border, gm2)
                        firstbad2 = next((dict(v[1], failed=k) for k, v in res2.items() if not v[0]), {})
                        ctx.check(got2.shape == got.shape and bool(_bits_equal(got2, got).all()) and all(v[0] for v in res2.values()),
                                  "mapper_grids.with_preloaded_relocated_grid", mask=m, sub_sizes=ssz, vertices=vertsC, **firstbad2)
                cls.append("mapper_grids:delaunay")
    nontrivial = bool(info.get("interior", 0) > 0 and info.get("changed", 0) > 0)
    if info.get("interior", 0) > 0:
        cls.append("has_interior_points")
    if info.get("changed", 0) > 0:
        cls.append("has_moved_points")
    ctx.case(m, ssz, src, nontrivial=nontrivial, cls=cls,
             sample=lambda: {"mask": m.astype(int).tolist(), "scales": geometry[0], "origin": geometry[1], "sub_sizes": ssz.tolist(),
                             "sub_border_slim": sbs.tolist(), "points": info.get("n"), "border_points": info.get("border_points"),
                             "strictly_interior": info.get("interior"), "moved": info.get("changed"), "tie_band_points": info.get("band_rmin"),
                             "equidistant_border_ties": info.get("nearest_ties"), "classes": cls})


def run_unit(ctx, u):
    if u["kind"] == "reloc":
        for i in range(u["start"], u["stop"]):
            rng = gen.rng_for(ctx.seed, NO, 1, i)
            m, fam = reloc_mask(rng)
            ssz, subname = sub_map(rng, int((~m).sum()))
            run_case(ctx, "reloc:%d" % i, m, rng, fam, ssz, subname, full=True)
    elif u["kind"] == "big":
        rng = gen.rng_for(ctx.seed, NO, 3, u["index"])
        H, W = int(rng.integers(24, 33)), int(rng.integers(26, 37))
        yy, xx = np.indices((H, W))
        cy, cx = (H - 1) / 2.0 + rng.uniform(-1, 1), (W - 1) / 2.0 + rng.uniform(-1, 1)
        m = np.hypot((yy - cy) / (0.42 * H), (xx - cx) / (0.42 * W)) > 1.0
        ssz = np.full(int((~m).sum()), int(rng.integers(3, 5)), dtype=np.int64)
        run_case(ctx, "big:%d" % u["index"], m, rng, "large_ellipse", ssz, "uniform_%d" % int(ssz[0]), full=True)
    elif u["kind"] == "subenum":
        for bits, m in zip(range(u["start"], u["stop"]), gen.all_masks(u["H"], u["W"], u["start"], u["stop"])):
            for choice in range(6):
                rng = gen.rng_for(ctx.seed, NO, 2, u["H"], u["W"], bits, choice)
                ssz, subname = sub_map(rng, int((~m).sum()), choice)
                run_case(ctx, "subenum:%dx%d:%d:%d" % (u["H"], u["W"], bits, choice), m, rng, "enum", ssz, subname, full=False)
