from common import *
import logging; logging.disable(logging.CRITICAL)
import itertools
class Func(aa.AbstractLinearObjFuncList):
    def __init__(self,grid,M,regularization=None):
        super().__init__(grid=grid,regularization=regularization); self._M=M
    @property
    def params(self): return self._M.shape[1]
    @property
    def mapping_matrix(self): return self._M
def conv_ref(m,k):
    H,W=m.shape; ky,kx=k.shape; hy,hx=ky//2,kx//2
    idx=-np.ones((H,W),int); idx[~m]=np.arange((~m).sum()); n=(~m).sum()
    C=np.zeros((n,n))
    for (sy,sx) in zip(*np.where(~m)):
        for (ty,tx) in zip(*np.where(~m)):
            a,b=ty-sy+hy,tx-sx+hx
            if 0<=a<ky and 0<=b<kx: C[idx[ty,tx],idx[sy,sx]]=k[a,b]
    return C
def gen(seed):
    rng=np.random.default_rng(seed)
    ky,kx=rng.choice([1,3,5]),rng.choice([1,3,5])
    H,W=rng.integers(ky+3,ky+7),rng.integers(kx+3,kx+7)
    m=np.ones((H,W),bool); inner=rng.random((H-2*(ky//2),W-2*(kx//2)))<0.45
    if inner.all(): inner[0,0]=False
    m[ky//2:H-ky//2,kx//2:W-kx//2]=inner
    if (~m).sum()<4: m[ky//2:H-ky//2,kx//2:W-kx//2]=False
    mask=aa.Mask2D(mask=m,pixel_scales=(rng.uniform(0.3,1.5),rng.uniform(0.3,1.5)),origin=tuple(rng.normal(size=2)))
    k=rng.random((ky,kx))+0.05 if seed%2 else rng.normal(size=(ky,kx))
    psf=aa.Kernel2D.no_mask(values=k,pixel_scales=mask.pixel_scales)
    data=aa.Array2D(values=rng.normal(size=(H,W)),mask=mask); noise=aa.Array2D(values=rng.uniform(0.3,3,size=(H,W)),mask=mask)
    sub=int(rng.integers(1,3))
    ds=aa.Imaging(data=data,noise_map=noise,psf=psf,use_normalized_psf=False,over_sampling=aa.OverSamplingDataset(pixelization=aa.OverSamplingUniform(sub_size=sub)))
    osamp=ds.grids.pixelization.over_sampler; g=osamp.over_sampled_grid.array
    objs=[]
    nobj=rng.integers(1,4)
    for o in range(nobj):
        kind=rng.choice(['rect','del','func'])
        reg=[aa.reg.Constant(rng.uniform(0.1,2)),None][int(rng.random()<0.25)]
        if kind=='func':
            M=rng.normal(size=((~m).sum(),int(rng.integers(1,3)))) if rng.random()<0.5 else rng.random(((~m).sum(),int(rng.integers(1,3))))
            objs.append(Func(grid=ds.grids.uniform,M=M,regularization=None if reg is None else aa.reg.Zeroth(0.5)))
            continue
        src=aa.Grid2DIrregular(values=g+0.2*np.sin(2*g[:,::-1]+o)+0.03*rng.normal(size=g.shape))
        if kind=='rect': mesh=aa.Mesh2DRectangular.overlay_grid(shape_native=(int(rng.integers(3,5)),int(rng.integers(3,5))),grid=src)
        else:
            lo=src.array.min(0);hi=src.array.max(0); mesh=aa.Mesh2DDelaunay(values=lo+(hi-lo)*rng.random((int(rng.integers(5,10)),2)))
        mg=aa.MapperGrids(mask=mask,source_plane_data_grid=src,source_plane_mesh_grid=mesh)
        objs.append(aa.Mapper(mapper_grids=mg,over_sampler=osamp,regularization=reg))
    return ds,objs,m,k
bad={}
def flag(k,info=None):
    bad.setdefault(k,[0,None]); bad[k][0]+=1
    if bad[k][1] is None: bad[k][1]=info
N=0
import sys
for seed in range(int(sys.argv[1]) if len(sys.argv)>1 else 40):
    ds,objs,m,k=gen(seed)
    C=conv_ref(m,k); Mfull=np.hstack([o.mapping_matrix for o in objs]); B=C@Mfull
    d=ds.data.array; nz=ds.noise_map.array
    Dref=B.T@(d/nz**2); Fref=(B/nz[:,None]).T@(B/nz[:,None])
    diag=1e-3; c=0
    for o in objs:
        if o.regularization is None: Fref[np.arange(c,c+o.params),np.arange(c,c+o.params)]+=diag
        c+=o.params
    res={}
    for use_w in (True,False):
        st=aa.SettingsInversion(use_w_tilde=use_w,use_positive_only_solver=False,no_regularization_add_to_curvature_diag_value=diag)
        try:
            inv=aa.Inversion(dataset=ds,linear_obj_list=objs,settings=st)
            D=inv.data_vector; F=inv.curvature_matrix
            sc=max(1,np.abs(Fref).max()); scd=max(1,np.abs(Dref).max())
            if not np.allclose(D,Dref,atol=1e-8*scd): flag(f'D use_w={use_w} {type(inv).__name__}',(seed,[type(o).__name__ for o in objs],k.shape))
            if not np.allclose(F,Fref,atol=1e-8*sc): flag(f'F use_w={use_w} {type(inv).__name__}',(seed,[type(o).__name__ for o in objs],k.shape,np.abs(F-Fref).max()))
            if not np.allclose(F,F.T,atol=1e-10*sc): flag('asym')
            try:
                s=inv.reconstruction; md=inv.mapped_reconstructed_data.array
                if not np.allclose(md,B@s,atol=1e-7*max(1,np.abs(B@s).max())): flag(f'mapped use_w={use_w}',(seed,))
                A=F+inv.regularization_matrix
                if not np.allclose(A@s,D,atol=1e-6*scd): flag('solve resid')
                tot=sum(v.array for v in inv.mapped_reconstructed_data_dict.values())
                if not np.allclose(tot,md): flag('sum dict')
            except aa.exc.InversionException: flag('invexc (allowed)')
        except Exception as e:
            flag(f'EXC use_w={use_w} '+repr(e)[:80],(seed,[type(o).__name__ for o in objs],k.shape))
    N+=1
print(N)
for kk,v in bad.items(): print(kk,v)
# backward error analysis
be=[]
for seed in range(40):
    ds,objs,m,k=gen(seed)
    st=aa.SettingsInversion(use_w_tilde=False,use_positive_only_solver=False,no_regularization_add_to_curvature_diag_value=1e-3)
    inv=aa.Inversion(dataset=ds,linear_obj_list=objs,settings=st)
    A=inv.curvature_reg_matrix.copy(); D=inv.data_vector; s=inv.reconstruction
    be.append((np.linalg.norm(A@s-D)/(np.linalg.norm(A,2)*np.linalg.norm(s)+np.linalg.norm(D)), np.linalg.cond(A)))
be=np.array(be); print('max backward err',be[:,0].max(),'max cond',be[:,1].max())
