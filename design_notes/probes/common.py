import sys, os, warnings
warnings.filterwarnings("ignore")
sys.path.insert(0, os.environ.get('REPO','/repo'))
import numpy as np
from autoconf import conf
conf.instance.push(new_path=os.environ.get('REPO','/repo')+'/test_autoarray/config', output_path='/tmp/probe/out')
import autoarray as aa
def rmask(rng, H, W, p=0.5, ring=False):
    while True:
        m = rng.random((H,W)) < p
        if ring:
            m[0,:]=m[-1,:]=True; m[:,0]=m[:,-1]=True
        if (~m).sum()>0: return m
