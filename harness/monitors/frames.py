"""
sys.monitoring (3.12) helpers: reach counters (PY_START) and frame-local capture at PY_RETURN on selected code
objects. ~5 % overhead; callbacks only fire for the registered code objects (local events).
"""
import sys

TOOL = 3  # sys.monitoring.PROFILER_ID is 2, OPTIMIZER 5; 3 and 4 are free for tools
_state = {"on": False, "start": {}, "ret": {}}


def _ensure():
    mon = sys.monitoring
    if not _state["on"]:
        try:
            mon.use_tool_id(TOOL, "verif")
        except ValueError:
            pass
        mon.register_callback(TOOL, mon.events.PY_START, _on_start)
        mon.register_callback(TOOL, mon.events.PY_RETURN, _on_return)
        _state["on"] = True


def _on_start(code, offset):
    cb = _state["start"].get(code)
    if cb is not None:
        cb()


def _on_return(code, offset, retval):
    cb = _state["ret"].get(code)
    if cb is not None:
        try:
            cb(sys._getframe(1).f_locals, retval)
        except Exception:
            pass


def _code(fn):
    fn = getattr(fn, "__verif_original__", fn)
    fn = getattr(fn, "__wrapped__", fn)
    return fn.__code__


def count_calls(fn, counter, name):
    """counter[name] += 1 on every entry of fn (including internal calls)."""
    _ensure()
    code = _code(fn)

    def bump():
        counter[name] += 1

    _state["start"][code] = bump
    _events(code)


def capture_return(fn, callback):
    """callback(frame_locals: dict, return_value) just before fn returns."""
    _ensure()
    code = _code(fn)
    _state["ret"][code] = callback
    _events(code)


def _events(code):
    mon = sys.monitoring
    ev = 0
    if code in _state["start"]:
        ev |= mon.events.PY_START
    if code in _state["ret"]:
        ev |= mon.events.PY_RETURN
    mon.set_local_events(TOOL, code, ev)


def clear():
    mon = sys.monitoring
    for code in set(_state["start"]) | set(_state["ret"]):
        try:
            mon.set_local_events(TOOL, code, 0)
        except Exception:
            pass
    _state["start"].clear()
    _state["ret"].clear()
