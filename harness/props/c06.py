"""
C06 - mapping matrices conserve flux and encode the claimed interpolation.

Per generated mapper (mask, per-pixel sub-size map 1..4, smoothly distorted + jittered source-plane grid with some points
pushed outside the hull, rectangular mesh 3x3..7x5 via overlay_grid or 4..25 Delaunay vertices in general position):
  sub.rect_cell       every sub-pixel's reported rectangular cell contains its source-plane point (cell bounds recomputed
                      from the min/max of the source grid; 1e-9 boundary band accepts either neighbour) with weight 1
  sub.delaunay        reported vertex triple is a simplex of an independently computed Delaunay triangulation, weights
                      >= 0, sum 1 and reproduce the point (sum w_k V_k = p): barycentric coordinates are the unique such
                      weights, so containment and the weight formula are decided without the area-ratio code
  sub.outside_hull    point outside every simplex (brute force) -> exactly one vertex, the nearest, weight 1
  matrix.dense        mapper.mapping_matrix == sum over the sub-pixels of pixel i of (1/sub_i^2) * weight, rebuilt from the
                      per-sub-pixel tables with an independent pixel-by-pixel sub-pixel ordering
  matrix.rows         rows non-negative and sum to one
  unique.decodes      unique_mappings decode to the same dense matrix, distinct source pixels per row, lengths consistent
  neighbors           symmetric and equal to the 4-connectivity / the edge set of the simplices (mapper and mesh views)
  contract:mapper_util.mapping_matrix_from   (icontract) row sums == 1 on every internal call
validated against (scratch copies, suite green): two weights permuted inside a triangle, sub_fraction indexed by the
sub-index, far-edge cell of a non-square mesh (shape_native axes swapped), de-duplication dropped in the unique mapping,
one-directional neighbour list.
"""
import numpy as np

from harness import env, gen, gen_aa
from harness.monitors import contracts

ID = "C06"
NO = 6
RULE = ("seeded mappers: mask up to 8x9 (<=45 unmasked pixels), uniform or per-pixel sub-size map 1..4, source grid = over-sampled "
        "image grid under shear / sinusoidal / radial distortion + jitter; rectangular meshes 3x3..7x5 (non-square included) and "
        "Delaunay vertex sets (4..25, minimum separation, hull smaller or larger than the data). A case = one mapper; distinct by "
        "hash of (mask, sub map, source grid, mesh); non-trivial = >= 2 mesh pixels receive flux and some pixel has sub-size > 1 or "
        "interpolates between >= 2 source pixels")
BOUNDS = {"quick": "800 mappers (400 rectangular, 400 Delaunay), every sub-pixel checked", "thorough": "60000 mappers"}
EXHAUSTIVE = {"quick": False, "thorough": False}
ASSUMPTIONS = ["Voronoi natural-neighbour weights out of scope (external C library absent), as the statement says",
               "points within 1e-9 (relative to the cell / barycentric scale) of a cell or triangle boundary accept either side",
               "the reference triangulation is scipy.spatial.Delaunay computed by the harness on the mesh vertices"]
QUICK_JOBS = 16
MIN_MONITORS = {"*": {"sub.rect_cell": 20, "sub.delaunay": 20, "sub.outside_hull": 5, "matrix.dense": 20, "matrix.rows": 20,
                      "unique.decodes": 20, "neighbors": 20, "contract:mapper_util.mapping_matrix_from": 20}}


def plan(tier, seed):
    n = 800 if tier == "quick" else 60000
    step = 10 if tier == "quick" else 100
    units = [{"kind": "map", "start": s, "stop": min(n, s + step), "w": step} for s in range(0, n, step)]
    if tier == "thorough":
        units.append({"kind": "suite", "w": 10 ** 7})   # the repository's own tests with the contracts installed (DESIGN 1.5)
    return units


def _np(x):
    return np.asarray(x.array if hasattr(x, "array") and not isinstance(x, np.ndarray) else x)


def post_mapping_matrix(ctx, a, result, old):
    M = _np(result)
    if M.ndim != 2:
        return None
    # only claimed for proper interpolation tables (every sub-pixel has >= 1 mapping with weights summing to 1)
    sizes = _np(a["pix_size_for_sub_slim_index"])
    w = _np(a["pix_weights_for_sub_slim_index"]).astype(float)
    tot = np.array([w[i, :int(sizes[i])].sum() for i in range(len(sizes))])
    if len(sizes) == 0 or not np.allclose(tot, 1.0, atol=1e-9):
        return None
    rs = M.sum(1)
    return (bool(np.all(np.abs(rs - 1.0) <= 1e-9) and (M >= -1e-12).all()), {"row_sums": rs, "why": "mapping_matrix_from rows do not sum to one"})


def setup(ctx):
    ctx.aa = env.boot("base")
    install_contracts(ctx)


def install_contracts(ctx):
    """Also used by harness/suite_plugin.py (the repository's own tests drive the contract in the thorough tier)."""
    from autoarray.inversion.pixelization.mappers import mapper_util
    contracts.attach(ctx, mapper_util, "mapping_matrix_from", post_mapping_matrix)


def teardown(ctx):
    contracts.detach_all()


def make(ctx, rng, kind, units=1.0, pipeline=False, degenerate=False, far=False):
    aa = ctx.aa
    H, W = int(rng.integers(3, 9)), int(rng.integers(3, 10))
    for _ in range(20):
        m, fam = gen.random_mask(rng, H, W, family=str(rng.choice(["bernoulli", "dense", "holes", "components", "bridge", "all_unmasked", "sparse"])))
        if 3 <= (~m).sum() <= 45:
            break
    else:
        m = np.zeros((3, 3), bool)
        fam = "all_unmasked"
    if degenerate:
        # the smallest inputs: one unmasked pixel, or one row / one column of unmasked pixels that the source plane keeps on a line
        # (zero extent along one or both axes of the source-plane grid)
        dg = ("one_pixel", "one_row", "one_column")[int(rng.integers(3))]
        m = np.ones((H, W), bool)
        if dg == "one_pixel":
            m[int(rng.integers(H)), int(rng.integers(W))] = False
        elif dg == "one_row":
            m[int(rng.integers(H)), :] = False
        else:
            m[:, int(rng.integers(W))] = False
        fam = "degenerate:" + dg
    ps, origin = gen.mild_scales_origin(rng)
    mask = aa.Mask2D(mask=m.copy(), pixel_scales=ps, origin=origin)
    n = int((~m).sum())
    if degenerate:
        subs = np.ones(n, dtype=int)
        submode = "uniform"
    elif rng.random() < 0.35:
        subs = np.full(n, int(rng.integers(1, 5)))
        submode = "uniform"
    else:
        subs = rng.integers(1, 5, size=n)
        submode = "per_pixel"
    # the sub-size map as a user may hold it: the platform integer, or a compact integer type (sub sizes are small numbers)
    sub_dtype = [np.int64, np.int64, np.int32, np.int16, np.int8, np.uint8][int(rng.integers(6))] if submode == "per_pixel" else np.int64
    osamp = aa.OverSamplerUniform(mask=mask, sub_size=aa.Array2D(values=subs.astype(sub_dtype), mask=mask))
    g = _np(osamp.over_sampled_grid).copy()
    src, dk = gen_aa.distort(rng, g, strength=float(rng.uniform(0.05, 0.4)))
    submode = submode + (":" + np.dtype(sub_dtype).name if sub_dtype is not np.int64 else "")
    if degenerate:
        # a pure stretch + shift along the axes keeps a row on a line of constant y and a column on a line of constant x
        src = g * np.array([float(rng.uniform(0.5, 2.0)), float(rng.uniform(0.5, 2.0))]) + rng.normal(size=2)
        dk = "axis_stretch"
    src = src * units              # the source plane expressed in other units (e.g. radians instead of arc-seconds)
    if far == "very":
        # so far away (1e6 .. 1e7 extents) that interpolation weights computed from absolute coordinates are no longer resolvable;
        # what stays decidable is index-valued: a point clearly outside the hull maps to its nearest vertex alone
        src = src + np.array([1.0, -0.6]) * float(10.0 ** rng.uniform(6, 7)) * float(np.ptp(src, axis=0).max() or 1.0)
    elif far:
        # ... and far from the coordinate origin compared with the spacing of the points (1e3 .. 5e4 extents away)
        src = src + np.array([1.0, -0.6]) * float(10.0 ** rng.uniform(3, 4.7)) * float(np.ptp(src, axis=0).max() or 1.0)
    if kind == "rect" and pipeline:
        # the mapper as the public pipeline builds it: mesh.Rectangular.mapper_grids_from with a border relocator; a third of the
        # traced sub-pixels are flung far outside (de-magnified centre), so relocation really moves points before the mesh is
        # laid over them. Points and mesh are then taken from the mapper grids the pipeline returned.
        shape = (int(rng.integers(3, 8)), int(rng.integers(3, 6)))
        cen = src.mean(0)
        far = rng.random(len(src)) < 0.3
        src = src.copy()
        src[far] = cen + (src[far] - cen) * rng.uniform(2.0, 6.0, size=(int(far.sum()), 1))
        br = aa.BorderRelocator(mask=mask, sub_size=aa.Array2D(values=subs.astype(int), mask=mask))
        mg = aa.mesh.Rectangular(shape=shape).mapper_grids_from(mask=mask, source_plane_data_grid=aa.Grid2DIrregular(values=src.copy()),
                                                               border_relocator=br, adapt_data=aa.Array2D(values=np.exp(rng.uniform(0.0, np.log(50.0), size=n)) * 0.1, mask=mask))
        mp = aa.Mapper(mapper_grids=mg, over_sampler=osamp, regularization=aa.reg.Constant(coefficient=1.0))
        return dict(m=m, fam=fam, ps=ps, origin=origin, subs=subs, submode=submode, src=_np(mp.source_plane_data_grid).astype(float), dk=dk + "+pipeline_with_border_relocator",
                    mesh=mp.source_plane_mesh_grid, V=None, mapper=mp, kind=kind, units=units, pipeline=True)
    if kind == "rect":
        shape = (int(rng.integers(3, 8)), int(rng.integers(3, 6)))
        if rng.random() < 0.5:
            shape = shape[::-1]
        mesh = aa.Mesh2DRectangular.overlay_grid(shape_native=shape, grid=aa.Grid2DIrregular(values=src))
        V = None
    else:
        lo, hi = src.min(0), src.max(0)
        nv = int(rng.integers(4, 26))
        spread = float(rng.choice([0.7, 1.0, 1.2, 1.5]))
        V = gen_aa.delaunay_vertices(rng, lo, hi, nv, spread=spread)
        if len(V) < 4:
            V = gen_aa.delaunay_vertices(rng, lo - units, hi + units, 6, spread=1.0)
        mesh = aa.Mesh2DDelaunay(values=V.copy())
    srcg = aa.Grid2DIrregular(values=src.copy())
    adapt = aa.Array2D(values=np.exp(rng.uniform(0.0, np.log(50.0), size=n)) * 0.1, mask=mask)      # non-uniform, positive
    mg = aa.MapperGrids(mask=mask, source_plane_data_grid=srcg, source_plane_mesh_grid=mesh, adapt_data=adapt)
    mp = aa.Mapper(mapper_grids=mg, over_sampler=osamp, regularization=aa.reg.Constant(coefficient=1.0))
    return dict(m=m, fam=fam, ps=ps, origin=origin, subs=subs, submode=submode, src=src, dk=dk, mesh=mesh, V=V, mapper=mp, kind=kind, units=units)


def repro_tol(V, idx, ext):
    """How well area-ratio weights computed in absolute coordinates can reproduce a point: 1e-9 of the mesh extent near the origin;
    far from it the cancellation in the triangle areas costs u * |coordinate|^2 / (altitude of the triangle)."""
    t = V[np.asarray(idx, dtype=int)]
    if t.shape != (3, 2):
        return 1e-9 * ext
    e = np.array([t[1] - t[0], t[2] - t[1], t[0] - t[2]])
    area2 = abs(e[0, 0] * e[1, 1] - e[0, 1] * e[1, 0])
    h = area2 / max(float(np.hypot(e[:, 0], e[:, 1]).max()), 1e-300)
    return max(1e-9 * ext, 256 * 2.2e-16 * float(np.abs(V).max()) ** 2 / max(h, 1e-300))


def run_case(ctx, i):
    rng = gen.rng_for(ctx.seed, NO, i)
    if not ctx.begin("map:%d" % i):
        return
    kind = "rect" if i % 2 == 0 else "del"
    # every 4th Delaunay case: source-plane coordinates in other units (interpolation weights are scale free)
    units = float(10.0 ** rng.uniform(-7, 2)) if (kind == "del" and i % 8 == 5) else 1.0
    pipeline = (kind == "rect" and i % 8 == 2)
    degenerate = (kind == "rect" and i % 16 == 4)
    far = "very" if (kind == "del" and i % 16 == 9) else (i % 8 in (1, 6))
    ok, c = ctx.guarded("mapper.construct", lambda: make(ctx, rng, kind, units, pipeline, degenerate, far))
    if not ok:
        return
    mp, src, subs, m = c["mapper"], c["src"], c["subs"], c["m"]
    n = int((~m).sum())
    W = dict(mask=m, sub_sizes=subs, kind=kind, distortion=c["dk"], scales=c["ps"], origin=c["origin"])
    # access history: the adaptive regularizations ask the mapper for its pixel signals *before* the mapping matrix is first
    # computed; that query must not change the tables / matrix (order 0: signals first, 1: between tables and matrix, 2: never)
    order = i % 3
    W["pixel_signals_query"] = ("before tables", "between tables and matrix", "not called")[order]
    if order == 0:
        ctx.guarded("pixel_signals", lambda: mp.pixel_signals_from(signal_scale=float(rng.uniform(0.5, 2.0))))
    ok, psw = ctx.guarded("pix_sub_weights", lambda: mp.pix_sub_weights)
    if not ok:
        return
    maps, sizes, wts = _np(psw.mappings).astype(int), _np(psw.sizes).astype(int), _np(psw.weights).astype(float)
    nsub = int((subs ** 2).sum())
    ctx.check(len(sizes) == nsub and maps.shape[0] == nsub, "tables.length", got=len(sizes), expected=nsub, **W)
    if len(sizes) != nsub:
        return
    P = int(mp.params)
    interp = False
    if kind == "rect":
        Hm, Wm = tuple(int(v) for v in c["mesh"].shape_native)
        W["mesh_shape"] = (Hm, Wm)
        buf = 1e-8
        y_max, y_min = src[:, 0].max() + buf, src[:, 0].min() - buf
        x_max, x_min = src[:, 1].max() + buf, src[:, 1].min() - buf
        if c.get("pipeline"):
            # the cells are those of the mesh the pipeline laid down (its own extent), not re-derived from the points
            ex = c["mesh"].geometry.extent
            x_min, x_max, y_min, y_max = float(ex[0]), float(ex[1]), float(ex[2]), float(ex[3])
            ctx.classes["rect:built_by_pipeline_with_border_relocator"] += 1
        sy, sx = (y_max - y_min) / Hm, (x_max - x_min) / Wm
        ctx.check(P == Hm * Wm, "params", got=P, **W)
        k = maps[:, 0]
        r, cc = k // Wm, k % Wm
        tol_y, tol_x = 1e-9 * sy + 1e-12 * abs(y_max), 1e-9 * sx + 1e-12 * abs(x_max)
        y1, x0 = y_max - r * sy, x_min + cc * sx
        inside = (src[:, 0] <= y1 + tol_y) & (src[:, 0] >= y1 - sy - tol_y) & (src[:, 1] >= x0 - tol_x) & (src[:, 1] <= x0 + sx + tol_x)
        okc = inside & (sizes == 1) & (wts[:, 0] == 1) & (k >= 0) & (k < P)
        bad = np.flatnonzero(~okc)
        ctx.monitors["sub.rect_cell"] += len(k) - 1
        ctx.check(len(bad) == 0, "sub.rect_cell", first_bad=lambda: {"sub_index": int(bad[0]), "point": src[bad[0]], "cell": (int(r[bad[0]]), int(cc[bad[0]])),
                                                                  "cell_y": (float(y1[bad[0]] - sy), float(y1[bad[0]])), "cell_x": (float(x0[bad[0]]), float(x0[bad[0]] + sx))},
                  nbad=len(bad), **W)
        edge_pts = int(((src[:, 0] >= y_max - 2 * buf) | (src[:, 1] >= x_max - 2 * buf) | (src[:, 0] <= y_min + 2 * buf) | (src[:, 1] <= x_min + 2 * buf)).sum())
        ctx.classes["rect:points_on_mesh_edges"] += edge_pts
        # neighbours: 4-connectivity of the mesh grid
        exp_adj = set()
        for a in range(Hm):
            for b in range(Wm):
                for (da, db) in ((1, 0), (-1, 0), (0, 1), (0, -1)):
                    if 0 <= a + da < Hm and 0 <= b + db < Wm:
                        exp_adj.add((a * Wm + b, (a + da) * Wm + b + db))
    else:
        from scipy.spatial import Delaunay
        V = _np(mp.source_plane_mesh_grid).astype(float)
        ctx.check(np.array_equal(V, c["V"]) and P == len(V), "params", got=P, **W)
        tri = Delaunay(V)
        simp = {tuple(sorted(int(v) for v in t)) for t in tri.simplices}
        ext = float(np.ptp(V, axis=0).max())
        # brute-force containment of every point in every simplex (barycentric, independent of find_simplex)
        T = V[tri.simplices]                      # (ns, 3, 2)
        A = np.stack([T[:, 0] - T[:, 2], T[:, 1] - T[:, 2]], axis=-1)   # (ns, 2, 2)
        Ainv = np.linalg.inv(A)
        lam12 = np.einsum("sij,spj->spi", Ainv, src[None, :, :] - T[:, 2][:, None, :])   # (ns, np, 2)
        lam = np.concatenate([lam12, 1 - lam12.sum(-1, keepdims=True)], axis=-1)
        lmin = lam.min(-1)                        # (ns, np)
        best = lmin.max(0)                        # > 0 strictly inside some simplex, < 0 outside all
        nb3 = nb1 = 0
        very_far = (far == "very")
        for q in range(nsub):
            sz = sizes[q]
            idx, w = maps[q, :sz], wts[q, :sz]
            if very_far and best[q] >= -1e-6:
                ctx.skipped["very_far_plane:inside_or_near_hull(weights_not_resolvable)"] += 1
                continue
            if best[q] > 1e-9:
                interp = True
                good = (sz == 3 and tuple(sorted(int(v) for v in idx)) in simp and (w >= -1e-12).all() and abs(w.sum() - 1) <= 1e-9
                        and float(np.abs(w @ V[idx] - src[q]).max()) <= repro_tol(V, idx, ext))
                nb3 += 1
                ctx.check(good, "sub.delaunay", sub_index=q, point=src[q], vertices=idx, weights=w,
                          reproduced=lambda: (w @ V[idx]) if sz == len(w) and sz > 0 else None, vertex_coords=lambda: V[idx], **W)
            elif best[q] < -1e-9:
                d2 = ((V - src[q]) ** 2).sum(1)
                srt = np.sort(d2)
                if len(srt) > 1 and srt[1] - srt[0] <= 1e-9 * max(ext * ext, srt[0]):
                    ctx.skipped["outside_hull:nearest_vertex_tie"] += 1
                    continue
                nb1 += 1
                ctx.check(sz == 1 and int(idx[0]) == int(np.argmin(d2)) and w[0] == 1, "sub.outside_hull", sub_index=q, point=src[q],
                          vertices=idx, weights=w, nearest=int(np.argmin(d2)), **W)
            else:
                ctx.skipped["delaunay:point_on_triangle_boundary_band"] += 1
        ctx.classes["del:points_inside"] += nb3
        ctx.classes["del:points_outside_hull"] += nb1
        exp_adj = set()
        for t in tri.simplices:
            for a in range(3):
                for b in range(3):
                    if a != b:
                        exp_adj.add((int(t[a]), int(t[b])))
    # dense matrix from the verified per-sub-pixel tables with an independent sub-pixel ordering
    slim_for_sub = np.repeat(np.arange(n), subs ** 2)
    frac = 1.0 / (subs.astype(float) ** 2)
    Mref = np.zeros((n, P))
    for q in range(nsub):
        for t in range(sizes[q]):
            Mref[slim_for_sub[q], maps[q, t]] += frac[slim_for_sub[q]] * wts[q, t]
    if order == 1:
        ctx.guarded("pixel_signals", lambda: mp.pixel_signals_from(signal_scale=float(rng.uniform(0.5, 2.0))))
    ctx.classes["pixel_signals_query:" + W["pixel_signals_query"]] += 1
    vfar = (far == "very")
    if vfar:
        ctx.skipped["very_far_plane:matrix_and_encoding_checks(weights_not_resolvable)"] += 1
    ok, M = (False, None) if vfar else ctx.guarded("matrix.dense", lambda: _np(mp.mapping_matrix).astype(float))
    if ok:
        ctx.check(ctx.close(M, Mref, 1e-12), "matrix.dense", got=M, expected=Mref, **W)
        rs = M.sum(1) if M.ndim == 2 else np.array([np.nan])
        ctx.check(M.shape == (n, P) and bool((M >= -1e-12).all()) and bool(np.all(np.abs(rs - 1) <= 1e-9)), "matrix.rows", row_sums=rs, **W)
    ok, um = (False, None) if vfar else ctx.guarded("unique.decodes", lambda: mp.unique_mappings)
    if ok:
        d2p, dw, pl = _np(um.data_to_pix_unique).astype(int), _np(um.data_weights).astype(float), _np(um.pix_lengths).astype(int)
        Dd = np.zeros((n, P))
        dup = False
        for a in range(n):
            ids = d2p[a, :pl[a]]
            dup |= len(set(ids.tolist())) != len(ids)
            for t in range(pl[a]):
                Dd[a, d2p[a, t]] += dw[a, t]
        ctx.check(ctx.close(Dd, Mref, 1e-12) and not dup and len(pl) == n, "unique.decodes", decoded=Dd, expected=Mref, duplicates=dup, **W)
        nz = (np.abs(Mref) > 0).sum(1)
        ctx.check(np.array_equal(pl, nz) or bool(np.all(pl >= nz)), "unique.lengths", got=pl, nonzeros_per_row=nz, **W)
    for view, fn in (("mapper", lambda: mp.neighbors), ("mesh", lambda: mp.source_plane_mesh_grid.neighbors)):
        ok, nb = ctx.guarded("neighbors", fn)
        if not ok:
            continue
        arr, szs = _np(nb).astype(int), _np(nb.sizes).astype(int)
        adj = {(a, int(b)) for a in range(arr.shape[0]) for b in arr[a, :szs[a]]}
        ctx.check(adj == exp_adj and all((b, a) in adj for (a, b) in adj), "neighbors", view=view,
                  missing=lambda: sorted(exp_adj - adj)[:10], spurious=lambda: sorted(adj - exp_adj)[:10], **W)
    used = int((np.abs(Mref).sum(0) > 0).sum())
    cls = ["kind:" + kind, "sub:" + c["submode"], "mask:" + c["fam"], "distortion:" + c["dk"]]
    if kind == "rect" and W["mesh_shape"][0] != W["mesh_shape"][1]:
        cls.append("nonsquare_mesh")
    if c["units"] != 1.0:
        cls = list(cls) + ["source_plane_units:1e%d" % int(np.floor(np.log10(c["units"])))]
    if far:
        cls = list(cls) + ["source_plane_far_from_origin"]
    ctx.case(m, subs, src, kind, nontrivial=(used >= 2 and (subs.max() > 1 or interp)), cls=cls,
             sample=lambda: {"kind": kind, "mask": m.astype(int).tolist(), "sub_sizes": subs.tolist(), "mesh_pixels": P,
                             "source_points": nsub, "distortion": c["dk"]})


def run_unit(ctx, u):
    for i in range(u["start"], u["stop"]):
        run_case(ctx, i)
