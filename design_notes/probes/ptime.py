from common import *
import time, itertools
def masks(H,W):
    n=H*W
    for bits in range(1,2**n):  # bits = unmasked set nonempty
        m=np.array([(bits>>k)&1==0 for k in range(n)]).reshape(H,W)
        yield m
t=time.time(); c=0
H,W=3,3
vals=np.arange(H*W,dtype=float).reshape(H,W)+1.25
for m in masks(H,W):
    mask=aa.Mask2D(mask=m,pixel_scales=(1.0,2.0))
    exp_slim=vals[~m]; exp_nat=np.where(m,0,vals)
    for sn in (False,True):
        for inp in (vals,exp_slim):
            A=aa.Array2D(values=inp,mask=mask,store_native=sn)
            assert np.array_equal(A.slim.array,exp_slim) and np.array_equal(A.native.array,exp_nat)
    g=np.stack([vals,-vals],-1)
    for sn in (False,True):
        for inp in (g.copy(),g[~m]):
            G=aa.Grid2D(values=inp,mask=mask,store_native=sn)
            assert np.array_equal(G.slim.array,g[~m])
    di=mask.derive_indexes
    assert np.array_equal(di.native_for_slim,np.argwhere(~m)) and np.array_equal(di.unmasked_slim,np.flatnonzero(~m)) and np.array_equal(di.masked_slim,np.flatnonzero(m))
    c+=1
dt=time.time()-t
print('C01: masks',c,'time',dt,'per mask ms',1000*dt/c)
# C10 per mask
t=time.time(); c=0
for m in itertools.islice(masks(3,4),0,2000):
    mask=aa.Mask2D(mask=m,pixel_scales=1.0)
    di=mask.derive_indexes; di.edge_slim; di.border_slim; di.edge_native
    try: mask.derive_mask.blurring_from((3,3))
    except Exception: pass
    c+=1
dt=time.time()-t; print('C10 per mask ms',1000*dt/c)
