from common import *
conf.instance.push(new_path='/tmp/probe/cfg', output_path='/tmp/probe/out')
import logging; logging.disable(logging.CRITICAL)
rng=np.random.default_rng(99)
bad={}
def flag(k,info=None):
    bad.setdefault(k,[0,None]); bad[k][0]+=1
    if bad[k][1] is None: bad[k][1]=info
# --- C03 simulator zero residual
for t in range(25):
    ky,kx=rng.choice([1,3,5]),rng.choice([1,3,5]); H,W=rng.integers(ky+3,ky+8),rng.integers(kx+3,kx+8)
    ps=(rng.uniform(0.3,1),rng.uniform(0.3,1))
    k=rng.normal(size=(ky,kx)); k+= (0.5-k.sum())/k.size if abs(k.sum())<0.2 else 0
    psf=aa.Kernel2D.no_mask(values=k,pixel_scales=ps)
    img=aa.Array2D.no_mask(values=rng.random((H,W))+0.1,pixel_scales=ps)
    sim=aa.SimulatorImaging(exposure_time=300.0,background_sky_level=50.0,psf=psf,add_poisson_noise_to_data=False,include_poisson_noise_in_noise_map=False,noise_seed=1)
    ds=sim.via_image_from(img)
    m=np.ones((H,W),bool); inner=rng.random((H-2*(ky//2),W-2*(kx//2)))<0.4
    if inner.all(): inner[0,0]=False
    m[ky//2:H-ky//2,kx//2:W-kx//2]=inner
    mask=aa.Mask2D(mask=m,pixel_scales=ps)
    md=ds.apply_mask(mask)
    if md.data.shape_native!=(H,W): flag('sim padded unexpectedly'); continue
    bm=mask.derive_mask.blurring_from((ky,kx))
    model=md.convolver.convolve_image(aa.Array2D(values=img.native.array,mask=mask),aa.Array2D(values=img.native.array,mask=bm))
    if not np.allclose(model.array,md.data.array,atol=1e-10*max(1,np.abs(md.data.array).max())): flag('sim residual',(ky,kx,np.abs(model.array-md.data.array).max()))
# --- C09 decorator with per-pixel sub maps + to_array and adaptive scheme
class ProfB:
    centre=(0.0,0.0)
    def __init__(self,f): self.f=f; self.calls=[]
    @aa.over_sample
    @aa.grid_dec.to_array
    def image(self,grid,**kw): self.calls.append(len(grid)); return self.f(np.array(grid))
def refmean(f,mask,subs):
    H,W=mask.shape_native; sy,sx=mask.pixel_scales; oy,ox=mask.origin; out=[]
    for (i,j),s in zip(zip(*np.where(~np.array(mask))),subs):
        cy=oy+((H-1)/2-i)*sy; cx=ox+(j-(W-1)/2)*sx
        pts=np.array([(cy+sy/2-(a+0.5)*sy/s, cx-sx/2+(b+0.5)*sx/s) for a in range(s) for b in range(s)])
        out.append(f(pts).mean())
    return np.array(out)
f=lambda g: np.sin(2*g[:,0])*np.cos(3*g[:,1])+0.1*g[:,0]
for t in range(30):
    H,W=rng.integers(2,6),rng.integers(2,6); m=rmask(rng,H,W,p=0.3)
    mask=aa.Mask2D(mask=m,pixel_scales=(rng.uniform(0.2,1),rng.uniform(0.2,1)),origin=tuple(rng.normal(size=2)*0.3)); n=(~m).sum()
    subs=rng.integers(1,6,size=n)
    grid=aa.Grid2D.from_mask(mask,over_sampling=aa.OverSamplingUniform(sub_size=aa.Array2D(values=subs,mask=mask)))
    P=ProfB(f); out=P.image(grid)
    if type(out).__name__!='Array2D' or not np.allclose(out.array,refmean(f,mask,subs),atol=1e-12): flag('decorator submap')
    grid1=aa.Grid2D.from_mask(mask,over_sampling=aa.OverSamplingUniform(sub_size=1))
    P=ProfB(f); out=P.image(grid1)
    if not np.array_equal(out.array,f(grid1.array)) or P.calls!=[n]: flag('decorator sub1',P.calls)
    # adaptive scheme (no over_sampling): config ProfB sub_size_list [4,2,1], radial factors [3.01,10.01]
    if mask.pixel_scales[0]==mask.pixel_scales[1] or True:
        g0=aa.Grid2D.from_mask(mask)
        try:
            P=ProfB(f); out=P.image(g0)
            c=g0.geometry.scaled_coordinate_2d_to_scaled_at_pixel_centre_from((0.0,0.0))
            r=np.hypot(g0.array[:,0]-c[0],g0.array[:,1]-c[1]); pm=min(mask.pixel_scales)
            subs_exp=np.where(r<3.01*pm,4,np.where(r<10.01*pm,2,1))
            if not np.allclose(out.array,refmean(f,mask,subs_exp),atol=1e-12): flag('adaptive scheme',(t,))
        except Exception as e: flag('adaptive EXC '+repr(e)[:80])
# --- C14 Mask2D.resized_from pad values / trimmed_array_from
for t in range(60):
    H,W=rng.integers(1,7),rng.integers(1,7); nH,nW=H+2*rng.integers(0,3),W+2*rng.integers(0,3)
    m=rng.random((H,W))<0.5; mask=aa.Mask2D(mask=m,pixel_scales=(0.5,0.7),origin=(0.2,0.3))
    for pv in (0,1):
        r=mask.resized_from((nH,nW),pad_value=pv)
        exp=np.full((nH,nW),bool(pv)); oy,ox=(nH-H)//2,(nW-W)//2; exp[oy:oy+H,ox:ox+W]=m
        if not np.array_equal(np.array(r),exp): flag('mask resize pad',(H,W,nH,nW,pv))
        if r.origin!=mask.origin or r.pixel_scales!=mask.pixel_scales: flag('mask resize geom')
    padded=aa.Array2D.no_mask(values=rng.normal(size=(nH,nW)),pixel_scales=(0.5,0.7))
    big=aa.Mask2D.all_false(shape_native=(nH,nW),pixel_scales=(0.5,0.7))
    tr=big.trimmed_array_from(padded_array=padded,image_shape=(H,W))
    if not np.array_equal(tr.native.array,padded.native.array[oy:oy+H,ox:ox+W]): flag('trimmed_array_from',(H,W,nH,nW))
for k,v in bad.items(): print(k,v)
print('done')
