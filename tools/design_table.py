#!/usr/bin/env python3
"""Rewrites the table 'seeded change -> what it is -> monitors that catch it' inside DESIGN.md section 7.4 from seeded/*/meta.json."""
import glob, json, os, re
rows = []
for f in sorted(glob.glob("/verif/seeded/*/meta.json")):
    m = json.load(open(f))
    name = os.path.basename(os.path.dirname(f))
    title = open(os.path.dirname(f) + "/notes.md").read().strip().splitlines()[0]
    title = re.sub(r"^#\s*", "", title)
    title = re.sub(r"^C\d\d\s*/\s*(change\s*)?\w\s*[-—:]+\s*", "", title).strip().replace("|", "/")
    caught = [r for r in m["ran"] if r.get("caught")]
    res = ("%s %s: %s" % (caught[0]["check"], caught[0]["tier"], ", ".join(caught[0]["monitors_fired"][:3]))) if caught else "MISSED"
    rows.append("| %s | %s | %s |" % (name, title[:120], res))
tab = "| seeded change | what it is | caught by (check tier: first monitors that fired) |\n|---|---|---|\n" + "\n".join(rows) + "\n"
p = "/verif/DESIGN.md"
s = open(p).read()
a = s.index("| seeded change | what it is |")
b = s.index("\n\n", a) + 1
open(p, "w").write(s[:a] + tab + s[b:])
print(len(rows), "rows;", sum("MISSED" in r for r in rows), "missed")
