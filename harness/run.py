"""
CLI of the runtime-monitoring harness.

  python -m harness.run C07 --tier quick|thorough        (master: shards units over workers)
  python -m harness.run C07 --replay replay/C07/x.json    (re-executes exactly one case, raising)
  python -m harness.run C07 --worker units.json out.json  (internal)

Exit 0 held / 1 violated (line VIOLATION property=<id> replay=<path>) / 2 inconclusive.
"""
import argparse
import importlib
import json
import os
import subprocess
import sys
import tempfile
import time
import traceback

HERE = os.path.dirname(os.path.abspath(__file__))
VERIF = os.path.dirname(HERE)
if VERIF not in sys.path:
    sys.path.insert(0, VERIF)

from harness import env  # noqa: E402


def load_prop(pid):
    return importlib.import_module("harness.props." + pid.lower())


def raised_by_library(exc):
    """'file:line function' when the innermost frame that belongs to either the harness or the repository under test lies in the
    repository's package (frames of numpy / icontract / the standard library in between are skipped); None otherwise."""
    pkg = os.path.join(os.path.realpath(env.REPO), "autoarray") + os.sep
    hdir = os.path.join(VERIF, "harness") + os.sep
    last = None
    tb = exc.__traceback__
    while tb is not None:
        f = os.path.realpath(tb.tb_frame.f_code.co_filename)
        if f.startswith(pkg):
            last = ("lib", "%s:%d %s" % (f[len(pkg):], tb.tb_lineno, tb.tb_frame.f_code.co_name))
        elif f.startswith(hdir):
            last = ("harness", None)
        tb = tb.tb_next
    return last[1] if last and last[0] == "lib" else None


def run_units(pid, tier, seed, units, only=None, raising=False):
    from harness import core
    mod = load_prop(pid)
    ctx = core.Ctx(pid, tier, seed, only=only, raising=raising)
    if hasattr(mod, "setup"):
        mod.setup(ctx)
    for u in units:
        ctx.unit = u
        try:
            if u.get("kind") == "suite":
                run_suite_unit(ctx, pid)
                continue
            mod.run_unit(ctx, u)
        except core.MonitorFired:
            raise
        except env.Inconclusive as e:
            ctx.inconclusive.append("unit %r: %s" % (u, e))
        except Exception as e:
            where = raised_by_library(e)
            if where is not None:
                # An exception that left the repository's own code on an input for which the workload expects a value (expected
                # rejections are asserted where they are expected; the unchanged tree raises nowhere else, or the check would be
                # inconclusive there): the statement defines a value and the code under test produced none.
                ctx.monitors["library_raised_where_a_value_is_defined"] += 1
                ctx.fire("library_raised_where_a_value_is_defined", exception=repr(e)[:300], raised_at=where,
                         traceback=traceback.format_exc()[-1500:])
                ctx.notes.append("unit %r stopped at the first unexpected exception of the library; its remaining cases were not run" % (u,))
                continue
            # the harness itself crashed: never 'held'
            ctx.inconclusive.append("unit %r crashed: %r\n%s" % (u, e, traceback.format_exc()[-1200:]))
    if hasattr(mod, "teardown"):
        mod.teardown(ctx)
    return ctx


def run_suite_unit(ctx, pid):
    """The repository's own tests as an extra workload for the property's contracts (harness/suite_plugin.py)."""
    fd, out = tempfile.mkstemp(prefix="verif_suite_", suffix=".json")
    os.close(fd)
    e = env.child_env()
    e.update(VERIF_SUITE_PROP=pid, VERIF_SUITE_OUT=out, VERIF_TIER=ctx.tier, VERIF_SEED=str(ctx.seed),
             PYTHONPATH=VERIF + os.pathsep + e.get("PYTHONPATH", ""))
    try:
        subprocess.run([sys.executable, "-m", "pytest", "-q", "-x" if False else "-q", "-p", "no:cacheprovider", "-p", "harness.suite_plugin",
                        "--timeout=900", "--continue-on-collection-errors", os.path.join(env.REPO, "test_autoarray")],
                       cwd=env.REPO, env=e, capture_output=True, timeout=1500)
        r = json.load(open(out))
    except Exception as ex:
        ctx.inconclusive.append("suite replay failed: %r" % ex)
        return
    finally:
        if os.path.exists(out):
            os.remove(out)
    for k in ("classes", "monitors", "skipped", "reach"):
        getattr(ctx, k).update({("suite:" + a if k == "monitors" else a): b for a, b in r[k].items()} if k == "monitors" else r[k])
    for w in r["witnesses"]:
        if len(ctx.witnesses) < 200:
            ctx.witnesses.append(w)
    ctx.nfired += r["nfired"]
    for a, b in r.get("fired_by_monitor", {}).items():
        ctx._per_monitor[a] += b
    ctx.classes["suite_replay_runs"] += 1


def worker_main(args):
    os.environ[env.GUARD] = "1"
    units = json.load(open(args.worker[0]))
    ctx = run_units(args.prop, args.tier, args.seed, units)
    with open(args.worker[1], "w") as f:
        json.dump(ctx.dump(), f)
    return 0


def shard(units, n):
    """Greedy balance by the optional 'w' (weight) field; deterministic."""
    bins = [[] for _ in range(n)]
    loads = [0.0] * n
    order = sorted(range(len(units)), key=lambda i: -float(units[i].get("w", 1.0)))
    for i in order:
        j = loads.index(min(loads))
        bins[j].append(units[i])
        loads[j] += float(units[i].get("w", 1.0))
    return [b for b in bins if b]


def master(args):
    from harness import core, evidence, findings
    t0 = time.time()
    pid = args.prop
    mod = load_prop(pid)
    units = mod.plan(args.tier, args.seed)
    default_jobs = 16 if args.tier == "thorough" else int(getattr(mod, "QUICK_JOBS", 8))
    jobs = int(os.environ.get("VERIF_JOBS", default_jobs))
    jobs = max(1, min(jobs, len(units), os.cpu_count() or 1))
    timeout = float(os.environ.get("VERIF_WORKER_TIMEOUT", getattr(mod, "TIMEOUT", {}).get(args.tier, 3600)))
    work = tempfile.mkdtemp(prefix="verif_%s_" % pid)
    results, inconclusive = [], []
    procs = []
    try:
        for k, part in enumerate(shard(units, jobs)):
            uf = os.path.join(work, "u%d.json" % k)
            of = os.path.join(work, "o%d.json" % k)
            json.dump(part, open(uf, "w"))
            cmd = [sys.executable, "-m", "harness.run", pid, "--tier", args.tier, "--seed", str(args.seed),
                   "--worker", uf, of]
            lf = open(os.path.join(work, "log%d.txt" % k), "w")
            procs.append((k, of, lf, subprocess.Popen(cmd, cwd=VERIF, env=env.child_env(), stdout=lf,
                                                      stderr=subprocess.STDOUT)))
        deadline = time.time() + timeout
        for k, of, lf, p in procs:
            try:
                p.wait(timeout=max(1.0, deadline - time.time()))
            except subprocess.TimeoutExpired:
                p.kill()
                inconclusive.append("worker %d exceeded the %.0fs watchdog" % (k, timeout))
                continue
            lf.close()
            if p.returncode != 0 or not os.path.exists(of):
                tail = open(lf.name).read()[-1500:]
                inconclusive.append("worker %d exited %s: %s" % (k, p.returncode, tail))
                continue
            results.append(json.load(open(of)))
    finally:
        for k, of, lf, p in procs:
            if p.poll() is None:
                p.kill()
        import shutil
        shutil.rmtree(work, ignore_errors=True)

    m = core.merge(results)
    inconclusive.extend(m["inconclusive"])
    # reach requirements: a deciding monitor that never ran => inconclusive, never 'held'
    for name, minimum in getattr(mod, "MIN_MONITORS", {}).get(args.tier, getattr(mod, "MIN_MONITORS", {}).get("*", {})).items():
        if m["monitors"].get(name, 0) < minimum:
            inconclusive.append("monitor %s evaluated %d times (< %d required)" % (name, m["monitors"].get(name, 0), minimum))
    if hasattr(mod, "post"):
        mod.post(m, inconclusive, args.tier)

    known_lines, new = findings.classify(pid, m["witnesses"])
    replay_paths = []
    if new:
        d = os.path.join(env.OUT, "replay", pid)
        os.makedirs(d, exist_ok=True)
        for w in new[:10]:
            key = "%016x" % core.h64(json.dumps(w, sort_keys=True))
            path = os.path.join("replay", pid, key + ".json")
            json.dump({"property": pid, "tier": args.tier, "seed": args.seed, "unit": w.get("unit"),
                       "case": w.get("case"), "witness": w}, open(os.path.join(env.OUT, path), "w"), indent=1)
            replay_paths.append(path)
    wall = time.time() - t0
    verdict = "violated" if new else ("inconclusive" if inconclusive else "held")
    evidence.write(mod, pid, args.tier, args.seed, m, wall, verdict, len(new), known_lines, inconclusive)

    for line in known_lines:
        print(line)
    print("%s tier=%s seed=%d verdict=%s cases=%d distinct_nontrivial=%d monitor_evaluations=%d fired=%d wall=%.1fs"
          % (pid, args.tier, args.seed, verdict, m["evaluations"], len(m["distinct"]),
             sum(m["monitors"].values()), m["nfired"], wall))
    if new:
        seen = set()
        for w, path in zip(new, replay_paths):
            print("VIOLATION property=%s replay=%s" % (pid, path))
            k = w.get("monitor")
            if k not in seen:
                seen.add(k)
                print("  monitor=%s witness=%s" % (k, json.dumps(w)[:600]))
        print("  fired monitors: " + ", ".join("%s x%d" % kv for kv in sorted(m["fired_by_monitor"].items())))
        if len(new) > len(replay_paths):
            print("  (+%d further witnesses of %d fired)" % (len(new) - len(replay_paths), m["nfired"]))
        return 1
    if inconclusive:
        for r in inconclusive[:8]:
            print("INCONCLUSIVE property=%s reason=%s" % (pid, str(r)[:1500]))
        return 2
    return 0


def replay(args):
    from harness import core
    os.environ[env.GUARD] = "1"
    rec = json.load(open(args.replay))
    ctx = None
    try:
        ctx = run_units(rec["property"], rec["tier"], rec["seed"], [rec["unit"]], only=rec.get("case"), raising=False)
    except Exception as e:
        print("replay crashed: %r" % e)
        return 2
    from harness import findings
    known_lines, new = findings.classify(rec["property"], ctx.witnesses)
    for line in known_lines:
        print(line)
    for w in new[:5]:
        print("REPRODUCED monitor=%s witness=%s" % (w.get("monitor"), json.dumps(w)[:1500]))
    if new:
        print("VIOLATION property=%s replay=%s" % (rec["property"], args.replay))
        return 1
    if ctx.inconclusive:
        print("INCONCLUSIVE property=%s reason=%s" % (rec["property"], ctx.inconclusive[0][:800]))
        return 2
    print("replay: case %r executed %d evaluations, no monitor fired" % (rec.get("case"), sum(ctx.monitors.values())))
    return 0


def main(argv=None):
    ap = argparse.ArgumentParser()
    ap.add_argument("prop")
    ap.add_argument("--tier", default=os.environ.get("VERIF_TIER", "quick"), choices=["quick", "thorough"])
    ap.add_argument("--seed", type=int, default=int(os.environ.get("VERIF_SEED", "0")))
    ap.add_argument("--replay")
    ap.add_argument("--worker", nargs=2)
    args = ap.parse_args(argv)
    args.prop = args.prop.upper()
    try:
        env.ensure_deps()
    except env.Inconclusive as e:
        print("INCONCLUSIVE property=%s reason=%s" % (args.prop, e))
        return 2
    if args.worker:
        return worker_main(args)
    os.environ[env.GUARD] = "1"
    if args.replay:
        return replay(args)
    return master(args)


if __name__ == "__main__":
    sys.exit(main())
