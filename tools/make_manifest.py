#!/usr/bin/env python3
"""Regenerates MANIFEST.json from the table below (one check per implemented property module)."""
import json, os
V = "/verif"
PY = "PYTHONHASHSEED=0 /venv/bin/python -m harness.run"
SETUP = ("/venv/bin/pip install -q --no-index --find-links /opt/veriftools/wheels --target /verif/.deps icontract deal "
         "&& PYAUTOARRAY_VERIF=1 PYTHONDONTWRITEBYTECODE=1 /venv/bin/python -c \"import sys; sys.path.insert(0,'/verif'); "
         "from harness import env; aa=env.boot('base', pylops=True); import icontract, deal; print('setup ok', aa.__file__)\"")
TRUST = ("Runtime monitoring: decides only the executions produced. Trusted base: CPython 3.12, NumPy/SciPy/astropy as libraries, "
         "the reference models in harness/ref.py and harness/props/*.py (independent of the repository's code), icontract 2.7.3. "
         "numba is absent, so the un-jitted Python path is what is observed.")
# id -> (technique, level text, design ref)
T = {
 "C01": ("runtime monitoring: exhaustive bounded mask enumeration + icontract postconditions on the gather/scatter/index utilities, NumPy boolean-indexing reference model",
         "Every boolean mask of every shape with H*W<=12 (quick) / <=16 (thorough), all 1-D masks to the same bound and seeded hostile larger masks are executed through the real constructors; a NumPy reference decides every slim/native/index result bit-exactly and contracts on the nine utilities see every internal call. Exhaustive for the stated bound, sampled beyond it - exploration, not proof.", "DESIGN.md 3/C01"),
 "C03": ("runtime monitoring: operator extraction on basis images of the real Convolver/Kernel2D/SimulatorImaging against a plain-loop convolution matrix; icontract postcondition on convolve_matrix_jit",
         "For seeded (mask, odd kernel) pairs with holes, several components, non-square / signed / sparse kernels the whole blurring operator is extracted from the real code on basis images of the mask and of the blurring region and compared entry-wise with K[t-s+half] built from the definition; mapping matrices of five kinds (0/1, fractional, down to 1e-6, signed, sparse) must map to C_ref@M; garbage outside mask+blurring region must not change a bit; even kernels must raise; a noise-free simulation must be refitted with zero residual. Exploration over sampled operators.", "DESIGN.md 3/C03"),
 "C04": ("runtime monitoring: both real inversion formalisms executed on seeded datasets and compared with a dense reference B^T N^-1 d / B^T N^-1 B, metamorphic block permutation, re-reads after the solve",
         "Seeded imaging datasets (non-square and signed PSFs, noise levels 1e-3..1e4, sub-size 1..2) with ordered lists of 1..3 rectangular/Delaunay mappers and signed function lists are inverted with use_w_tilde on and off; D, F (before and after the solve), the operated mapping matrix, reconstruction and mapped data are compared with an independent dense reference and with each other, F must be symmetric and block order must follow permutations of the object list. Exploration.", "DESIGN.md 3/C04"),
 "C05": ("runtime monitoring: KKT-certificate oracle on the real fnnls solver and inversions, scipy nnls cross-check, sys.monitoring frame capture of the solver paths",
         "Seeded SPD systems (cond up to 1e8, negative off-diagonals, five right-hand-side families, five warm-start modes) and seeded inversions over the settings grid in both formalisms under the test and the production configuration are solved by the real code; every returned s must satisfy the KKT certificate of the NNLS problem (backward error for the unconstrained solver), agree with scipy.optimize.nnls when well conditioned, be exactly zero on forced parameters, and per-object model data must equal B_obj s_obj and sum to the total. Frame capture proves the warm-start / constraint-fixing paths actually ran. Exploration.", "DESIGN.md 3/C05"),
 "C06": ("runtime monitoring: per-sub-pixel geometric oracle (cell containment, barycentric reproduction, brute-force hull test) on real mappers, dense/sparse decode, adjacency reference; icontract row-sum contract",
         "Seeded rectangular and Delaunay mappers (per-pixel sub-sizes 1..4, distorted source grids, non-square meshes, points outside the hull) are built with the real code; every sub-pixel's reported cell/triangle and weights are decided geometrically, the dense matrix and the unique-mapping encoding are rebuilt independently, rows must be non-negative and sum to one, neighbour lists must equal the mesh adjacency. Exploration.", "DESIGN.md 3/C06"),
 "C07": ("runtime monitoring: eigenvalue / Cholesky / quadratic-form oracles on the real regularization schemes over seeded meshes, block-structure and permutation monitors on real inversions",
         "All nine schemes are evaluated by the real code on seeded rectangular (non-square included) and Delaunay meshes with log-uniform coefficients and adapt images of dynamic range up to 1e4; symmetry (1e-10), PSD for all, PD + successful Cholesky for the schemes the statement names, the closed quadratic forms of the constant and adaptive-brightness schemes on random and adversarial vectors against an independently computed adjacency, and the block-diagonal layout (zero block for unregularised objects, order under permutations, reduced matrix) are decided per case. Exploration.", "DESIGN.md 3/C07"),
 "C08": ("runtime monitoring: definitional NumPy oracle on unmasked pixels next to the real FitImaging, metamorphic garbage-invariance in masked pixels, evidence terms recomputed by slogdet on the regularised index set; icontract contracts on fit_util",
         "Seeded fits (signed data of large dynamic range, background sky, slim and garbage-carrying masked-native mode, with and without inversions whose objects are fully / partially / not regularised) are evaluated by the real code; every scalar statistic, derived map, evidence term, the evidence composition and the figure-of-merit selection are compared with their definitions on values[~mask], and two native datasets differing only in masked pixels must give bit-identical statistics. Exploration.", "DESIGN.md 3/C08"),
 "C02": ("runtime monitoring: closed-formula reference model next to the real geometry / mask-constructor code on seeded shapes, scales, origins and near-boundary query points; icontract contracts on the five mask_2d_*_from constructors and grid_2d_slim_via_mask_from",
         "Seeded geometries over all four shape-parity classes (square, 1xN and tiny shapes forced), anisotropic scales, origins up to +-100 pixels with unequal components: every pixel centre, extent, scalar and grid index conversion (3-4 interior, near-edge and near-corner points per pixel, 1e-8 px outside the tie band), both continuous compositions, and all five shape-based constructors with critical radii placed 1e-8..1e-5 either side of a pixel's radius are compared with the statement's formulas; tie-band points/pixels are counted as don't-care. Exploration.", "DESIGN.md 3/C02"),
 "C11": ("runtime monitoring: trace checkers over recorded events - byte fingerprints of caller-owned inputs at the exit of ~400 wrapped public entry points, a cached-property trace (compute / hit / inherited), baseline-vs-history comparison of every public quantity, derived-object consistency, default-object fingerprints, repetition with perturbed global RNG",
         "Seeded object graphs (inversion -> mappers -> grids -> mask, fit -> dataset, valued mapper -> mapper, both formalisms, module defaults) are read in random access histories with repetition; every read must equal the value the quantity has when read first on a fresh equal graph, every cached-property hit must return the bytes recorded at compute time, inherited cache entries must equal the object's own computation, every registered caller-owned array / settings / preloads object must keep its fingerprint across every wrapped call, derived structures and datasets (arithmetic, slicing, copy, invert, apply_mask, trimming, over-sampling, noise scaling) must report quantities consistent with their own contents with and without prior reads on the source, shared default objects must not change, and seeded simulations must not depend on the global RNG. One known finding (MapperValued.values_masked) is listed. Exploration over bounded histories.", "DESIGN.md 3/C11"),
 "C14": ("runtime monitoring: all shape combinations in a bound executed through the real resize / pad / trim / apply_mask / zoom code with unique-valued arrays and a coordinate-attachment oracle; icontract contracts on resized_array_2d_from and the resize/pad/trim methods",
         "Every (H,W,H',W') in [1,7]^4 (quick) / [1,10]^4 (thorough), every (H,W) x odd kernels {1,3,5,7}^2, automatically padded datasets and zoom windows are run with unique-valued arrays: resized arrays/masks must be the centred crop/embedding (either nearest placement on a parity change, the same for array and mask), pad->trim and grow->shrink must be identities, with parity preserved every surviving value must keep its scaled coordinate (computed by the C02 formula on the result's own geometry and by Grid2D.from_mask), (coordinate, data, noise) triples of automatically padded datasets must be unchanged, and one integer offset must map every unmasked pixel into the zoom window. Shapes enumerated, masks/values sampled. Exploration.", "DESIGN.md 3/C14"),
 "C12": ("runtime monitoring: metamorphic comparison of two whole executions (origin o vs o+d) over every listed entry point, classified per entry point",
         "The same world (mask bits, scales, values, identical random draws relative to the origin) is built at o and at o+d with tiny, order-of-scale, large (100 pixel scales), integer- and half-integer-pixel translations; ~45 public results per pair (grids, derived masks, zoom, padding, over-sampling, border relocation, overlay and Hilbert meshes, masked / noise-scaled / over-sampled / trimmed / simulated datasets, S/N-limited noise maps, pixel indexes of translated points, mapper tables and matrices) must translate by exactly d or stay unchanged; floating-point ties (overlay points on pixel boundaries, degenerate triangulations) are detected independently and counted as don't-care. Exploration.", "DESIGN.md 3/C12"),
 "C13": ("runtime monitoring: the real TransformerDFT / transformer_util / InversionInterferometerMapping executed next to a dense reference operator exp(-2 pi i (x u + y v)); adjoint inner-product identity",
         "Seeded masks, anisotropic scales, origins and baseline sets (zero and duplicate baselines, up to 1e6 wavelengths) are transformed by the real code with and without preloaded tables, for slim- and native-stored signed images and four kinds of mapping matrix (tiny, signed, sparse); visibilities, transformed matrices, the adjoint image (also via <AI,V>=<I,A^H V>) and the interferometer data vector / curvature matrix / mapped data are compared with the dense operator built from the C02 pixel-centre formula. pylops is replaced by the minimal base-class stand-in the property allows. Exploration.", "DESIGN.md 3/C13"),
 "C15": ("runtime monitoring: metamorphic comparison of preloaded vs fresh inversions over slot subsets and reuse sequences, byte fingerprints of the Preloads object, sys.monitoring call counters proving each slot short-circuited",
         "For seeded inversion inputs in both formalisms every subset of the five public preload slots (8 representative subsets quick, all 32 thorough), filled from a separate identical computation on a twin dataset, is shared by three successive inversions on fresh dataset objects: all outputs must equal the fresh computation, reuses must be bit-identical, the preloaded curvature matrix and every other slot must keep their bytes, call counters must show that the replaced computation did not run, the factory's formalism choice (via settings or preloads) must not change values and a w_tilde preloaded for another noise map must be rejected. Exploration.", "DESIGN.md 3/C15"),
}
REASON_WIP = "check not built yet in this revision (work in progress; the property is decidable by runtime monitoring, see DESIGN.md section 3)"
ALL = ["C%02d" % i for i in range(1, 21)]
checks, na = [], []
for pid in ALL:
    if pid in T and os.path.exists(f"{V}/harness/props/{pid.lower()}.py"):
        tech, text, ref = T[pid]
        checks.append({
            "property_id": pid,
            "quick_cmd": f"{PY} {pid} --tier quick",
            "thorough_cmd": f"{PY} {pid} --tier thorough",
            "evidence_file": f"evidence/{pid}.json",
            "replay_cmd_template": f"/venv/bin/python -m harness.run {pid} --replay {{path}}",
            "engine": "harness",
            "level_claimed": {"category": "exploration", "text": text, "design_ref": ref},
            "level_note": TRUST,
            "technique": tech,
        })
    else:
        na.append({"property_id": pid, "reason": REASON_WIP})
m = {
 "version": 1,
 "setup_cmd": SETUP,
 "hooks": {
   "guard": "PYAUTOARRAY_VERIF",
   "enable": "No source hooks are needed in /repo: every monitor (icontract contracts, cached-property trace, fingerprints, sys.monitoring reach counters, audit hook) is attached from the harness at run time by rebinding module/class attributes. harness.run sets PYAUTOARRAY_VERIF=1 for itself and its workers and the instrumentation layer refuses to install without it; /repo never reads the variable.",
   "baseline_off_cmd": "cd /repo && /venv/bin/python -m pytest -ra -q -p no:cacheprovider --timeout=900 --continue-on-collection-errors",
   "source_commits": [],
   "add_only": True,
 },
 "engines": [{"name": "harness", "path": "harness/", "serves_properties": [c["property_id"] for c in checks],
              "kind_free_text": "runtime monitoring: the real code is executed under enumerated / seeded hostile workloads while icontract contracts on the real functions, reference-model oracles, trace checkers and metamorphic monitors observe it; sharded over subprocess workers; three-valued verdicts"}],
 "checks": checks,
 "notes": "All checks run /repo's current working tree (pure Python: the import is the rebuild). VERIF_SEED / VERIF_TIER / VERIF_JOBS are honoured. Known findings: known_findings.json. Design: DESIGN.md.",
 "not_applicable": na,
}
json.dump(m, open(f"{V}/MANIFEST.json", "w"), indent=1)
print("checks", len(checks), "not_applicable", len(na))
