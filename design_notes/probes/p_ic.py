import sys; sys.path.insert(0,'/tmp/deps_test')
from common import *
import icontract, time
from autoarray.structures.arrays import array_2d_util
class PostBroken(Exception): pass
count=[0]
def centred(array_2d, resized_shape, result, origin=(-1,-1), pad_value=0.0):
    count[0]+=1
    return result.shape==tuple(resized_shape)
orig=array_2d_util.resized_array_2d_from
array_2d_util.resized_array_2d_from=icontract.ensure(centred,error=PostBroken)(orig)
a=aa.Array2D.no_mask(values=np.ones((4,4)),pixel_scales=1.0)
t=time.time()
for i in range(200): a.resized_from((6,6))
print('calls seen by contract',count[0], 'time', time.time()-t)
# cached property hook
from autoconf.tools import decorators as dec
events=[]
og=dec.CachedProperty.__get__
def hooked(self,obj,cls):
    if obj is None: return self
    name=self.func.__name__
    hit = name in obj.__dict__
    val=og(self,obj,cls)
    events.append((type(obj).__name__,name,'hit' if hit else 'compute'))
    return val
dec.CachedProperty.__get__=hooked
g=aa.Grid2D.uniform(shape_native=(3,3),pixel_scales=1.0); g.is_uniform; (g*2).is_uniform
print(events)
import sys
print(hasattr(sys,'monitoring'))
