from common import *
rng=np.random.default_rng(3)
def circ(shape,ps,origin,r=None):
    return aa.Mask2D.circular(shape_native=shape,pixel_scales=ps,radius=r or 1.6*ps[0],origin=origin)
d=(0.37,-1.21)
ps=(0.5,0.5)
shape=(9,9)
m0=circ(shape,ps,(0.0,0.0)); m1=circ(shape,ps,d)
def diff(a,b): 
    a=np.array(a,dtype=float); b=np.array(b,dtype=float)
    return np.abs(a-b).max()
def chk(name,f,coord=True):
    try:
        a=f(m0); b=f(m1)
        a=np.array(a,dtype=float); b=np.array(b,dtype=float)
        if coord:
            sh=np.array(d) if a.shape[-1]==2 else None
            exp = a+sh
        else: exp=a
        print(f'{name:45s}', 'OK' if a.shape==b.shape and np.allclose(exp,b,atol=1e-9) else f'VIOL maxdiff={np.abs(exp-b).max() if a.shape==b.shape else "shape"}')
    except Exception as e:
        print(f'{name:45s} EXC {e!r}'[:200])
chk('Grid2D.from_mask',lambda m: aa.Grid2D.from_mask(m).array)
chk('derive_grid.edge',lambda m: m.derive_grid.edge.array)
chk('derive_grid.border',lambda m: m.derive_grid.border.array)
chk('blurring_grid',lambda m: aa.Grid2D.blurring_grid_from(m,(3,3)).array)
chk('padded_grid',lambda m: aa.Grid2D.from_mask(m).padded_grid_from((3,3)).array)
chk('oversampled',lambda m: aa.OverSamplerUniform(mask=m,sub_size=2).over_sampled_grid.array)
chk('border_relocator.sub_grid',lambda m: aa.BorderRelocator(mask=m,sub_size=2).sub_grid)
chk('mask_centre',lambda m: np.array(m.mask_centre))
chk('zoom_mask_unmasked grid',lambda m: aa.Grid2D.from_mask(m.zoom_mask_unmasked).array)
chk('zoomed_around_mask grid',lambda m: aa.Grid2D.from_mask(aa.Array2D(values=np.arange(81.).reshape(9,9),mask=m).zoomed_around_mask(buffer=1).mask).array)
chk('resized_from grid',lambda m: aa.Grid2D.from_mask(m.resized_from((11,13))).array)
chk('radial_projected',lambda m: aa.Grid2D.from_mask(m).grid_2d_radial_projected_from(centre=tuple(np.array(m.origin)+0.1)).array)
chk('overlay mesh',lambda m: aa.image_mesh.Overlay(shape=(4,4)).image_plane_mesh_grid_from(mask=m).array)
def hil(m):
    ad=aa.Array2D(values=np.ones(m.pixels_in_mask),mask=m)
    return aa.image_mesh.Hilbert(pixels=20,weight_floor=0.1,weight_power=1.0).image_plane_mesh_grid_from(mask=m,adapt_data=ad).array
chk('hilbert mesh',hil)
# datasets
def ds(m):
    sh=m.shape_native
    data=aa.Array2D.no_mask(values=np.arange(81.).reshape(9,9)+1,pixel_scales=ps,origin=m.origin)
    noise=aa.Array2D.no_mask(values=np.ones((9,9)),pixel_scales=ps,origin=m.origin)
    psf=aa.Kernel2D.no_mask(values=np.ones((3,3)),pixel_scales=ps)
    return aa.Imaging(data=data,noise_map=noise,psf=psf)
chk('apply_mask grid',lambda m: ds(m).apply_mask(m).grids.uniform.array)
chk('apply_noise_scaling grid',lambda m: ds(m).apply_noise_scaling(mask=m).grids.uniform.array)
chk('apply_noise_scaling s2n grid',lambda m: ds(m).apply_noise_scaling(mask=m,signal_to_noise_value=2.0).grids.uniform.array)
chk('apply_over_sampling grid',lambda m: ds(m).apply_over_sampling(aa.OverSamplingDataset(uniform=aa.OverSamplingUniform(sub_size=2))).grids.uniform.array)
chk('trimmed grid',lambda m: aa.Grid2D.from_mask(ds(m).trimmed_after_convolution_from((3,3)).data.mask).array)
def sim(m):
    img=aa.Array2D.no_mask(values=np.ones((9,9)),pixel_scales=ps,origin=m.origin)
    s=aa.SimulatorImaging(exposure_time=100.,noise_seed=1,psf=aa.Kernel2D.no_mask(values=np.ones((3,3)),pixel_scales=ps))
    return s.via_image_from(img).grids.uniform.array
chk('simulator grid',sim)
def s2n(m):
    data=aa.Array2D.no_mask(values=np.arange(81.).reshape(9,9)+1,pixel_scales=ps,origin=m.origin)
    noise=aa.Array2D.no_mask(values=np.ones((9,9)),pixel_scales=ps,origin=m.origin)
    nm=aa.preprocess.noise_map_with_signal_to_noise_limit_from(data,noise,5.0)
    return aa.Grid2D.from_mask(nm.mask).array
chk('s2n limit noise map grid',s2n)
