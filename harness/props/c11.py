"""
C11 - queries are pure: no input mutation, no order dependence, deterministic.

History property, decided by trace checkers over what the monitors record while the real code runs:
  input_fingerprint        (harness/monitors/fingerprints.py) every object the harness creates and hands to the library -
                           native arrays, masks, kernels, values, settings / preloads objects, function-list matrices - is
                           registered as caller-owned; ~700 public entry points (constructors, classmethods, methods,
                           properties of the structure / dataset / mapper / inversion classes, the inversion factory, the
                           preprocess functions) are wrapped, and at the exit of every wrapped call all registered
                           fingerprints are recomputed; a change is attributed to the innermost running callee
  cache.hit_unchanged      (harness/monitors/cachetrace.py) every read of a cached property must return the bytes recorded
                           when it was computed (in-place edits of cached arrays)
  cache.inherited_matches  a cached entry that an object did not compute itself (copied by copy / with_new_array / dataset
                           shallow copies) must equal what the object computes for itself
  order.matches_baseline   every public quantity (properties, cached properties, zero-argument query methods, public
                           instance attributes; plotting / I/O excluded) read at any point of a random access history equals
                           the value it has when read first on a fresh, equal object graph (bit-identical)
  derived.consistent       quantities of x*2, x+x, -x, x[a:b], x.copy(), abs(x).sqrt(), x/3, mask.invert(), apply_mask,
                           trimmed_after_convolution_from, apply_over_sampling, resized_from computed after everything was read
                           on the source equal those of the same derivation of a fresh source without reads
  defaults.unchanged       fingerprints of the module-level default SettingsInversion / Preloads / OverSamplingDataset objects
  deterministic            repeating a computation with equal inputs gives identical results; SimulatorImaging(noise_seed=k)
                           is independent of the prior state of the global NumPy generator
Known finding (listed in known_findings.json, classifier c11_values_masked_inplace): MapperValued.values_masked zeroes the
caller-owned `values` array in place (a baseline test depends on the aliasing, so it is recorded, not repaired).
validated against (scratch copies, suite green): reverting each of the repairs D8-D13, removing the .copy() in
convert_array_2d, returning preloads.curvature_matrix without the defensive copy, caching regularization_matrix on the
regularization object, seeding the noise with seed + a global draw.
"""
import inspect

import numpy as np

from harness import env, gen, gen_aa
from harness.monitors import cachetrace, fingerprints
from harness.monitors.fingerprints import value_fp, state_fp

ID = "C11"
NO = 11
RULE = ("seeded object graphs (inversion -> mappers -> grids -> mask, fit -> dataset, valued mapper -> mapper; both formalisms; "
        "structures of every class) x random access histories with repetition (20 steps quick / 60 thorough, plus the adversarial "
        "prefixes 'read everything then derive' and 'derive then read'); a case = one history or one (structure class, derivation) "
        "pair or one entry-point sweep; distinct by hash of (graph seed, history) ; non-trivial = history with >= 2 distinct "
        "quantities read (or a derivation applied after reads)")
BOUNDS = {"quick": "6 graphs x (baseline of every public quantity + 12 histories of 20 steps) + 9 structure classes x 8 derivations x 2 + dataset derivations (slim / native+covariance) + 16 entry-point sweeps (every extra preload slot in every second one) + 12 determinism cases (boundary seeds 0, 1, 2^32-1)",
          "thorough": "160 graphs x 60 histories of 60 steps + derivations x 32 seeds + 320 sweeps + 640 determinism cases"}
EXHAUSTIVE = {"quick": False, "thorough": False}
ASSUMPTIONS = ["quantities whose value is a non-array object are compared by type only",
               "histories of bounded length over the quantities reachable by introspection; a leak needing a longer sequence is missed",
               "the in-place F+H fast path of curvature_reg_matrix (buffer reused, cache entry dropped) is legitimate: later reads recompute F"]
QUICK_JOBS = 12
MIN_MONITORS = {"*": {"history.same_bytes_other_shape": 50, "input_fingerprint": 200, "cache.hit_unchanged": 200, "order.matches_baseline": 200, "derived.consistent": 100, "derived.matches_rebuild": 100,
                      "defaults.unchanged": 3, "deterministic": 10, "deterministic.simulator_seed": 4, "sweep.apply_over_sampling_keeps_own_scheme": 2,
                      "param.order_independent": 200, "param.repeat_equal": 200, "param.grid_argument_untouched": 20, "param.arguments_untouched": 10,
                      "param.earlier_results_keep_their_value": 10, "global_state.numpy_error_handling_unchanged": 10}}
SKIP_NAMES = ("plot", "output", "fits", "hdu", "visual", "json", "pickle", "run_time", "profile", "logger", "instance_flatten", "instance_unflatten")
SKIP_QUANT = {"reconstruction_noise_map_with_covariance", "reconstruction_noise_map", "reconstruction_noise_map_dict", "errors", "errors_with_covariance",
              "errors_dict", "T", "flat", "base", "ctypes", "data_ptr"}


def plan(tier, seed):
    ng = 6 if tier == "quick" else 160
    units = [{"kind": "hist", "g": g, "w": 6} for g in range(ng)]
    nd = 2 if tier == "quick" else 32
    units += [{"kind": "derive", "s": s, "w": 3} for s in range(nd)]
    ns = 16 if tier == "quick" else 320
    units += [{"kind": "sweep", "start": s, "stop": s + 2, "w": 2} for s in range(0, ns, 2)]
    nq = 12 if tier == "quick" else 640
    units += [{"kind": "determ", "start": s, "stop": s + 4, "w": 2} for s in range(0, nq, 4)]
    npar = 12 if tier == "quick" else 480
    units += [{"kind": "param", "start": s, "stop": s + 4, "w": 3} for s in range(0, npar, 4)]
    return units


# ----------------------------------------------------------------------------------------- setup
def setup(ctx):
    aa = ctx.aa = env.boot("base", pylops=True)
    cachetrace.install(ctx)
    T = ctx.tracker = fingerprints.Tracker(ctx)
    import autoarray.inversion.inversion.factory as fac
    from autoarray.dataset import preprocess
    from autoarray.inversion.inversion.imaging.mapping import InversionImagingMapping
    from autoarray.inversion.inversion.imaging.w_tilde import InversionImagingWTilde
    from autoarray.inversion.inversion.abstract import AbstractInversion
    from autoarray.inversion.pixelization.mappers.abstract import AbstractMapper
    from autoarray.inversion.pixelization.mappers.rectangular import MapperRectangular
    from autoarray.inversion.pixelization.mappers.delaunay import MapperDelaunay
    n = 0
    targets = [aa.Array2D, aa.Grid2D, aa.VectorYX2D, aa.Kernel2D, aa.Mask2D, aa.Mask1D, aa.Imaging, aa.Array1D, aa.Grid1D, aa.Visibilities,
               aa.VisibilitiesNoiseMap, aa.MapperValued, aa.MapperGrids, aa.Convolver, aa.SimulatorImaging, aa.BorderRelocator, aa.OverSamplerUniform,
               aa.Grid2DIrregular, aa.Mesh2DRectangular, aa.Mesh2DDelaunay, aa.FitImaging, AbstractInversion, InversionImagingMapping,
               InversionImagingWTilde, AbstractMapper, MapperRectangular, MapperDelaunay]
    for base in list(targets):
        for k in base.__mro__[1:]:
            if k.__module__.startswith("autoarray") and k not in targets:
                targets.append(k)
    for Tg in targets:
        n += T.watch_public(Tg, skip=("mask",) if False else ())
    for fn in ("inversion_from", "inversion_imaging_from", "inversion_interferometer_from"):
        n += bool(T.watch(fac, fn))
    aa.Inversion = fac.inversion_from
    for name, a in list(vars(preprocess).items()):
        if inspect.isfunction(a) and not name.startswith("_") and a.__module__ == preprocess.__name__:
            n += bool(T.watch(preprocess, name))
    ctx.reach["wrapped_entry_points"] = n
    # module-level default argument objects shared by every call that omits the argument
    ctx.defaults = []
    ctx.numpy_error_state = dict(np.geterr())
    for label, fn, arg in (("factory.inversion_from.settings", fac.inversion_from, "settings"), ("factory.inversion_from.preloads", fac.inversion_from, "preloads"),
                           ("factory.inversion_imaging_from.settings", fac.inversion_imaging_from, "settings"),
                           ("factory.inversion_interferometer_from.settings", fac.inversion_interferometer_from, "settings"),
                           ("Imaging.__init__.over_sampling", aa.Imaging.__init__, "over_sampling"),
                           ("Imaging.apply_over_sampling.over_sampling", aa.Imaging.apply_over_sampling, "over_sampling")):
        f = getattr(fn, "__verif_original__", fn)
        try:
            d = inspect.signature(f).parameters[arg].default
            ctx.defaults.append([label, d, state_fp(d)])
        except Exception:
            pass
    # ... and, generically, every mutable default argument object of every function / method defined in the package
    import sys as _sys
    seen_ids = {id(r[1]) for r in ctx.defaults}

    def scan(fn_obj, label):
        f = getattr(fn_obj, "__verif_original__", fn_obj)
        f = getattr(f, "__wrapped__", f)
        if not inspect.isfunction(f):
            return
        ds = list(f.__defaults__ or ()) + list((f.__kwdefaults__ or {}).values())
        for d in ds:
            if d is None or isinstance(d, (bool, int, float, complex, str, bytes, tuple, frozenset, type)) or id(d) in seen_ids:
                continue
            try:
                ctx.defaults.append([label + ":default", d, state_fp(d)])
                seen_ids.add(id(d))
            except Exception:
                pass

    for mname, mod in list(_sys.modules.items()):
        if not mname.startswith("autoarray") or mod is None:
            continue
        for nm, obj in list(vars(mod).items()):
            if inspect.isfunction(obj) and getattr(obj, "__module__", "") == mname:
                scan(obj, mname + "." + nm)
            elif inspect.isclass(obj) and getattr(obj, "__module__", "") == mname:
                for mn_, meth in list(vars(obj).items()):
                    meth = meth.__func__ if isinstance(meth, (classmethod, staticmethod)) else meth
                    scan(meth, mname + "." + nm + "." + mn_)
    ctx.reach["mutable_default_objects_fingerprinted"] = len(ctx.defaults)

    class VerifFit(aa.FitImaging):
        def __init__(self, dataset, model, inv=None, **k):
            super().__init__(dataset=dataset, **k)
            self._m = model
            self._inv = inv

        @property
        def model_data(self):
            return self._m

        @property
        def inversion(self):
            return self._inv

    ctx.Fit = VerifFit
    ctx.param_profiles = _profiles(aa)


def teardown(ctx):
    check_defaults(ctx, "teardown")
    fingerprints.unwatch_all()
    cachetrace.uninstall()
    ev = cachetrace.events()
    for k, v in ev.items():
        ctx.reach["cached_property_events:" + k] += v


def check_defaults(ctx, where):
    # process-wide numeric state is shared state too: what the library reads or computes must leave NumPy's floating point error
    # handling as the caller set it (a query that calls np.seterr changes how every later computation treats division by zero)
    now = dict(np.geterr())
    if getattr(ctx, "numpy_error_state", None) is None:
        ctx.numpy_error_state = now
    ctx.check(now == ctx.numpy_error_state, "global_state.numpy_error_handling_unchanged", where=where, before=ctx.numpy_error_state, now=now)
    ctx.numpy_error_state = now
    for rec in ctx.defaults:
        h = state_fp(rec[1])
        ctx.check(h == rec[2], "defaults.unchanged", default=rec[0], where=where, state=lambda: ({k: repr(v)[:60] for k, v in vars(rec[1]).items()} if hasattr(rec[1], "__dict__") else repr(rec[1])[:200]))
        rec[2] = h


def _np(x):
    return np.asarray(x.array if hasattr(x, "array") and not isinstance(x, np.ndarray) else x)


# ----------------------------------------------------------------------------------------- quantities
def quantities(obj):
    from autoconf.tools.decorators import CachedProperty
    names = set()
    for klass in type(obj).__mro__:
        if klass is object:
            continue
        for n, a in vars(klass).items():
            if n.startswith("_") or any(s in n.lower() for s in SKIP_NAMES) or n in SKIP_QUANT:
                continue
            a = getattr(a, "__verif_original__", a)
            if isinstance(a, (property, CachedProperty)):
                names.add(n)
            elif inspect.isfunction(a):
                try:
                    ps = list(inspect.signature(a).parameters.values())
                except (TypeError, ValueError):
                    continue
                if len(ps) == 1 and ps[0].name == "self" and not any(n.startswith(p) for p in ("apply", "set_", "update", "reset", "clear")):
                    names.add(n + "()")
    for n in getattr(obj, "__dict__", {}):
        if not n.startswith("_") and not any(s in n.lower() for s in SKIP_NAMES) and n not in SKIP_QUANT:
            names.add(n)
    return sorted(names)


def read(obj, name):
    try:
        v = getattr(obj, name[:-2])() if name.endswith("()") else getattr(obj, name)
        return value_fp(v)
    except Exception as e:
        return "EXC:" + type(e).__name__


# ----------------------------------------------------------------------------------------- object graphs
def build_graph(ctx, gseed, own=True):
    """Deterministic object graph; `own` registers the caller-owned inputs with the tracker."""
    aa = ctx.aa
    T = ctx.tracker
    rng = gen.rng_for(ctx.seed, NO, 1, gseed)
    use_w = bool(gseed % 2)
    case = gen_aa.imaging_case(aa, rng, kshapes=(1, 3), max_unmasked=20, kernel_kind="positive" if gseed % 3 == 0 else None)
    objs, desc = gen_aa.linear_objects(aa, rng, case, nobj=1 + gseed % 2, kinds=("rect", "del", "func") if gseed % 2 else ("rect", "del"),
                                       allow_unregularized=(gseed % 4 == 3))
    if not any(d["kind"] != "func" for d in desc):
        mp, d = gen_aa.mapper(aa, rng, case["mask"], case["ds"].grids.pixelization.over_sampler, "rect", aa.reg.Constant(coefficient=1.0))
        objs.insert(0, mp)
        desc.insert(0, dict(d, regularized=True))
    st = aa.SettingsInversion(use_w_tilde=use_w, use_positive_only_solver=bool(gseed % 5 == 4), no_regularization_add_to_curvature_diag_value=1e-3)
    ds = case["ds"]
    if gseed % 3 == 1:
        inv = aa.Inversion(dataset=ds, linear_obj_list=objs)          # module defaults for settings and preloads
    else:
        inv = aa.Inversion(dataset=ds, linear_obj_list=objs, settings=st)
    mapper = [o for o in objs if isinstance(o, aa.AbstractMapper)][0]
    vals = 1.0 + rng.random(int(mapper.params))
    pm = np.arange(int(mapper.params)) < 2
    mv = aa.MapperValued(mapper=mapper, values=vals, mesh_pixel_mask=pm if gseed % 2 == 0 else None)
    g = {"inversion": inv, "mapper": mapper, "dataset": ds, "grids": ds.grids, "grid_pixelization": ds.grids.pixelization, "grid_uniform": ds.grids.uniform,
         "mask": ds.mask, "data": ds.data, "noise_map": ds.noise_map, "psf": ds.psf, "mapper_valued": mv, "mesh": mapper.source_plane_mesh_grid,
         "over_sampler": ds.grids.pixelization.over_sampler}
    if gseed % 2 == 0:
        model = aa.Array2D(values=case["d"][~case["m"]] * 0.9, mask=case["mask"])
        g["fit"] = ctx.Fit(ds, model, None)
    else:
        g["fit_with_inversion"] = ctx.Fit(ds, None, inv)
        g["fit_with_inversion"]._m = None
    if own:
        T.clear()
        T.context = {"graph": gseed, "formalism": "w_tilde" if use_w else "mapping", "mesh_pixel_mask": bool(gseed % 2 == 0)}
        cachetrace.set_context(graph=gseed)
        T.own("values", vals)
        T.own("mesh_pixel_mask", pm)
        T.own("mask", case["mask"])
        T.own("linear_obj_list", [o._M for o in objs if hasattr(o, "_M")])
        T.own_state("settings", st)
    return g, desc


class LazyModelFit:
    pass


# ----------------------------------------------------------------------------------------- histories
def run_hist(ctx, u):
    gseed = u["g"]
    rng = gen.rng_for(ctx.seed, NO, 2, gseed)
    T = ctx.tracker
    g0, desc = build_graph(ctx, gseed, own=False)
    names = [(k, n) for k, o in g0.items() for n in quantities(o)]
    if "fit_with_inversion" in g0:
        names = [(k, n) for (k, n) in names if not (k == "fit_with_inversion" and n in ("model_data",))]
    # baseline: every quantity read first on a fresh, equal graph
    base = {}
    T.clear()
    for (k, n) in names:
        g, _ = build_graph(ctx, gseed, own=False)
        if "fit_with_inversion" in g:
            g["fit_with_inversion"]._m = g["inversion"].mapped_reconstructed_data if n != "inversion" else None
        base[(k, n)] = read(g[k], n)
    ctx.classes["baseline_quantities"] += len(names)
    ctx.classes["baseline_quantities_raising"] += sum(v.startswith("EXC") for v in base.values())
    nh = 12 if ctx.tier == "quick" else 60
    steps = 20 if ctx.tier == "quick" else 60
    for h in range(nh):
        key = "hist:%d:%d" % (gseed, h)
        if not ctx.begin(key):
            continue
        g, _ = build_graph(ctx, gseed, own=True)
        if "fit_with_inversion" in g:
            g["fit_with_inversion"]._m = g["inversion"].mapped_reconstructed_data
        if h == 0:
            order = list(names) + [names[i] for i in rng.permutation(len(names))[:steps]]        # read everything, then re-read
        elif h == 1:
            order = [names[i] for i in rng.permutation(len(names))]                              # one full random permutation
        else:
            order = [names[int(i)] for i in rng.integers(len(names), size=steps)]                # short random history with repetition
        hist = []
        for (k, n) in order:
            v = read(g[k], n)
            hist.append(k + "." + n)
            ctx.check(v == base[(k, n)], "order.matches_baseline", quantity=k + "." + n, baseline=base[(k, n)][:70], got=v[:70],
                      earlier_reads=hist[-8:-1], same_object_queried_earlier=any(x.startswith(k + ".") and x != k + "." + n for x in hist[:-1]),
                      graph=gseed, objects=desc, mesh_pixel_mask=bool(gseed % 2 == 0))
        T.verify("end_of_history")
        check_defaults(ctx, key)
        ctx.case(gseed, hist, nontrivial=len(set(hist)) >= 2, cls=["history", "formalism:" + ("w_tilde" if gseed % 2 else "mapping"), "history_kind:%d" % min(h, 2)],
                 sample=lambda: {"graph": gseed, "objects": desc, "history_head": hist[:12], "length": len(hist)})


# ----------------------------------------------------------------------------------------- derivations
def structures(ctx, seed):
    aa = ctx.aa
    rng = gen.rng_for(ctx.seed, NO, 3, seed)
    m, _ = gen.random_mask(rng, 5, 6, family="bernoulli")
    ps = (0.5, 0.5)
    n = int((~m).sum())
    vals = rng.normal(size=n)
    vec = rng.normal(size=(n, 2))
    cv = rng.normal(size=5) + 1j * rng.normal(size=5)
    cn = rng.uniform(1, 2, size=5) + 1j * rng.uniform(1, 2, size=5)
    kv = rng.random((3, 3))
    a1 = rng.normal(size=5)

    def mask():
        return aa.Mask2D(mask=m.copy(), pixel_scales=ps, origin=(0.1, 0.2))

    return {
        "Array2D": lambda: aa.Array2D(values=vals.copy(), mask=mask()),
        "Array2D(native)": lambda: aa.Array2D(values=vals.copy(), mask=mask()).native,
        "Grid2D": lambda: aa.Grid2D.from_mask(mask=mask(), over_sampling=aa.OverSamplingUniform(sub_size=2)),
        "Grid2D.uniform": lambda: aa.Grid2D.uniform(shape_native=(4, 4), pixel_scales=0.5),
        "VectorYX2D": lambda: aa.VectorYX2D.from_mask(values=vec.copy(), mask=mask()),
        "Visibilities": lambda: aa.Visibilities(visibilities=cv.copy()),
        "VisibilitiesNoiseMap": lambda: aa.VisibilitiesNoiseMap(visibilities=cn.copy()),
        "Mask2D.circular": lambda: aa.Mask2D.circular(shape_native=(7, 7), radius=1.6, pixel_scales=0.5),
        "Mask2D": mask,
        "Kernel2D": lambda: aa.Kernel2D.no_mask(values=kv.copy(), pixel_scales=0.5),
        "Array1D": lambda: aa.Array1D.no_mask(values=a1.copy(), pixel_scales=0.5),
        "Grid2DIrregular": lambda: aa.Grid2DIrregular(values=vec.copy()),
    }


OPS = {"mul2": lambda x: x * 2.0, "add_self": lambda x: x + x, "neg": lambda x: -x, "slice": lambda x: x[1:3], "copy": lambda x: x.copy(),
       "abs_sqrt": lambda x: abs(x).sqrt(), "div3": lambda x: x / 3.0, "rsub": lambda x: 1.0 - x, "invert": lambda x: x.invert(),
       "subtracted_from": lambda x: x.subtracted_from(offset=(0.3, -0.7)), "apply_mask_self": lambda x: x.apply_mask(mask=x.mask)}


def rebuild(aa, d):
    """A fresh object of the same class constructed from the derived object's own contents (None if not supported)."""
    a = np.array(d.array, copy=True)
    n = type(d).__name__
    if n == "Array2D":
        # skip_mask: a native-stored derived array may legitimately hold non-zero values at masked positions in its raw
        # buffer (its .native / .slim views zero / drop them); the rebuild must start from exactly the same contents
        return aa.Array2D(values=a, mask=d.mask, header=getattr(d, "header", None), store_native=(a.ndim == 2), skip_mask=True)
    if n in ("Grid2D", "VectorYX2D") and a.ndim == 3 and np.any(a[np.asarray(d.mask.array if hasattr(d.mask, "array") else d.mask, bool)] != 0):
        return None        # the constructors of native grids always re-mask: the contents would change
    if n == "Grid2D":
        return aa.Grid2D(values=a, mask=d.mask, store_native=(a.ndim == 3), over_sampling=d.over_sampling)
    if n == "VectorYX2D":
        return aa.VectorYX2D(values=a, grid=np.array(d.grid.array, copy=True), mask=d.mask, store_native=(a.ndim == 3))
    if n == "Visibilities":
        return aa.Visibilities(visibilities=a)
    if n == "VisibilitiesNoiseMap":
        return aa.VisibilitiesNoiseMap(visibilities=a)
    if n == "Kernel2D":
        return aa.Kernel2D(values=a, mask=d.mask, header=getattr(d, "header", None), store_native=(a.ndim == 2))
    if n == "Array1D":
        return aa.Array1D(values=a, mask=d.mask, header=getattr(d, "header", None), store_native=True) if False else aa.Array1D(values=a, mask=d.mask, header=getattr(d, "header", None))
    if n == "Grid2DIrregular":
        return aa.Grid2DIrregular(values=a)
    if n == "Mask2D":
        return aa.Mask2D(mask=a, pixel_scales=d.pixel_scales, origin=d.origin)
    return None


def run_derive(ctx, u):
    aa = ctx.aa
    seed = u["s"]
    T = ctx.tracker
    T.clear()
    for sn, mk in structures(ctx, seed).items():
        for on, op in OPS.items():
            is_mask = sn.startswith("Mask2D")
            if (on == "invert") != is_mask and on != "copy":
                continue
            key = "derive:%d:%s:%s" % (seed, sn, on)
            if not ctx.begin(key):
                continue
            try:
                fresh = op(mk())
            except Exception:
                ctx.skipped["derive:operation_not_supported:%s" % on] += 1
                continue
            names = quantities(fresh)
            basev = {}
            for n in names:
                basev[n] = read(op(mk()), n)
            for variant in ("read_all_then_derive", "derive_then_read"):
                x = mk()
                if variant == "read_all_then_derive":
                    for n in quantities(x):
                        read(x, n)
                src_before = {n: read(x, n) for n in quantities(x)} if variant == "read_all_then_derive" else None
                d = op(x)
                for n in names:
                    v = read(d, n)
                    ctx.check(v == basev[n], "derived.consistent", structure=sn, operation=on, quantity=n, variant=variant, fresh=basev[n][:70], got=v[:70])
                if src_before is not None:
                    # deriving an object changes nothing the source reports, and deriving a second time gives the same object again
                    for n, b in src_before.items():
                        a_ = read(x, n)
                        ctx.check(a_ == b, "order.matches_baseline", quantity="source_structure." + n, baseline=b[:70], got=a_[:70], earlier_reads=["derive:" + on],
                                  graph="structure-derivation:" + sn)
                    d2 = op(x)
                    for n in names:
                        v2 = read(d2, n)
                        ctx.check(v2 == basev[n], "derived.consistent", structure=sn, operation=on, quantity=n, variant="second_derivation_from_the_same_source",
                                  fresh=basev[n][:70], got=v2[:70])
                # a derived object must report quantities consistent with its own contents: compare with a fresh object of
                # the same class constructed from those contents
                try:
                    rb = rebuild(aa, d)
                except Exception:
                    rb = None
                if rb is None or type(rb) is not type(d):
                    ctx.skipped["rebuild_not_supported:" + type(d).__name__] += 1
                    continue
                for n in names:
                    if n in ("copy()",):
                        continue
                    v, w_ = read(d, n), read(rb, n)
                    ctx.check(v == w_, "derived.matches_rebuild", structure=sn, operation=on, quantity=n, variant=variant, derived=v[:70], rebuilt_from_contents=w_[:70])
            ctx.case(seed, sn, on, nontrivial=True, cls=["derive", "derive:" + on, "class:" + sn], sample=lambda: {"structure": sn, "operation": on, "quantities": len(names)})
    run_same_bytes(ctx, seed)
    run_derive_datasets(ctx, seed)


def run_same_bytes(ctx, seed):
    """Masks with byte-identical flattened content on frames of different shapes, queried one after the other in one process: what
    one mask reports must not depend on the masks queried before it (judged against plain NumPy, not against the library)."""
    aa = ctx.aa
    from harness import ref
    r = gen.rng_for(ctx.seed, NO, 77, seed)
    for j in range(6):
        H, W = [(4, 6), (3, 8), (6, 8), (5, 4), (2, 9), (6, 9)][(j + seed) % 6]
        if not ctx.begin("same_bytes:%d:%d" % (seed, j)):
            continue
        flat = (r.random(H * W) < (0.0 if j % 3 == 0 else 0.4))
        if flat.all():
            flat[0] = False
        shapes = [(H, W), (W, H)] + ([(2, H * W // 2)] if (H * W) % 2 == 0 and H != 2 else [])
        if j % 2:
            shapes = shapes[::-1]
        for shape in shapes + shapes[:1]:
            m = flat.reshape(shape).copy()
            W_ = dict(mask=m, queried_before=[list(x) for x in shapes], this_shape=list(shape))
            mk = aa.Mask2D(mask=m.copy(), pixel_scales=(0.5, 2.0), origin=(1.0, -1.0))
            exp = np.argwhere(~m)
            got = np.asarray(mk.derive_indexes.native_for_slim)
            ctx.check(got.shape == exp.shape and np.array_equal(got, exp), "history.same_bytes_other_shape", quantity="derive_indexes.native_for_slim", expected=exp, got=got, **W_)
            sfn = np.asarray(mk.derive_indexes.slim_for_native) if hasattr(mk.derive_indexes, "slim_for_native") else None
            for nm_slim, nm_nat in (("edge_slim", "edge_native"), ("border_slim", "border_native")):
                try:
                    sl, nat = np.asarray(getattr(mk.derive_indexes, nm_slim)), np.asarray(getattr(mk.derive_indexes, nm_nat))
                    ok = nat.shape == (len(sl), 2) and np.array_equal(nat, exp[sl])
                    ctx.check(ok, "history.same_bytes_other_shape", quantity="derive_indexes." + nm_nat, expected=exp[sl] if ok is False and sl.max(initial=0) < len(exp) else None, got=nat, **W_)
                except Exception as e:
                    ctx.check(False, "history.same_bytes_other_shape", quantity="derive_indexes." + nm_nat, exception=repr(e)[:200], **W_)
            g = np.asarray(aa.Grid2D.from_mask(mask=mk))
            eg = ref.slim_centres(m, (0.5, 2.0), (1.0, -1.0))
            ctx.check(g.shape == eg.shape and bool(np.all(np.abs(g - eg) <= 1e-12)), "history.same_bytes_other_shape", quantity="Grid2D.from_mask", **W_)
        ctx.case("same_bytes", seed, j, nontrivial=True, cls=["same_bytes_other_shape", "frames:%d" % len(shapes)], sample=lambda: {"content_bits": int(flat.sum()), "shapes": [list(x) for x in shapes]})


def run_derive_datasets(ctx, seed):
    aa = ctx.aa
    rng = gen.rng_for(ctx.seed, NO, 4, seed)
    T = ctx.tracker
    H, W = int(rng.integers(7, 10)), int(rng.integers(7, 10))
    d = rng.random((H, W)) + 1
    nz = rng.random((H, W)) + 0.5
    k = rng.random((3, 3)) + 0.1
    m = np.ones((H, W), bool)
    m[2:-2, 2:-2] = rng.random((H - 4, W - 4)) < 0.3
    m[3, 3] = False

    # every second seed: data and noise map stored natively, and a noise covariance matrix on the dataset
    native = bool(seed % 2)
    Zc = rng.normal(size=(H * W, H * W)) * 0.05
    cov = (Zc @ Zc.T + np.diag(nz.ravel() ** 2)) if native else None
    m_b = m.copy()
    m_b[2:-2, 2:-2] &= rng.random((H - 4, W - 4)) < 0.5          # a larger unmasked region that contains the one of `m`

    # the dataset class itself, or a user's subclass of it (a survey-specific dataset): what it inherits behaves the same
    class VerifSurveyImaging(aa.Imaging):
        pass
    cls_ = VerifSurveyImaging if seed % 4 in (0, 3) else aa.Imaging

    def unmasked():
        def arr(v):
            a = aa.Array2D.no_mask(values=v.copy(), pixel_scales=0.4, origin=(0.3, -0.2))
            return a.native if native else a
        return cls_(data=arr(d), noise_map=arr(nz), psf=aa.Kernel2D.no_mask(values=k.copy(), pixel_scales=0.4),
                    noise_covariance_matrix=None if cov is None else cov.copy())

    def mask():
        return aa.Mask2D(mask=m.copy(), pixel_scales=0.4, origin=(0.3, -0.2))

    def mask_b():
        return aa.Mask2D(mask=m_b.copy(), pixel_scales=0.4, origin=(0.3, -0.2))

    derivs = {"apply_mask": lambda ds: ds.apply_mask(mask=mask()), "trimmed_after_convolution_from": lambda ds: ds.trimmed_after_convolution_from(kernel_shape=(3, 3)),
              "apply_over_sampling": lambda ds: ds.apply_over_sampling(over_sampling=aa.OverSamplingDataset(uniform=aa.OverSamplingUniform(sub_size=2), pixelization=aa.OverSamplingUniform(sub_size=2))),
              "apply_noise_scaling": lambda ds: ds.apply_noise_scaling(mask=mask(), noise_value=1e5),
              "apply_mask(other).apply_mask": lambda ds: ds.apply_mask(mask=mask_b()).apply_mask(mask=mask()),
              "apply_mask.trimmed": lambda ds: ds.apply_mask(mask=mask()).trimmed_after_convolution_from(kernel_shape=(3, 3)),
              "apply_mask.apply_over_sampling": lambda ds: ds.apply_mask(mask=mask()).apply_over_sampling(over_sampling=aa.OverSamplingDataset(uniform=aa.OverSamplingUniform(sub_size=2)))}
    sub = ("data", "noise_map", "mask", "psf")
    for on, op in derivs.items():
        key = "derive_ds:%d:%s" % (seed, on)
        if not ctx.begin(key):
            continue

        def table(ds):
            out = {}
            for n in quantities(ds):
                out[n] = read(ds, n)
            try:
                gr = ds.grids
                for gn in ("uniform", "pixelization", "blurring"):
                    out["grids." + gn] = value_fp(getattr(gr, gn))
                out["noise_covariance_matrix"] = value_fp(ds.noise_covariance_matrix)
                out["convolver.kernel"] = value_fp(ds.convolver.kernel)
                out["convolver.mask"] = value_fp(ds.convolver.mask)
                out["w_tilde.curvature_preload"] = value_fp(ds.w_tilde.curvature_preload)
            except Exception as e:
                out["grids/convolver/w_tilde"] = "EXC:" + type(e).__name__
            return out
        try:
            # masking a dataset that was masked before (with a mask containing the new one) is judged against masking directly
            base = table(unmasked().apply_mask(mask=mask())) if on == "apply_mask(other).apply_mask" else table(op(unmasked()))
        except Exception as e:
            ctx.skipped["derive_ds:unsupported:" + on] += 1
            continue
        src = unmasked()
        T.clear()
        T.own("source.data", src.data)
        T.own("source.noise_map", src.noise_map)
        T.own("source.psf", src.psf)
        before_src = table(src)
        okd, dd = ctx.guarded("derived.consistent", lambda: op(src))       # the reference route worked: raising here is a violation
        if not okd:
            continue
        got = table(dd)
        for n in base:
            if on == "apply_mask(other).apply_mask" and any(t in n for t in ("psf", "convolver", "w_tilde")):
                # every apply_mask re-normalises the PSF; normalising twice differs from normalising once by rounding (1 ulp), so
                # the PSF-dependent quantities of the two routes are equal only to rounding and are not compared bit for bit
                ctx.skipped["derive_ds:psf_renormalised_twice(equal_to_rounding_only)"] += 1
                continue
            ctx.check(got.get(n) == base[n], "derived.consistent", structure="Imaging", operation=on, quantity=n, variant="read_all_then_derive", fresh=base[n][:70], got=str(got.get(n))[:70])
        after_src = table(src)
        for n in before_src:
            ctx.check(after_src.get(n) == before_src[n], "order.matches_baseline", quantity="source_dataset." + n, baseline=before_src[n][:70], got=str(after_src.get(n))[:70],
                      earlier_reads=["derive:" + on, "read everything on the derived dataset"], graph="dataset-derivation")
        if cov is not None and on in ("apply_mask", "apply_mask(other).apply_mask"):
            keep = np.flatnonzero(~m.ravel())
            gc = dd.noise_covariance_matrix
            ctx.check(gc is not None and np.array_equal(_np(gc), cov[np.ix_(keep, keep)]), "derived.consistent", structure="Imaging", operation=on,
                      quantity="noise_covariance_matrix (= rows/columns of the unmasked pixels)", variant="against the input matrix",
                      got_shape=None if gc is None else list(_np(gc).shape), expected_shape=[len(keep), len(keep)])
        T.verify("dataset derivation " + on)
        ctx.case("ds", seed, on, nontrivial=True, cls=["derive_dataset", "derive:" + on, "dataset_storage:" + ("native+covariance" if native else "slim"), "dataset_class:" + cls_.__name__], sample=None)


# ----------------------------------------------------------------------------------------- entry-point sweep
def run_sweep(ctx, i):
    """Constructors and public functions called with caller-owned native arrays; every fingerprint must survive."""
    aa = ctx.aa
    T = ctx.tracker
    rng = gen.rng_for(ctx.seed, NO, 5, i)
    if not ctx.begin("sweep:%d" % i):
        return
    from autoarray.dataset import preprocess
    T.clear()
    T.context = {"sweep": i}
    case = gen_aa.imaging_case(aa, rng, kshapes=(1, 3), max_unmasked=20)
    m, mask, ps = case["m"], case["mask"], case["ps"]
    H, W = m.shape
    own = lambda label, x: T.own(label, x)
    nat = own("native_values", rng.normal(size=(H, W)))
    sl = own("slim_values", rng.normal(size=int((~m).sum())))
    gnat = own("native_grid", rng.normal(size=(H, W, 2)))
    gsl = own("slim_grid", rng.normal(size=(int((~m).sum()), 2)))
    kv = own("kernel_values", rng.random((3, 3)) + 0.1)
    own("mask", mask)
    pos = own("positive_native", np.abs(rng.normal(size=(H, W))) + 0.5)
    uv = own("uv_wavelengths", rng.normal(size=(4, 2)) * 1e4)
    cvis = own("complex_visibilities", rng.normal(size=4) + 1j * rng.normal(size=4))
    calls = 0

    def do(fn):
        nonlocal calls
        try:
            r = fn()
            calls += 1
            return r
        except Exception as e:
            ctx.skipped["sweep:raised:" + type(e).__name__] += 1
            return None
    for sn in (False, True):
        do(lambda: aa.Array2D(values=nat, mask=mask, store_native=sn))
        do(lambda: aa.Array2D(values=sl, mask=mask, store_native=sn))
        do(lambda: aa.Grid2D(values=gnat, mask=mask, store_native=sn))
        do(lambda: aa.Grid2D(values=gsl, mask=mask, store_native=sn))
        do(lambda: aa.VectorYX2D(values=gnat, grid=gnat, mask=mask, store_native=sn))
        do(lambda: aa.VectorYX2D(values=gsl, grid=gsl, mask=mask, store_native=sn))
    do(lambda: aa.Array2D.no_mask(values=nat, pixel_scales=ps))
    do(lambda: aa.Grid2D.no_mask(values=gnat, pixel_scales=ps))
    do(lambda: aa.Kernel2D.no_mask(values=kv, pixel_scales=ps, normalize=True))
    do(lambda: aa.Kernel2D.no_mask(values=kv, pixel_scales=ps).normalized)
    do(lambda: aa.Mask2D(mask=m, pixel_scales=ps))
    own("mask_bits", m)
    do(lambda: aa.Visibilities(visibilities=cvis))
    do(lambda: aa.VisibilitiesNoiseMap(visibilities=np.abs(cvis.real) + 1 + 1j * (np.abs(cvis.imag) + 1)))
    do(lambda: aa.Grid2DIrregular(values=gsl))
    do(lambda: aa.Mesh2DDelaunay(values=gsl[:8]))
    data = aa.Array2D.no_mask(values=pos, pixel_scales=ps)
    noise = aa.Array2D.no_mask(values=pos * 0.1 + 0.2, pixel_scales=ps)
    own("unmasked_data", data)
    own("unmasked_noise", noise)
    psf = own("psf", aa.Kernel2D.no_mask(values=kv.copy(), pixel_scales=ps))
    un = do(lambda: aa.Imaging(data=data, noise_map=noise, psf=psf))
    if un is not None:
        own("unmasked_dataset.data", un.data)
        own("unmasked_dataset.noise_map", un.noise_map)
        md = do(lambda: un.apply_mask(mask=mask))
        do(lambda: un.apply_noise_scaling(mask=mask))
        do(lambda: un.apply_noise_scaling(mask=mask, signal_to_noise_value=3.0))
        do(lambda: un.trimmed_after_convolution_from(kernel_shape=(3, 3)))
        osd = T.own_state("over_sampling_argument", aa.OverSamplingDataset(pixelization=aa.OverSamplingUniform(sub_size=3)))
        T.own_state("over_sampling_argument.pixelization", osd.pixelization)
        un2 = do(lambda: aa.Imaging(data=data, noise_map=noise, psf=psf, over_sampling=aa.OverSamplingDataset(uniform=aa.OverSamplingUniform(sub_size=4))))
        r1 = do(lambda: un.apply_over_sampling(over_sampling=osd))
        r2 = do(lambda: un2.apply_over_sampling(over_sampling=osd)) if un2 is not None else None
        if r1 is not None and r2 is not None:
            # equal inputs -> equal results whatever was applied before: the second dataset keeps its own uniform scheme (4x4)
            subs2 = _np(r2.grids.uniform.over_sampler.sub_size) if hasattr(r2.grids.uniform, "over_sampler") else None
            ctx.check(subs2 is not None and int(np.max(subs2)) == 4 and int(np.min(subs2)) == 4, "sweep.apply_over_sampling_keeps_own_scheme",
                      got=subs2, why="a shared OverSamplingDataset argument carried the first dataset's scheme into the second")
        do(lambda: un.apply_over_sampling())
        do(lambda: un.apply_over_sampling(over_sampling=aa.OverSamplingDataset(uniform=aa.OverSamplingUniform(sub_size=2))))
        do(lambda: un.signal_to_noise_map)
        do(lambda: un.signal_to_noise_max)
        if md is not None:
            do(lambda: md.grids.uniform)
            do(lambda: md.convolver)
            do(lambda: md.w_tilde)
    # a classmethod with an optional list argument, called with the argument omitted for two different masks (A, B, A again): equal
    # inputs give equal results whatever was computed in between
    def radial(mk_):
        g_ = aa.Grid2D.from_mask(mask=mk_)
        ext_ = max(H * ps[0], W * ps[1])
        return _np(aa.OverSamplingUniform.from_radial_bins(grid=g_, sub_size_list=[4, 2, 1], radial_list=[0.27 * ext_, 0.55 * ext_, 1e6 * ext_]).sub_size).astype(int)
    m_b = np.roll(m, 1, axis=1)
    if m_b.all():
        m_b = m.copy()
    mask_b = aa.Mask2D(mask=m_b, pixel_scales=ps, origin=(float(rng.normal()), float(rng.normal())))
    ra1 = do(lambda: radial(mask))
    do(lambda: radial(mask_b))
    ra2 = do(lambda: radial(mask))
    if ra1 is not None and ra2 is not None:
        ctx.check(np.array_equal(ra1, ra2), "deterministic", what="OverSamplingUniform.from_radial_bins(default centre) on mask A, then B, then A again", first=ra1, again=ra2)
    do(lambda: preprocess.noise_map_with_signal_to_noise_limit_from(data=data, noise_map=noise, signal_to_noise_limit=2.0))
    do(lambda: preprocess.noise_map_via_weight_map_from(weight_map=data))
    do(lambda: preprocess.noise_map_via_inverse_noise_map_from(inverse_noise_map=data))
    do(lambda: preprocess.data_with_gaussian_noise_added(data=data, sigma=0.1, seed=1))
    etm = own("exposure_time_map", aa.Array2D.full(fill_value=100.0, shape_native=(H, W), pixel_scales=ps))
    do(lambda: preprocess.data_eps_with_poisson_noise_added(data_eps=data, exposure_time_map=etm, seed=1))
    do(lambda: preprocess.noise_map_via_data_eps_and_exposure_time_map_from(data_eps=data, exposure_time_map=etm))
    do(lambda: preprocess.array_eps_to_counts(array_eps=data, exposure_time_map=etm))
    do(lambda: preprocess.array_counts_to_eps(array_counts=data, exposure_time_map=etm))
    do(lambda: preprocess.array_with_random_uniform_values_added(array=data))
    do(lambda: preprocess.array_with_new_shape(array=data, new_shape=(H + 2, W + 1)))
    do(lambda: preprocess.background_sky_level_via_edges_from(image=data, no_edges=1))
    do(lambda: preprocess.edges_from(image=data, no_edges=1))
    do(lambda: preprocess.visibilities_noise_map_with_signal_to_noise_limit_from(data=aa.Visibilities(visibilities=cvis),
                                                                              noise_map=aa.VisibilitiesNoiseMap(visibilities=np.abs(cvis.real) + 1 + 1j * (np.abs(cvis.imag) + 1)), signal_to_noise_limit=0.5))
    do(lambda: preprocess.poisson_noise_via_data_eps_from(data_eps=data, exposure_time_map=aa.Array2D.full(fill_value=100.0, shape_native=(H, W), pixel_scales=ps), seed=1))
    do(lambda: preprocess.background_noise_map_via_edges_from(image=data, no_edges=1))
    do(lambda: preprocess.data_with_complex_gaussian_noise_added(data=cvis, sigma=0.1, seed=1))
    do(lambda: aa.SimulatorImaging(exposure_time=100.0, background_sky_level=20.0, psf=psf, noise_seed=2).via_image_from(image=data))
    do(lambda: aa.Convolver(mask=mask, kernel=psf))
    subs = own("sub_size_map", aa.Array2D(values=rng.integers(1, 3, size=int((~m).sum())).astype(int), mask=mask))
    br = do(lambda: aa.BorderRelocator(mask=mask, sub_size=subs))
    osamp = do(lambda: aa.OverSamplerUniform(mask=mask, sub_size=subs))
    if br is not None and osamp is not None:
        far = own("source_grid", aa.Grid2DIrregular(values=_np(osamp.over_sampled_grid) * 3.0 + 0.05 * rng.normal(size=_np(osamp.over_sampled_grid).shape)))
        do(lambda: br.relocated_grid_from(grid=far))
        do(lambda: br.relocated_mesh_grid_from(grid=far, mesh_grid=aa.Grid2DIrregular(values=gsl[:6].copy())))
        do(lambda: osamp.binned_array_2d_from(array=_np(osamp.over_sampled_grid)[:, 0].copy()))
    # inversion + valued mapper with every input owned
    objs, desc = gen_aa.linear_objects(aa, rng, case)
    own("linear_obj_matrices", [o._M for o in objs if hasattr(o, "_M")])
    st = T.own_state("settings", aa.SettingsInversion(use_w_tilde=bool(i % 2), use_positive_only_solver=bool(i % 3 == 0), no_regularization_add_to_curvature_diag_value=1e-3))
    own("dataset.data", case["ds"].data)
    own("dataset.noise_map", case["ds"].noise_map)
    inv = do(lambda: aa.Inversion(dataset=case["ds"], linear_obj_list=objs, settings=st))
    if inv is not None:
        for q in ("data_vector", "curvature_matrix", "regularization_matrix", "curvature_reg_matrix", "reconstruction", "mapped_reconstructed_data",
                  "mapped_reconstructed_data_dict", "reconstruction_dict", "regularization_term", "log_det_curvature_reg_matrix_term",
                  "log_det_regularization_matrix_term", "curvature_matrix", "data_vector"):
            do(lambda: getattr(inv, q))
        slots = {"curvature_matrix": own("preloaded_curvature", _np(inv.curvature_matrix).copy()),
                 "regularization_matrix": own("preloaded_regularization", _np(inv.regularization_matrix).copy())}
        if i % 4 >= 2:
            # the less common slots, one at a time (values taken from an identical fresh inversion)
            inv_src = aa.Inversion(dataset=case["ds"], linear_obj_list=objs, settings=st)
            extra = {}
            for slot, attr in (("curvature_matrix_mapper_diag", "_curvature_matrix_mapper_diag"), ("data_vector_mapper", "_data_vector_mapper"),
                               ("operated_mapping_matrix", "operated_mapping_matrix")):
                try:
                    v = getattr(inv_src, attr)
                    if v is not None:
                        extra[slot] = own("preloaded_" + slot, _np(v).copy())
                except Exception:
                    pass
            slot_sets = [{k: extra[k]} for k in sorted(extra)] or [slots]
        else:
            slot_sets = [slots]
        for slots in slot_sets:
            for k in slots:
                ctx.classes["sweep_preload_slot:" + k] += 1
            pre = T.own_state("preloads(%s)" % "+".join(sorted(slots)), aa.Preloads(**slots))
            for rep in range(2):
                inv2 = do(lambda: aa.Inversion(dataset=case["ds"], linear_obj_list=objs, settings=st, preloads=pre))
                if inv2 is not None:
                    do(lambda: inv2.data_vector)
                    do(lambda: inv2.reconstruction)
                    do(lambda: inv2.log_det_curvature_reg_matrix_term)
    # interferometer inversion that omits `settings` / `preloads`: the module-level defaults are used (and must survive)
    def interferometer():
        Func = gen_aa.func_list_class(aa)
        n_ = int((~m).sum())
        T_ = aa.TransformerDFT(uv_wavelengths=uv, real_space_mask=mask, preload_transform=bool(i % 2))
        g_ = aa.Grid2D.from_mask(mask=mask, over_sampling=aa.OverSamplingUniform(sub_size=1))
        Mf = own("interferometer_matrix", rng.random((n_, 2)) + 0.1)
        fl = Func(grid=g_, M=Mf, regularization=aa.reg.Zeroth(coefficient=0.5))
        nm = aa.VisibilitiesNoiseMap(visibilities=np.abs(cvis.real) + 1 + 1j * (np.abs(cvis.imag) + 1))
        dsi = aa.DatasetInterface(data=aa.Visibilities(visibilities=cvis), noise_map=nm, transformer=T_, grids=aa.GridsInterface(uniform=g_))
        inv_i = aa.Inversion(dataset=dsi, linear_obj_list=[fl])
        inv_i.data_vector
        inv_i.curvature_matrix
        return inv_i
    do(interferometer)
    check_defaults(ctx, "sweep:%d:after interferometer inversion with default settings" % i)
    mappers = [o for o in objs if isinstance(o, aa.AbstractMapper)]
    if mappers:
        mp = mappers[0]
        vals = own("values", 1.0 + rng.random(int(mp.params)))
        pm = own("mesh_pixel_mask", np.arange(int(mp.params)) < 2)
        use_pm = bool(i % 2 == 0)
        T.context = {"sweep": i, "mesh_pixel_mask": use_pm}
        mv = do(lambda: aa.MapperValued(mapper=mp, values=vals, mesh_pixel_mask=pm if use_pm else None))
        if mv is not None:
            do(lambda: mv.values_masked)
            do(lambda: mv.mapped_reconstructed_image_from())
            do(lambda: mv.max_pixel_centre)
            do(lambda: mv.max_pixel_list_from(total_pixels=2, filter_neighbors=True))
            do(lambda: mv.interpolated_array_from(shape_native=(5, 5)))
            do(lambda: mv.magnification_via_interpolation_from(shape_native=(9, 9)))
            do(lambda: mv.magnification_via_mesh_from())
            do(lambda: mp.mapping_matrix)          # cache trace: the mapper's cached matrix must still be the computed one
            do(lambda: mp.unique_mappings)
        T.context = {"sweep": i}
    T.verify("end_of_sweep")
    check_defaults(ctx, "sweep:%d" % i)
    ctx.case("sweep", i, m, nontrivial=True, cls=["entry_point_sweep"], sample=lambda: {"sweep": i, "calls": calls, "owned_objects": len(T.owned)})


# ----------------------------------------------------------------------------------------- determinism
def run_determ(ctx, i):
    aa = ctx.aa
    rng = gen.rng_for(ctx.seed, NO, 6, i)
    if not ctx.begin("determ:%d" % i):
        return
    ctx.tracker.clear()
    out = []
    for rep in range(2):
        g, desc = build_graph(ctx, 100 + i, own=False)
        inv = g["inversion"]
        tab = {}
        for q in ("data_vector", "curvature_matrix", "regularization_matrix", "reconstruction", "mapped_reconstructed_data", "regularization_term",
                  "log_det_curvature_reg_matrix_term", "log_det_regularization_matrix_term"):
            tab[q] = read(inv, q)
        tab["mapping_matrix"] = read(g["mapper"], "mapping_matrix")
        tab["w_tilde"] = value_fp(g["dataset"].w_tilde.curvature_preload)
        out.append(tab)
        np.random.seed(int(rng.integers(1 << 30)))          # perturb the global generator between repetitions
        np.random.random(int(rng.integers(1, 50)))
    diff = [q for q in out[0] if out[0][q] != out[1][q]]
    ctx.check(not diff, "deterministic", differing=diff, graph=100 + i)
    # seeded simulation must not depend on the prior state of the global generator
    H, W = int(rng.integers(4, 8)), int(rng.integers(4, 8))
    img_v = rng.random((H, W)) + 0.2
    kv = rng.random((3, 3)) + 0.1
    seed = int(rng.integers(1, 10 ** 6))
    if i % 4 != 3:
        seed = (0, 1, 2 ** 32 - 1)[i % 4]      # boundary values of "a fixed seed" (only -1 means "draw one")
    sims = []
    for rep in range(3):
        if rep == 1:
            np.random.seed(int(rng.integers(1 << 30)))
        if rep == 2:
            np.random.random(int(rng.integers(1, 200)))
        img = aa.Array2D.no_mask(values=img_v.copy(), pixel_scales=0.3)
        sim = aa.SimulatorImaging(exposure_time=float(rng.choice([50.0, 300.0])) if rep < 0 else 200.0, background_sky_level=3.0,
                                  psf=aa.Kernel2D.no_mask(values=kv.copy(), pixel_scales=0.3), noise_seed=seed)
        ds = sim.via_image_from(image=img)
        sims.append((value_fp(ds.data), value_fp(ds.noise_map)))
    ctx.check(sims[0] == sims[1] == sims[2], "deterministic.simulator_seed", noise_seed=seed, fingerprints=sims)
    # ONE simulator object with a fixed seed used several times (image A, an image of another size, image A again): equal inputs give
    # equal simulated datasets whatever it simulated before, equal to what a fresh simulator gives
    sim1 = aa.SimulatorImaging(exposure_time=200.0, background_sky_level=3.0, psf=aa.Kernel2D.no_mask(values=kv.copy(), pixel_scales=0.3), noise_seed=seed)
    reuse = []
    for img_values in (img_v, rng.random((H + 1, W + 2)) + 0.2, img_v):
        try:
            dsr = sim1.via_image_from(image=aa.Array2D.no_mask(values=img_values.copy(), pixel_scales=0.3))
            reuse.append((value_fp(dsr.data), value_fp(dsr.noise_map)))
        except Exception as e:
            reuse.append("EXC:" + type(e).__name__)
    ctx.check(reuse[0] == reuse[2] == sims[0], "deterministic.simulator_seed", what="one simulator object reused", noise_seed=seed,
              first=reuse[0], third=reuse[2], fresh_simulator=sims[0])
    # augmented assignment on a second reference to a structure (y = x; y *= 2): the object x still holds what it held, and what it
    # reported before still holds
    for label, make in (("Array2D", lambda: aa.Array2D.no_mask(values=img_v.copy(), pixel_scales=0.3)),
                        ("Grid2D", lambda: aa.Grid2D.uniform(shape_native=(H, W), pixel_scales=0.3)),
                        ("Visibilities", lambda: aa.Visibilities(visibilities=(img_v[0, :4] + 1j * img_v[1, :4]).copy()))):
        try:
            x_ = make()
            before = (value_fp(x_), read(x_, "amplitudes") if label == "Visibilities" else read(x_, "native"))
            y_ = x_
            y_ *= 2.0
            y_ = x_[1:] if label == "Visibilities" else x_
            z_ = x_
            z_ -= 1.5
            z_ += 0.25
            z_ /= 3.0
            after = (value_fp(x_), read(x_, "amplitudes") if label == "Visibilities" else read(x_, "native"))
            ctx.check(before == after, "augmented_assignment.source_untouched", structure=label, before=before[0][:60], after=after[0][:60])
        except Exception as e:
            ctx.check(False, "augmented_assignment.source_untouched", structure=label, exception=repr(e)[:200])
    from autoarray.dataset import preprocess
    a = _np(preprocess.data_with_gaussian_noise_added(data=aa.Array2D.no_mask(values=img_v.copy(), pixel_scales=0.3), sigma=0.3, seed=seed))
    np.random.random(7)
    b = _np(preprocess.data_with_gaussian_noise_added(data=aa.Array2D.no_mask(values=img_v.copy(), pixel_scales=0.3), sigma=0.3, seed=seed))
    ctx.check(np.array_equal(a, b), "deterministic.simulator_seed", which="data_with_gaussian_noise_added", noise_seed=seed)
    # a zoom window that reaches beyond the frame (unmasked pixels on the frame edge, buffer >= 1): repeated with freshly freed,
    # differently filled memory of the same size in between - cells outside the frame must not carry whatever was there before
    Hz, Wz = int(rng.integers(5, 9)), int(rng.integers(5, 9))
    mz = np.ones((Hz, Wz), bool)
    mz[0:2, 1:Wz - 1] = False
    if i % 2:
        mz = mz.T.copy()
    vz = rng.normal(size=mz.shape)
    zooms = []
    for rep, fill in enumerate((7.25, -3.5, 1e6, 0.0)):
        for shp in ((mz.shape[0] + 2, mz.shape[1] + 2), (max(mz.shape) + 2,) * 2, (4, mz.shape[1] + 2), (mz.shape[0] + 2, 4), (4, 4), (5, 5), (6, 6), (7, 7)):
            junk = [np.full(shp, fill) for _ in range(6)]
            del junk
        az = aa.Array2D(values=vz.copy(), mask=aa.Mask2D(mask=mz.copy(), pixel_scales=0.5))
        try:
            zooms.append(np.array(_np(az.zoomed_around_mask(buffer=1 + rep % 2).native), dtype=float))
        except Exception as e:
            zooms.append(repr(e)[:80])
    same02 = isinstance(zooms[0], np.ndarray) and isinstance(zooms[2], np.ndarray) and zooms[0].shape == zooms[2].shape and np.array_equal(zooms[0], zooms[2], equal_nan=True)
    same13 = isinstance(zooms[1], np.ndarray) and isinstance(zooms[3], np.ndarray) and zooms[1].shape == zooms[3].shape and np.array_equal(zooms[1], zooms[3], equal_nan=True)
    ctx.check(same02 and same13, "deterministic", what="Array2D.zoomed_around_mask repeated after unrelated allocations", mask=mz,
              first=lambda: zooms[0], again=lambda: zooms[2])
    # image-plane meshes computed from freshly built, equal inputs: A, then another mask B, then A again, on separate mesh objects -
    # whatever a module keeps between calls (memoised curves, work arrays) must not change what equal inputs give
    sA = float(rng.uniform(0.3, 1.0))
    shp = (int(rng.choice([7, 9, 11])),) * 2

    def image_mesh(kind_, scale_, radius_):
        mk = aa.Mask2D.circular(shape_native=shp, pixel_scales=(scale_, scale_), radius=radius_ * scale_)
        g_ = _np(aa.Grid2D.from_mask(mask=mk))
        ad = aa.Array2D(values=5.0 + g_ @ np.array([0.11, 0.23]), mask=mk)
        if kind_ == "hilbert":
            return np.array(_np(aa.image_mesh.Hilbert(pixels=12, weight_floor=0.1, weight_power=1.0).image_plane_mesh_grid_from(mask=mk, adapt_data=ad)), dtype=float)
        return np.array(_np(aa.image_mesh.Overlay(shape=(4, 5)).image_plane_mesh_grid_from(mask=mk, adapt_data=None)), dtype=float)
    for kind_ in ("hilbert", "overlay"):
        res = []
        for (sc_, rad_) in ((sA, 2.6), (sA * 1.7, 3.1), (sA, 2.6), (sA, 2.6)):
            try:
                res.append(image_mesh(kind_, sc_, rad_))
            except Exception as e:
                res.append("EXC:" + type(e).__name__ + ":" + str(e)[:80])
        same_ = all(isinstance(x, np.ndarray) and isinstance(res[0], np.ndarray) and x.shape == res[0].shape and np.array_equal(x, res[0]) for x in (res[2], res[3])) \
            or all(isinstance(x, str) and x == res[0] for x in (res[2], res[3]))
        ctx.check(same_, "deterministic", what="image_mesh.%s.image_plane_mesh_grid_from on equal fresh inputs: A, B, A, A" % kind_, first=lambda: res[0],
                  third=lambda: res[2], fourth=lambda: res[3])
    # the three grids of a dataset with three different over sampling schemes, read in two orders on two equal datasets (uniform
    # and its over sampler first / last): every grid's over sampler is the one of its own scheme
    def grids_dataset():
        return aa.Imaging(data=aa.Array2D.no_mask(values=img_v.copy(), pixel_scales=0.3), noise_map=aa.Array2D.no_mask(values=img_v.copy() + 1.0, pixel_scales=0.3),
                          psf=aa.Kernel2D.no_mask(values=kv.copy(), pixel_scales=0.3),
                          over_sampling=aa.OverSamplingDataset(uniform=aa.OverSamplingUniform(sub_size=2), non_uniform=aa.OverSamplingUniform(sub_size=4),
                                                               pixelization=aa.OverSamplingUniform(sub_size=3)))
    tabs = []
    for order in (("uniform", "non_uniform", "pixelization"), ("pixelization", "non_uniform", "uniform")):
        try:
            dsg = grids_dataset()
            t_ = {}
            for gname in order:
                g_ = getattr(dsg.grids, gname)
                t_[gname] = (int(np.max(_np(g_.over_sampler.sub_size))), value_fp(g_.over_sampler.over_sampled_grid))
            tabs.append(t_)
        except Exception as e:
            tabs.append("EXC:" + type(e).__name__)
    ctx.check(isinstance(tabs[0], dict) and tabs[0] == tabs[1] and [tabs[0][k][0] for k in ("uniform", "non_uniform", "pixelization")] == [2, 4, 3],
              "order.matches_baseline", quantity="dataset.grids.<uniform|non_uniform|pixelization>.over_sampler", graph="dataset grids",
              uniform_first=lambda: {k: v[0] for k, v in tabs[0].items()} if isinstance(tabs[0], dict) else tabs[0],
              pixelization_first=lambda: {k: v[0] for k, v in tabs[1].items()} if isinstance(tabs[1], dict) else tabs[1])
    # a Delaunay mapper on a degenerate mesh (all vertices on one line: Qhull cannot start), rebuilt from equal inputs under different
    # states of the global random generator: the same outcome every time (the same refusal, or the same tables)
    mkd = aa.Mask2D.all_false(shape_native=(3, 4), pixel_scales=1.0)
    line_pts = np.stack([np.full(7, 0.25) if i % 2 else np.linspace(-1.0, 1.0, 7) * 0.5, np.linspace(-1.5, 1.5, 7)], axis=1)
    outs = []
    for rep in range(4):
        np.random.seed(int(rng.integers(1 << 30)))
        np.random.random(int(rng.integers(1, 30)))
        try:
            osd = aa.OverSamplerUniform(mask=mkd, sub_size=1)
            mgd = aa.MapperGrids(mask=mkd, source_plane_data_grid=aa.Grid2DIrregular(values=np.array(_np(osd.over_sampled_grid), dtype=float) * 0.4),
                                 source_plane_mesh_grid=aa.Mesh2DDelaunay(values=line_pts.copy()))
            mpd = aa.Mapper(mapper_grids=mgd, over_sampler=osd, regularization=None)
            outs.append(value_fp(_np(mpd.mapping_matrix)) + "|" + value_fp(np.asarray(mpd.pix_indexes_for_sub_slim_index)) + "|" + value_fp(np.asarray(mpd.neighbors)))
        except Exception as e:
            outs.append("EXC:" + type(e).__name__)
    ctx.check(len(set(outs)) == 1, "deterministic", what="Delaunay mapper on collinear mesh vertices rebuilt under different global RNG states", outcomes=outs)
    # 1-D structures built from caller-owned arrays on a mask with masked entries (native-format values, float and integer)
    L1 = int(rng.integers(3, 9))
    m1 = rng.random(L1) < 0.4
    m1[int(rng.integers(L1))] = False
    m1[(int(np.flatnonzero(~m1)[0]) + 1) % L1] = True
    for dt in (float, np.int64):
        v_nat = (rng.normal(size=L1) * 50).astype(dt) + (1 if dt is not float else 0.5)
        v_sl = (rng.normal(size=int((~m1).sum())) * 50).astype(dt) + 1
        keep_nat, keep_sl = v_nat.copy(), v_sl.copy()
        mk1 = aa.Mask1D(mask=m1.copy(), pixel_scales=(0.5,))
        outs = []
        for sn in (False, True):
            for vv in (v_nat, v_sl):
                try:
                    a1 = aa.Array1D(values=vv, mask=mk1, store_native=sn)
                    outs.append((np.array(_np(a1.slim)), np.array(_np(a1.native))))
                except Exception as e:
                    outs.append(repr(e)[:80])
        try:
            aa.Grid1D(values=v_sl.astype(float) if dt is float else v_sl, mask=mk1)
        except Exception:
            pass
        ctx.check(np.array_equal(v_nat, keep_nat) and np.array_equal(v_sl, keep_sl), "input_fingerprint", callee="Array1D / Grid1D constructors",
                  what="caller-owned 1-D values on a mask with masked entries", dtype=str(np.dtype(dt)), mask_1d=m1, before=keep_nat, after=v_nat)
    ctx.case("determ", i, nontrivial=True, cls=["determinism"], sample=lambda: {"determinism": i, "noise_seed": seed})


# ----------------------------------------------------------------------------------------- queries that take arguments
def _profiles(aa):
    """Profile classes registered in config/base/grids.yaml (adaptive over sampling lists differ per class name)."""
    def build(name):
        class P:
            def __init__(self, c, centre):
                self.c = c
                self.centre = centre

            @aa.over_sample
            @aa.grid_dec.to_array
            def image(self, grid, *args, **kwargs):
                g = np.asarray(grid)
                r2 = (g[:, 0] - self.centre[0]) ** 2 + (g[:, 1] - self.centre[1]) ** 2
                return self.c[0] * np.exp(-self.c[1] * r2) + self.c[2] * g[:, 0] * g[:, 1]

        P.__name__ = P.__qualname__ = name
        return P
    return {n: build(n) for n in ("VerifC09Ones", "VerifC09Adapt", "VerifC09Adapt2")}


def param_world(ctx, i):
    """One of several bit-identical worlds (same seed -> equal inputs, separate objects) and the list of calls made on it."""
    aa = ctx.aa
    r = gen.rng_for(ctx.seed, NO, 7, i)
    case = gen_aa.imaging_case(aa, r, kshapes=(1, 3), max_unmasked=24)
    mask, m = case["mask"], case["m"]
    n = int((~m).sum())
    ds = case["ds"]
    osamp = ds.grids.pixelization.over_sampler
    kind = "rect" if i % 2 == 0 else "del"
    adapt = aa.Array2D(values=r.random(n) + 0.05, mask=mask)
    mp, d = gen_aa.mapper(aa, r, mask, osamp, kind, aa.reg.Constant(coefficient=1.0), adapt_data=adapt)
    P = int(mp.params)
    vals = [r.random(P) + 0.1, r.normal(size=P)]
    mv = aa.MapperValued(mapper=mp, values=vals[0].copy())
    inv = aa.Inversion(dataset=ds, linear_obj_list=[mp], settings=aa.SettingsInversion(use_w_tilde=False, use_positive_only_solver=False))
    g0 = aa.Grid2D.from_mask(mask=mask)                                  # carries no over sampling of its own
    ps = tuple(float(v) for v in mask.pixel_scales)
    g1 = aa.Grid2D.uniform(shape_native=(int(r.integers(3, 7)), int(r.integers(3, 7))), pixel_scales=ps)
    prof = ctx.param_profiles
    cen = [(float(r.normal() * ps[0]), float(r.normal() * ps[1])) for _ in range(3)]
    pobj = [prof["VerifC09Adapt"]((1.0, 0.7, 0.1), cen[0]), prof["VerifC09Adapt2"]((0.5, 1.3, -0.2), cen[1]),
            prof["VerifC09Adapt"]((2.0, 0.2, 0.0), cen[2]), prof["VerifC09Ones"]((1.5, 0.9, 0.3), cen[0])]
    sc = [float(x) for x in r.choice([0.0, 0.5, 1.0, 2.0, 3.5], size=3, replace=False)]
    regs = [("AdaptiveBrightness(%g)" % s_, aa.reg.AdaptiveBrightness(inner_coefficient=0.7, outer_coefficient=1.9, signal_scale=s_)) for s_ in sc[:2]]
    regs.append(("BrightnessZeroth(%g)" % sc[2], aa.reg.BrightnessZeroth(coefficient=0.6, signal_scale=sc[2])))
    regs.append(("Constant", aa.reg.Constant(coefficient=1.3)))
    if kind == "del":
        regs.append(("AdaptiveBrightnessSplit(%g)" % sc[1], aa.reg.AdaptiveBrightnessSplit(inner_coefficient=0.4, outer_coefficient=2.5, signal_scale=sc[1])))
        regs.append(("AdaptiveBrightnessSplitZeroth(%g,%g)" % (sc[0], sc[2]),
                     aa.reg.AdaptiveBrightnessSplitZeroth(inner_coefficient=0.4, outer_coefficient=2.5, signal_scale=sc[0], zeroth_coefficient=0.3,
                                                          zeroth_signal_scale=sc[2])))
    arrs = [aa.Array2D(values=r.random(n), mask=mask), aa.Array2D(values=r.normal(size=n), mask=mask)]
    ext = tuple(float(v) for v in mp.source_plane_mesh_grid.geometry.extent)
    ext2 = (ext[0] - 0.1, ext[1] + 0.3, ext[2] - 0.2, ext[3] + 0.05)
    idx_lists = [[0], [int(x) for x in r.choice(P, size=min(P, 3), replace=False)]]
    coord = (float(r.normal()), float(r.normal()))
    kshape = (3, 3)
    calls = []

    def add(label, fn):
        calls.append((label, fn))
    for s_ in sc:
        add("mapper.pixel_signals_from(%g)" % s_, lambda s_=s_: mp.pixel_signals_from(signal_scale=s_))
    for nm, rg in regs:
        add("reg.%s.regularization_matrix_from(mapper)" % nm, lambda rg=rg: rg.regularization_matrix_from(linear_obj=mp))
        add("reg.%s.regularization_weights_from(mapper)" % nm, lambda rg=rg: rg.regularization_weights_from(linear_obj=mp))
    for k_, il in enumerate(idx_lists):
        add("mapper.pix_indexes_for_slim_indexes(#%d)" % k_, lambda il=il: mp.pix_indexes_for_slim_indexes(pix_indexes=list(il)))
    for k_, a in enumerate(arrs):
        add("mapper.mapped_to_source_from(#%d)" % k_, lambda a=a: mp.mapped_to_source_from(array=a))
    for k_, v in enumerate(vals):
        add("mapper.interpolated_array_from(values#%d,(5,4))" % k_, lambda v=v: mp.interpolated_array_from(values=v, shape_native=(5, 4)))
        add("mapper.interpolated_array_from(values#%d,(3,6),extent)" % k_, lambda v=v: mp.interpolated_array_from(values=v, shape_native=(3, 6), extent=ext2))
        add("mapper.extent_from(values#%d,0.5)" % k_, lambda v=v: mp.extent_from(values=v, zoom_percent=0.5))
    add("mapper.extent_from()", lambda: mp.extent_from())
    for tp, fn_ in ((1, False), (2, False), (2, True), (3, True)):
        add("valued.max_pixel_list_from(%d,%s)" % (tp, fn_), lambda tp=tp, fn_=fn_: mv.max_pixel_list_from(total_pixels=tp, filter_neighbors=fn_))
    add("valued.interpolated_array_from((4,4))", lambda: mv.interpolated_array_from(shape_native=(4, 4)))
    add("valued.interpolated_array_from((6,3),extent)", lambda: mv.interpolated_array_from(shape_native=(6, 3), extent=ext2))
    add("valued.magnification_via_mesh_from()", lambda: mv.magnification_via_mesh_from())
    add("valued.magnification_via_interpolation_from((7,7))", lambda: mv.magnification_via_interpolation_from(shape_native=(7, 7)))
    add("valued.magnification_via_interpolation_from((5,9),extent)", lambda: mv.magnification_via_interpolation_from(shape_native=(5, 9), extent=ext2))
    add("valued.mapped_reconstructed_image_from()", lambda: mv.mapped_reconstructed_image_from())
    add("inversion.regularization_weights_from(0)", lambda: inv.regularization_weights_from(index=0))
    add("inversion.cls_list_from(AbstractMapper)", lambda: [type(x).__name__ for x in inv.cls_list_from(cls=aa.AbstractMapper)])
    add("inversion.param_range_list_from(AbstractMapper)", lambda: inv.param_range_list_from(cls=aa.AbstractMapper))
    add("inversion.total(AbstractMapper)", lambda: inv.total(cls=aa.AbstractMapper))
    for k_, v in enumerate(vals):
        add("inversion.source_quantity_dict_from(#%d)" % k_, lambda v=v: list(inv.source_quantity_dict_from(source_quantity=v).values()))
    for gname, g in (("from_mask", g0), ("uniform", g1)):
        for k_, po in enumerate(pobj):
            add("profile#%d(%s).image(Grid2D.%s)" % (k_, type(po).__name__, gname), lambda po=po, g=g: po.image(g))
        add("Grid2D.%s.squared_distances_to_coordinate_from" % gname, lambda g=g: g.squared_distances_to_coordinate_from(coordinate=coord))
        add("Grid2D.%s.distances_to_coordinate_from" % gname, lambda g=g: g.distances_to_coordinate_from(coordinate=coord))
        add("Grid2D.%s.grid_2d_radial_projected_from" % gname, lambda g=g: g.grid_2d_radial_projected_from(centre=coord, angle=30.0))
        add("Grid2D.%s.padded_grid_from" % gname, lambda g=g: g.padded_grid_from(kernel_shape_native=kshape))
    for sub in (1, 2, 3):
        add("OverSamplingUniform(%d).over_sampler_from(mask).binned_array_2d_from" % sub,
            lambda sub=sub: aa.OverSamplingUniform(sub_size=sub).over_sampler_from(mask=mask).over_sampled_grid)
    add("OverSamplingUniform.from_radial_bins(Grid2D.from_mask)", lambda: aa.OverSamplingUniform.from_radial_bins(
        grid=g0, sub_size_list=[3, 2, 1], radial_list=[1.5 * min(ps), 3.0 * min(ps)], centre_list=[cen[0]]).sub_size)
    add("mask.derive_mask.blurring_from((3,3))", lambda: mask.derive_mask.blurring_from(kernel_shape_native=kshape))
    for b in (0, 1, 2):
        add("Array2D.zoomed_around_mask(%d)" % b, lambda b=b: arrs[0].zoomed_around_mask(buffer=b))
    add("Array2D.resized_from", lambda: arrs[1].resized_from(new_shape=(m.shape[0] + 2, m.shape[1] + 1)))
    add("Array2D.binned_across_rows", lambda: arrs[1].binned_across_rows)
    watched = {"Grid2D.from_mask": g0, "Grid2D.uniform": g1}
    owned = {"values#0": vals[0], "values#1": vals[1], "array#0": arrs[0], "array#1": arrs[1], "adapt_data": adapt}
    return dict(calls=calls, watched=watched, owned=owned, desc={"mesh": kind, "unmasked": n, "mesh_pixels": P, "signal_scales": sc,
                                                                  "profile_centres": cen, "mask": m})


def run_param(ctx, i):
    """Queries that take arguments (signal scales, shapes, extents, index lists, arrays, grids handed to decorated profile
    functions): the same calls are made on bit-identical worlds in a seeded order, in the reverse order and twice over. Every call
    must return the same value in every world, the arguments handed in and the results handed out earlier must stay as they were,
    and the grids passed to the profile functions must still report the over sampling they were built with."""
    if not ctx.begin("param:%d" % i):
        return
    ctx.tracker.clear()
    cachetrace.set_context(param_world=i)
    r = gen.rng_for(ctx.seed, NO, 8, i)
    order = None
    tables, descs = [], None
    for wn in range(3):
        W = param_world(ctx, i)
        calls = W["calls"]
        if order is None:
            order = [int(x) for x in r.permutation(len(calls))]
        seq = order if wn == 0 else (order[::-1] if wn == 1 else order + order)
        before = {k: (g.over_sampling, value_fp(np.asarray(g._array))) for k, g in W["watched"].items()}
        own_fp = {k: value_fp(v) for k, v in W["owned"].items()}
        tab, kept = {}, []
        for pos, ci in enumerate(seq):
            label, fn = calls[ci]
            try:
                v = fn()
            except Exception as e:
                v = "EXC:" + type(e).__name__
            fpv = value_fp(v)
            kept.append((label, v, fpv, pos))
            if label in tab and tab[label][0] != fpv:
                ctx.monitors["param.repeat_equal"] += 1
                ctx.fire("param.repeat_equal", call=label, first=tab[label][0][:80], again=fpv[:80], world=W["desc"])
            elif label in tab:
                ctx.monitors["param.repeat_equal"] += 1
            tab.setdefault(label, (fpv, pos))
        # results handed out earlier are not edited by later calls
        changed = [(label, pos) for (label, v, fpv, pos) in kept if value_fp(v) != fpv]
        ctx.check(not changed, "param.earlier_results_keep_their_value", changed=changed[:6], order=[calls[c][0] for c in seq][:80], world=W["desc"])
        ch_in = [k for k, v in W["owned"].items() if value_fp(v) != own_fp[k]]
        ctx.check(not ch_in, "param.arguments_untouched", changed=ch_in, world=W["desc"])
        for k, g in W["watched"].items():
            ctx.check(g.over_sampling is before[k][0] and value_fp(np.asarray(g._array)) == before[k][1], "param.grid_argument_untouched", grid=k,
                      over_sampling_before=repr(before[k][0]), over_sampling_after=repr(g.over_sampling)[:120], world=W["desc"])
        tables.append(tab)
        descs = W["desc"]
        labels = [c[0] for c in calls]
    for label in labels:
        fps = [t[label][0] for t in tables if label in t]
        ctx.monitors["param.order_independent"] += 1
        if len(set(fps)) != 1:
            ctx.fire("param.order_independent", call=label, value_in_seeded_order=fps[0][:80], value_in_reverse_order=fps[1][:80],
                     position_in_seeded_order=tables[0][label][1], position_in_reverse_order=tables[1][label][1],
                     calls_before_it_in_seeded_order=[labels[c] for c in order[:tables[0][label][1]]][:40], world=descs)
    nexc = sum(1 for t in tables[:1] for v in t.values() if v[0].startswith("'EXC:") or v[0].startswith("EXC:"))
    ctx.reach["param_calls"] += len(labels)
    ctx.reach["param_calls_raising"] += nexc
    ctx.case("param", i, nontrivial=True, cls=["parametrised_queries", "mesh:" + descs["mesh"]],
             sample=lambda: {"parametrised_queries": len(labels), "raising": nexc, "mesh": descs["mesh"], "first_calls": [labels[c] for c in order[:8]]})


def run_unit(ctx, u):
    if u["kind"] == "param":
        for i in range(u["start"], u["stop"]):
            run_param(ctx, i)
        return
    if u["kind"] == "hist":
        run_hist(ctx, u)
    elif u["kind"] == "derive":
        run_derive(ctx, u)
    elif u["kind"] == "sweep":
        for i in range(u["start"], u["stop"]):
            run_sweep(ctx, i)
    else:
        for i in range(u["start"], u["stop"]):
            run_determ(ctx, i)
