import sys, types
pl=types.ModuleType('pylops')
class LinearOperator:
    def __init__(self,*a,**k): pass
pl.LinearOperator=LinearOperator
sys.modules['pylops']=pl
from common import *
import logging; logging.disable(logging.CRITICAL)
sys.argv=[sys.argv[0],'0']
from p04b import Func
bad={}
def flag(k,info=None):
    bad.setdefault(k,[0,None]); bad[k][0]+=1
    if bad[k][1] is None: bad[k][1]=info
for seed in range(30):
    rng=np.random.default_rng(seed)
    H,W=rng.integers(3,6),rng.integers(3,6); m=rmask(rng,H,W,p=0.3)
    mask=aa.Mask2D(mask=m,pixel_scales=(0.3,0.2),origin=(0.1,-0.2)); n=(~m).sum()
    K=int(rng.integers(2,8)); uv=rng.normal(size=(K,2))*2e5; uv[0]=0; 
    if K>2: uv[2]=uv[1]
    T=aa.TransformerDFT(uv_wavelengths=uv,real_space_mask=mask,preload_transform=bool(seed%2))
    grid=np.array(aa.Grid2D.from_mask(mask).array)*np.pi/648000.0
    A=np.exp(-2j*np.pi*(np.outer(grid[:,1],uv[:,0])+np.outer(grid[:,0],uv[:,1]))).T
    vis=aa.Visibilities(visibilities=rng.normal(size=K)+1j*rng.normal(size=K))
    nm=aa.VisibilitiesNoiseMap(visibilities=rng.uniform(0.5,2,size=K)+1j*rng.uniform(0.5,2,size=K))
    g=aa.Grid2D.from_mask(mask,over_sampling=aa.OverSamplingUniform(sub_size=1))
    objs=[Func(grid=g,M=rng.normal(size=(n,2)),regularization=aa.reg.Zeroth(0.7))]
    if seed%2: objs.append(Func(grid=g,M=rng.random((n,3)),regularization=None))
    ds=aa.DatasetInterface(data=vis,noise_map=nm,transformer=T,grids=aa.GridsInterface(uniform=g))
    st=aa.SettingsInversion(use_w_tilde=False,use_positive_only_solver=False,no_regularization_add_to_curvature_diag_value=1e-3)
    try:
        inv=aa.Inversion(dataset=ds,linear_obj_list=objs,settings=st)
        B=A@np.hstack([o.mapping_matrix for o in objs])
        Dref=(B.real*(vis.array.real/nm.array.real**2)[:,None]).sum(0)+(B.imag*(vis.array.imag/nm.array.imag**2)[:,None]).sum(0)
        Fref=(B.real/nm.array.real[:,None]).T@(B.real/nm.array.real[:,None])+(B.imag/nm.array.imag[:,None]).T@(B.imag/nm.array.imag[:,None])
        c=0
        for o in objs:
            if o.regularization is None: Fref[np.arange(c,c+o.params),np.arange(c,c+o.params)]+=1e-3
            c+=o.params
        if type(inv).__name__!='InversionInterferometerMapping': flag('type '+type(inv).__name__)
        if not np.allclose(inv.data_vector,Dref,atol=1e-8*max(1,abs(Dref).max())): flag('D')
        if not np.allclose(inv.curvature_matrix,Fref,atol=1e-8*max(1,abs(Fref).max())): flag('F',(seed,np.abs(inv.curvature_matrix-Fref).max()))
        s=inv.reconstruction
        if not np.allclose(inv.mapped_reconstructed_data.array,B@s,atol=1e-8*max(1,abs(B@s).max())): flag('mapped')
    except Exception as e:
        flag('EXC '+repr(e)[:100],(seed,))
for kk,v in bad.items(): print(kk,v)
print('done')
