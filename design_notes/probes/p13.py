import sys, types
pl=types.ModuleType('pylops')
class LinearOperator:
    def __init__(self,*a,**k): pass
pl.LinearOperator=LinearOperator
sys.modules['pylops']=pl
from common import *
rng=np.random.default_rng(6)
bad=dict(vis=0,pre=0,img=0,mm=0,mms=0,native=0); N=0
for t in range(30):
    H,W=rng.integers(2,6),rng.integers(2,6)
    m=rmask(rng,H,W); mask=aa.Mask2D(mask=m,pixel_scales=(0.3,0.2),origin=(0.1,-0.2))
    K=rng.integers(1,6); uv=rng.normal(size=(K,2))*1e5
    uv[0]=0
    grid=np.array(aa.Grid2D.from_mask(mask).array)*np.pi/648000.0
    A=np.exp(-2j*np.pi*(np.outer(grid[:,1],uv[:,0])+np.outer(grid[:,0],uv[:,1]))).T  # K x n
    n=(~m).sum(); I=rng.normal(size=n)
    for pre in (True,False):
        T=aa.TransformerDFT(uv_wavelengths=uv,real_space_mask=mask,preload_transform=pre)
        V=T.visibilities_from(aa.Array2D(values=I,mask=mask)).array
        if not np.allclose(V,A@I,atol=1e-9): bad['vis' if not pre else 'pre']+=1
        try:
            Vn=T.visibilities_from(aa.Array2D(values=I,mask=mask,store_native=True)).array
            if not np.allclose(Vn,A@I,atol=1e-9): bad['native']+=1
        except Exception as e: bad['native']+=1
        vis=aa.Visibilities(visibilities=rng.normal(size=K)+1j*rng.normal(size=K))
        im=T.image_from(vis).slim.array
        if not np.allclose(im,(A.conj().T@vis.array).real,atol=1e-9): bad['img']+=1
        M=rng.random((n,3)); 
        if not np.allclose(T.transform_mapping_matrix(M),A@M,atol=1e-9): bad['mm']+=1
        Ms=rng.normal(size=(n,3))
        if not np.allclose(T.transform_mapping_matrix(Ms),A@Ms,atol=1e-9): bad['mms']+=1
    N+=1
print(N,bad)
