from common import *
from autoarray.layout import layout_util
import itertools
bad={'rot':0,'rot2':0,'ext':0}; n=0; ex=[]
for H in range(1,5):
  for W in range(1,5):
    arr=np.arange(H*W,dtype=float).reshape(H,W)+1
    regs=[(y0,y1,x0,x1) for y0 in range(H) for y1 in range(y0+1,H+1) for x0 in range(W) for x1 in range(x0+1,W+1)]
    for r in regs:
        for c in [(0,0),(0,1),(1,0),(1,1)]:
            ra=layout_util.rotate_array_via_roe_corner_from(arr,c)
            rr=layout_util.rotate_region_via_roe_corner_from(r,(H,W),c)
            exp=layout_util.rotate_array_via_roe_corner_from(arr[r[0]:r[1],r[2]:r[3]],c)
            if not np.array_equal(ra[rr.slice],exp): bad['rot']+=1
            rr2=layout_util.rotate_region_via_roe_corner_from(rr,(H,W),c)
            if tuple(rr2.region)!=r or not np.array_equal(layout_util.rotate_array_via_roe_corner_from(ra,c),arr): bad['rot2']+=1
            n+=1
        for w in regs:
            got=layout_util.region_after_extraction(r,w)
            lab=np.zeros((H,W),bool); lab[r[0]:r[1],r[2]:r[3]]=True
            win=lab[w[0]:w[1],w[2]:w[3]]
            if not win.any(): ok = got is None
            else:
                ok = got is not None
                if ok:
                    z=np.zeros_like(win); 
                    try: z[got.slice]=True
                    except Exception: ok=False
                    ok = ok and np.array_equal(z,win)
            if not ok:
                bad['ext']+=1
                if len(ex)<5: ex.append((r,w,got))
            n+=1
print(n,bad,ex)
