"""
C03 - masked PSF blurring equals true 2-D convolution restricted to the mask.

Deciding observations (all on the real Convolver / Kernel2D / SimulatorImaging / Imaging objects):
  op.image        every entry of the operator extracted from convolve_image on basis images of the mask AND of
                  the blurring mask equals K[t - s + half] (reference built by plain loops from the definition,
                  harness/ref.py - not SciPy, because Kernel2D itself uses SciPy)
  op.no_blurring  the same for convolve_image_no_blurring
  image.random    convolve_image / _no_blurring on random signed images == C_ref @ values
  matrix.linear   convolve_mapping_matrix(M) == C_ref @ M for 0/1, fractional, tiny (down to 1e-6), signed and
                  sparse matrices (so a sparsity *threshold* or a sign test on the entries is visible)
  garbage         values outside mask U blurring region never influence the result (bit-identical)
  kernel2d.full / kernel2d.masked   Kernel2D.convolved_array_from / _with_mask_from == reference on every pixel
  even.rejected   even kernel shapes raise KernelException in Convolver, convolved_array_from, _with_mask_from
  simulate.zero_residual  SimulatorImaging(noise off) -> apply_mask -> dataset.convolver reproduces the data
  contract:Convolver.convolve_matrix_jit  (icontract) every internal call: result == frames-operator @ matrix,
                  with the operator taken from two cached basis responses of the same frame tables
validated against (scratch copies, suite green): reverting the `value != 0` repair (`> 0`), sparsity threshold
1e-3, global kernel flip for non-square kernels only, transposed half-widths, blurring frame dropped for pixels
in mask holes, `>=` in the frame bound - see DESIGN.md section 3/C03.
"""
import numpy as np

from harness import env, gen, ref
from harness.monitors import contracts

ID = "C03"
NO = 3
RULE = ("seeded cases (mask with holes/components whose kernel footprint stays in the frame, odd kernel with independent "
        "sizes 1..7 per axis and entries positive/signed/asymmetric/sparse/spike); a case = (mask, kernel); distinct by "
        "(mask bits, kernel bytes); non-trivial = kernel larger than 1x1 and >= 2 unmasked pixels")
BOUNDS = {"quick": "2400 (mask,kernel) operators fully extracted, frames up to 12x14, <=45 unmasked pixels, 400 simulations",
          "thorough": "64000 operators fully extracted, 9600 simulations"}
EXHAUSTIVE = {"quick": False, "thorough": False}
ASSUMPTIONS = ["float comparisons: |got-ref| <= 1e-10*max(1,|ref|inf) (pure sums of products of the same operands)",
               "simulation claim only for kernels with |sum| >= 0.2 and default normalize_psf (the dataset renormalises the PSF by design)"]
QUICK_JOBS = 12
MIN_MONITORS = {"*": {"op.image": 1, "op.no_blurring": 1, "matrix.linear": 1, "garbage": 1, "kernel2d.full": 1,
                      "kernel2d.masked": 1, "even.rejected": 1, "simulate.zero_residual": 1, "image.random": 1,
                      "contract:Convolver.convolve_matrix_jit": 1}}
TOL = 1e-10


def plan(tier, seed):
    n = 2400 if tier == "quick" else 64000
    nsim = 400 if tier == "quick" else 9600
    step = 16 if tier == "quick" else 50
    units = [{"kind": "op", "start": s, "stop": min(n, s + step), "w": step} for s in range(0, n, step)]
    units += [{"kind": "sim", "start": s, "stop": min(nsim, s + step), "w": step * 0.5} for s in range(0, nsim, step)]
    units.append({"kind": "even", "w": 1})
    if tier == "thorough":
        units.append({"kind": "suite", "w": 10 ** 7})   # the repository's own tests with the contracts installed (DESIGN 1.5)
    return units


def _np(x):
    return np.asarray(x.array if hasattr(x, "array") and not isinstance(x, np.ndarray) else x)


# ---------------------------------------------------------------------------- contract
def post_convolve_matrix(ctx, a, result, old):
    M = _np(a["mapping_matrix"])
    idx, ker, lens = _np(a["image_frame_1d_indexes"]), _np(a["image_frame_1d_kernels"]), _np(a["image_frame_1d_lengths"])
    if M.ndim != 2 or idx.shape[0] != M.shape[0]:
        return None
    n = M.shape[0]
    C = np.zeros((n, n))
    for s in range(n):
        for q in range(int(lens[s])):
            C[int(idx[s, q]), s] += ker[s, q]
    exp = C @ M
    sc = max(1.0, float(np.abs(exp).max()) if exp.size else 1.0)
    got = _np(result)
    ok = got.shape == exp.shape and float(np.abs(got - exp).max() if exp.size else 0.0) <= TOL * sc
    return (ok, {"mapping_matrix": M, "expected": exp, "got": got, "why": "convolve_matrix_jit is not the frame operator applied to each column"})


def setup(ctx):
    ctx.aa = env.boot("base")
    install_contracts(ctx)


def install_contracts(ctx):
    """Also used by harness/suite_plugin.py (the repository's own tests drive the contract in the thorough tier)."""
    contracts.attach(ctx, ctx.aa.Convolver, "convolve_matrix_jit", post_convolve_matrix,
                     label="contract:Convolver.convolve_matrix_jit")


def teardown(ctx):
    contracts.detach_all()


# ---------------------------------------------------------------------------- cases
def make_case(rng, big):
    ky, kx = int(rng.choice([1, 3, 5, 7])), int(rng.choice([1, 3, 5, 7]))
    hy, hx = ky // 2, kx // 2
    ih, iw = int(rng.integers(2, 7 if big else 6)), int(rng.integers(2, 8 if big else 6))
    H, W = ih + 2 * hy, iw + 2 * hx
    # optional extra fully-masked padding so the blurring region does not always touch the frame
    if rng.random() < 0.4:
        H += 1
        W += 2
    m = np.ones((H, W), bool)
    inner, fam = gen.random_mask(rng, ih, iw, family=str(rng.choice(["bernoulli", "dense", "holes", "components", "checker",
                                                                     "bridge", "single", "all_unmasked", "sparse"])))
    m[hy:hy + ih, hx:hx + iw] = inner
    k, kind = gen.kernel(rng, ky, kx)
    return m, k, fam, kind


def run_op_case(ctx, i):
    aa = ctx.aa
    rng = gen.rng_for(ctx.seed, NO, 1, i)
    if not ctx.begin("op:%d" % i):
        return
    m, k, fam, kind = make_case(rng, big=(i % 3 == 0))
    n = int((~m).sum())
    ps = (float(rng.uniform(0.3, 1.5)), float(rng.uniform(0.3, 1.5)))
    mask = aa.Mask2D(mask=m.copy(), pixel_scales=ps)
    kern = aa.Kernel2D.no_mask(values=k.copy(), pixel_scales=ps)
    W = dict(mask=m, kernel=k)
    ok, conv = ctx.guarded("convolver.construct", lambda: aa.Convolver(mask=mask, kernel=kern), )
    if not ok:
        return
    bm_ref, leaves = ref.blurring_mask(m, k.shape)
    bm = np.asarray(_np(mask.derive_mask.blurring_from(kernel_shape_native=k.shape))).astype(bool)
    ctx.check(np.array_equal(bm, bm_ref), "blurring_mask.used", got=bm, expected=bm_ref, **W)
    bmask = aa.Mask2D(mask=bm_ref.copy(), pixel_scales=ps)
    nb = int((~bm_ref).sum())
    C_mm = ref.conv_matrix(m, k)                       # image pixels -> image pixels
    C_mb = ref.conv_matrix(m, k, src_mask=bm_ref)      # blurring pixels -> image pixels
    zero_b = aa.Array2D(values=np.zeros(nb), mask=bmask) if nb else None

    def img(v):
        return aa.Array2D(values=np.asarray(v, float), mask=mask)

    def bimg(v):
        return aa.Array2D(values=np.asarray(v, float), mask=bmask)

    # (ii) operator extraction on basis images
    got_mm = np.zeros((n, n))
    got_nb = np.zeros((n, n))
    for s in range(n):
        e = np.zeros(n)
        e[s] = 1.0
        if nb:
            got_mm[:, s] = _np(conv.convolve_image(image=img(e), blurring_image=zero_b))
        got_nb[:, s] = _np(conv.convolve_image_no_blurring(image=img(e)))
    if nb:
        ctx.check(ctx.close(got_mm, C_mm, TOL), "op.image", expected=C_mm, got=got_mm, part="image pixels", **W)
        got_mb = np.zeros((n, nb))
        for s in range(nb):
            e = np.zeros(nb)
            e[s] = 1.0
            got_mb[:, s] = _np(conv.convolve_image(image=img(np.zeros(n)), blurring_image=bimg(e)))
        ctx.check(ctx.close(got_mb, C_mb, TOL), "op.image", expected=C_mb, got=got_mb, part="blurring pixels", **W)
    ctx.check(ctx.close(got_nb, C_mm, TOL), "op.no_blurring", expected=C_mm, got=got_nb, **W)

    # random signed images, native garbage invariance
    full = rng.normal(size=m.shape) * np.exp(rng.uniform(-2, 2))
    garbage = full.copy()
    outside = m & bm_ref
    garbage[outside] = rng.normal(size=int(outside.sum())) * 1e6
    if nb:
        out1 = _np(conv.convolve_image(image=aa.Array2D(values=full.copy(), mask=mask), blurring_image=aa.Array2D(values=full.copy(), mask=bmask)))
        exp1 = C_mm @ full[~m] + C_mb @ full[~bm_ref]
        ctx.check(ctx.close(out1, exp1, TOL), "image.random", expected=exp1, got=out1, image=full, **W)
        out2 = _np(conv.convolve_image(image=aa.Array2D(values=garbage.copy(), mask=mask), blurring_image=aa.Array2D(values=garbage.copy(), mask=bmask)))
        ctx.check(np.array_equal(out1, out2), "garbage", why="values outside mask U blurring region changed the result", got=out2, expected=out1, **W)
        # the storage format of the arguments is the caller's business: native-stored image and / or blurring image (store_native=True,
        # or the .native view) give the same convolution
        for si, sb in ((True, False), (False, True), (True, True)):
            okS, outS = ctx.guarded("image.storage_format", lambda: _np(conv.convolve_image(
                image=aa.Array2D(values=full.copy(), mask=mask, store_native=si),
                blurring_image=(aa.Array2D(values=full.copy(), mask=bmask).native if sb else aa.Array2D(values=full.copy(), mask=bmask)))))
            if okS:
                ctx.check(outS.shape == exp1.shape and ctx.close(outS, exp1, TOL), "image.storage_format", image_native=si, blurring_image_native=sb,
                          expected=exp1, got=outS, **W)
        okS, outS = ctx.guarded("image.storage_format", lambda: _np(conv.convolve_image_no_blurring(image=aa.Array2D(values=full.copy(), mask=mask, store_native=True))))
        if okS:
            ctx.check(outS.shape == (n,) and ctx.close(outS, C_mm @ full[~m], TOL), "image.storage_format", which="no_blurring", image_native=True,
                      expected=C_mm @ full[~m], got=outS, **W)
    if not nb:
        # empty blurring region (1x1 kernel): convolve_image with the (empty) blurring image of the library's own blurring mask is
        # still the true convolution, kernel[0, 0] * image
        ok0, out0 = ctx.guarded("image.random", lambda: _np(conv.convolve_image(
            image=aa.Array2D(values=full.copy(), mask=mask),
            blurring_image=aa.Array2D(values=full.copy(), mask=mask.derive_mask.blurring_from(kernel_shape_native=k.shape)))))
        if ok0:
            ctx.check(ctx.close(out0, C_mm @ full[~m], TOL), "image.random", expected=C_mm @ full[~m], got=out0, image=full, which="empty_blurring_region", **W)
            ctx.classes["convolve_image_with_empty_blurring_region"] += 1
    out3 = _np(conv.convolve_image_no_blurring(image=aa.Array2D(values=full.copy(), mask=mask)))
    ctx.check(ctx.close(out3, C_mm @ full[~m], TOL), "image.random", expected=C_mm @ full[~m], got=out3, image=full, which="no_blurring", **W)
    out4 = _np(conv.convolve_image_no_blurring(image=aa.Array2D(values=garbage.copy(), mask=mask)))
    ctx.check(np.array_equal(out3, out4), "garbage", which="no_blurring", **W)

    # (iii) mapping matrices of every kind
    for mk in ("binary", "fractional", "tiny", "signed", "signed_sparse", "cancelling"):
        M, _ = gen.mapping_matrix(rng, n, int(rng.integers(1, 5)), kind=mk)
        got = _np(conv.convolve_mapping_matrix(mapping_matrix=M.copy()))
        exp = C_mm @ M
        ctx.check(ctx.close(got, exp, TOL), "matrix.linear", matrix_kind=mk, mapping_matrix=M, expected=exp, got=got, **W)
        ctx.classes["matrix:" + mk] += 1

    # (v) whole-frame kernel convolution
    arr = aa.Array2D.no_mask(values=full.copy(), pixel_scales=ps)
    full_ref = ref.conv_full(full, k)
    okf, outf = ctx.guarded("kernel2d.full", lambda: _np(kern.convolved_array_from(array=arr).native))
    if okf:
        ctx.check(ctx.close(outf, full_ref, TOL), "kernel2d.full", expected=full_ref, got=outf, image=full, **W)
    # masked input array: convolution of the zero-filled native image, reported on the mask
    marr = aa.Array2D(values=full.copy(), mask=mask)
    okm, outm = ctx.guarded("kernel2d.full", lambda: _np(kern.convolved_array_from(array=marr)))
    if okm:
        expm = ref.conv_full(np.where(m, 0.0, full), k)[~m]
        ctx.check(ctx.close(outm, expm, TOL), "kernel2d.full", which="masked array input", expected=expm, got=outm, **W)
    okw, outw = ctx.guarded("kernel2d.masked", lambda: _np(kern.convolved_array_with_mask_from(array=arr.native, mask=mask)))
    if okw:
        ctx.check(ctx.close(outw, full_ref[~m], TOL), "kernel2d.masked", expected=full_ref[~m], got=outw, **W)
        # agreement of the two routes where both are defined: image restricted to mask U blurring region
        if nb:
            comb = np.where(~m | ~bm_ref, full, 0.0)
            a1 = _np(kern.convolved_array_with_mask_from(array=aa.Array2D.no_mask(values=comb, pixel_scales=ps).native, mask=mask))
            ctx.check(ctx.close(a1, out1, TOL), "kernel2d.masked", which="agrees with Convolver on mask U blurring image", expected=out1, got=a1, **W)

        # plain native frames in the types images arrive in (integer counts, single precision): the true convolution of those values
        for dname, frame in (("int64_counts", np.rint(full * 40.0).astype(np.int64)), ("float32", full.astype(np.float32))):
            okd, outd = ctx.guarded("kernel2d.masked", lambda: np.asarray(_np(kern.convolved_array_with_mask_from(array=frame, mask=mask)), dtype=float))
            if okd:
                expd_ = ref.conv_full(frame.astype(np.float64), k)[~m]
                ctx.check(outd.shape == expd_.shape and ctx.close(outd, expd_, TOL), "kernel2d.masked", which="frame dtype " + dname, expected=expd_, got=outd, **W)
        # garbage far outside mask U blurring region, of huge magnitude or non-finite (NaN outside a detector footprint, saturated
        # pixels): the values on the mask are exactly those of the clean image
        outside = m & bm_ref
        if outside.any():
            for gname, gval in (("1e12", 1e12), ("nan", np.nan), ("inf", np.inf)):
                gfull = full.copy()
                gfull[outside] = gval
                okg, outg = ctx.guarded("garbage", lambda: _np(kern.convolved_array_with_mask_from(array=aa.Array2D.no_mask(values=gfull, pixel_scales=ps).native, mask=mask)))
                if okg:
                    ctx.check(outg.shape == outw.shape and bool(np.all(np.abs(outg - outw) <= TOL * max(1.0, float(np.abs(outw).max())))), "garbage",
                              which="Kernel2D.convolved_array_with_mask_from", garbage=gname, got=outg, expected=outw, **W)

    cls = ["kernel:%s" % kind, "mask:%s" % fam, "kshape:%dx%d" % k.shape]
    if k.shape[0] != k.shape[1]:
        cls.append("nonsquare_kernel")
    if (k < 0).any():
        cls.append("signed_kernel")
    ctx.case(m, k, nontrivial=(k.size > 1 and n >= 2), cls=cls,
             sample=lambda: {"mask": m.astype(int).tolist(), "kernel": k.tolist(), "unmasked": n, "blurring_pixels": nb})


def run_sim_case(ctx, i):
    aa = ctx.aa
    rng = gen.rng_for(ctx.seed, NO, 2, i)
    if not ctx.begin("sim:%d" % i):
        return
    m, k, fam, kind = make_case(rng, big=False)
    if abs(k.sum()) < 0.2:
        k = k + (0.6 - k.sum()) / k.size
    if i % 5 == 2:
        # a PSF that is nearly but not exactly normalised (normalised in single precision, cut from a larger normalised stamp, rounded
        # to six decimals): the simulator and the dataset still use the same, exactly normalised, kernel
        k = k / k.sum() * (1.0 + float(rng.choice([1e-6, -1e-7, 3e-8, -2e-6])))
        kind = kind + "+nearly_normalised"
    ps, origin = gen.mild_scales_origin(rng)
    psf = aa.Kernel2D.no_mask(values=k.copy(), pixel_scales=ps)
    truth = rng.random(m.shape) + 0.1
    image = aa.Array2D.no_mask(values=truth.copy(), pixel_scales=ps, origin=origin)
    # the simulator draws its Poisson sample even when noise is switched off; a sky level keeps lam > 0 for signed kernels
    sky = 10.0 * float(np.abs(k).sum() / abs(k.sum())) * float(truth.max()) + 5.0
    sim = aa.SimulatorImaging(exposure_time=300.0, background_sky_level=sky, psf=psf, add_poisson_noise_to_data=False,
                              include_poisson_noise_in_noise_map=False, noise_seed=int(rng.integers(1, 1000)))
    W = dict(mask=m, kernel=k, scales=ps, origin=origin)
    ok, ds = ctx.guarded("simulate.zero_residual", lambda: sim.via_image_from(image=image))
    if not ok:
        return
    mask = aa.Mask2D(mask=m.copy(), pixel_scales=ps, origin=origin)
    ok, md = ctx.guarded("simulate.zero_residual", lambda: ds.apply_mask(mask=mask))
    if not ok:
        return
    if tuple(md.data.shape_native) != m.shape:
        ctx.skipped["sim:auto_padded"] += 1
        return
    bm_ref, _ = ref.blurring_mask(m, k.shape)
    bmask = aa.Mask2D(mask=bm_ref.copy(), pixel_scales=ps, origin=origin)
    if (~bm_ref).sum() == 0:
        model = _np(md.convolver.convolve_image_no_blurring(image=aa.Array2D(values=truth.copy(), mask=mask)))
    else:
        model = _np(md.convolver.convolve_image(image=aa.Array2D(values=truth.copy(), mask=mask),
                                                blurring_image=aa.Array2D(values=truth.copy(), mask=bmask)))
    data = _np(md.data)
    # sky is added and subtracted again in floating point: allow that cancellation error, nothing more
    tol = 1e-12 * (sky + float(np.abs(data).max())) * 50 + 1e-10 * max(1.0, float(np.abs(data).max()))
    ctx.check(float(np.abs(model - data).max()) <= tol, "simulate.zero_residual", residual=lambda: model - data, tol=tol, **W)
    # independent statement of the same thing: data == (K_normalised * truth) on the mask
    kn = k / k.sum()
    expd = ref.conv_full(truth, kn)[~m]
    ctx.check(float(np.abs(data - expd).max()) <= tol, "simulate.data_is_full_convolution", got=data, expected=expd, tol=tol, **W)
    # the same dataset masked with ANOTHER mask first and then with this one (the mask widened or moved to another object): still the
    # data of the simulated image under this mask, fitted with zero residual
    m_first = np.roll(m, 1, axis=1) | (rng.random(m.shape) < 0.2)
    if m_first.all():
        m_first = m.copy()
    ok2, md2 = ctx.guarded("simulate.remasked", lambda: ds.apply_mask(mask=aa.Mask2D(mask=m_first.copy(), pixel_scales=ps, origin=origin)).apply_mask(mask=mask))
    if ok2 and tuple(md2.data.shape_native) == m.shape:
        d2 = _np(md2.data)
        ctx.check(d2.shape == data.shape and float(np.abs(d2 - data).max()) <= tol and float(np.abs(_np(md2.noise_map) - _np(md.noise_map)).max()) <= tol,
                  "simulate.remasked", first_mask=m_first, got=d2, expected=data, **W)
    ctx.case("sim", m, k, nontrivial=k.size > 1, cls=["sim", "sim_kernel:%s" % kind],
             sample=lambda: {"sim": True, "mask": m.astype(int).tolist(), "kernel": k.tolist(), "sky": sky})


def run_even(ctx):
    aa = ctx.aa
    if not ctx.begin("even"):
        return
    exc = aa.exc.KernelException
    rng = gen.rng_for(ctx.seed, NO, 3)
    for (ky, kx) in [(2, 2), (2, 3), (3, 2), (4, 4), (4, 3), (1, 2), (2, 1), (6, 5), (3, 4)]:
        k = rng.random((ky, kx)) + 0.1
        kern = aa.Kernel2D.no_mask(values=k, pixel_scales=1.0)
        m = np.ones((9, 9), bool)
        m[3:6, 3:6] = False
        mask = aa.Mask2D(mask=m, pixel_scales=1.0)
        arr = aa.Array2D.no_mask(values=rng.random((9, 9)), pixel_scales=1.0)
        for name, fn in (("Convolver", lambda: aa.Convolver(mask=mask, kernel=kern)),
                         ("convolved_array_from", lambda: kern.convolved_array_from(array=arr)),
                         ("convolved_array_with_mask_from", lambda: kern.convolved_array_with_mask_from(array=arr.native, mask=mask))):
            try:
                fn()
                raised = "nothing"
            except exc:
                raised = "KernelException"
            except Exception as e:
                raised = repr(e)[:120]
            ctx.check(raised == "KernelException", "even.rejected", entry=name, kernel_shape=(ky, kx), raised=raised)
        ctx.case("even", (ky, kx), nontrivial=True, cls=["even_kernel"], sample=None)


def run_unit(ctx, u):
    if u["kind"] == "op":
        for i in range(u["start"], u["stop"]):
            run_op_case(ctx, i)
    elif u["kind"] == "sim":
        for i in range(u["start"], u["stop"]):
            run_sim_case(ctx, i)
    else:
        run_even(ctx)
