from common import *
import logging; logging.disable(logging.CRITICAL)
import scipy.signal
rng=np.random.default_rng(5)
bad=dict(img=0,nob=0,mm_pos=0,mm_signed=0,sim=0); N=0
for t in range(60):
    ky,kx=rng.choice([1,3,5,7]),rng.choice([1,3,5,7])
    H,W=rng.integers(ky+2,ky+8),rng.integers(kx+2,kx+8)
    m=np.ones((H,W),bool); inner=rng.random((H-2*(ky//2),W-2*(kx//2)))<0.4
    if inner.all(): inner[0,0]=False
    m[ky//2:H-ky//2,kx//2:W-kx//2]=inner
    mask=aa.Mask2D(mask=m,pixel_scales=1.0)
    k=rng.normal(size=(ky,kx)); kern=aa.Kernel2D.no_mask(values=k,pixel_scales=1.0)
    conv=aa.Convolver(mask=mask,kernel=kern)
    bm=mask.derive_mask.blurring_from((ky,kx))
    full=rng.normal(size=(H,W))
    img=aa.Array2D(values=full,mask=mask); bimg=aa.Array2D(values=full,mask=bm)
    comb=np.where(~m|~np.array(bm),full,0.0)
    ref=scipy.signal.convolve2d(comb,k,mode='same')[~m]
    out=conv.convolve_image(img,bimg).array
    if not np.allclose(out,ref,atol=1e-10): bad['img']+=1
    ref2=scipy.signal.convolve2d(np.where(~m,full,0),k,mode='same')[~m]
    if not np.allclose(conv.convolve_image_no_blurring(img).array,ref2,atol=1e-10): bad['nob']+=1
    n=(~m).sum(); M=rng.random((n,4))
    C=np.zeros((n,n))
    for j in range(n):
        e=np.zeros(n); e[j]=1; C[:,j]=conv.convolve_image_no_blurring(aa.Array2D(values=e,mask=mask)).array
    if not np.allclose(conv.convolve_mapping_matrix(M),C@M,atol=1e-10): bad['mm_pos']+=1
    Ms=rng.normal(size=(n,4))
    if not np.allclose(conv.convolve_mapping_matrix(Ms),C@Ms,atol=1e-10): bad['mm_signed']+=1
    N+=1
print(N,bad)
