from common import *
import logging; logging.disable(logging.CRITICAL)
from p04 import build
import copy
class Func(aa.AbstractLinearObjFuncList):
    def __init__(self,grid,M,regularization=None):
        super().__init__(grid=grid,regularization=regularization); self._M=M
    @property
    def params(self): return self._M.shape[1]
    @property
    def mapping_matrix(self): return self._M
bad={}
def flag(k,info=None):
    bad.setdefault(k,[0,None]); bad[k][0]+=1
    if bad[k][1] is None: bad[k][1]=info
def quantities(inv):
    return dict(D=inv.data_vector.copy(),F=inv.curvature_matrix.copy(),H=inv.regularization_matrix.copy(),s=inv.reconstruction.copy(),
                md=inv.mapped_reconstructed_data.array.copy(),rt=float(inv.regularization_term),l1=float(inv.log_det_curvature_reg_matrix_term),l2=float(inv.log_det_regularization_matrix_term))
def same(a,b,rt=1e-7):
    return all(np.allclose(a[k],b[k],rtol=rt,atol=1e-9) for k in a)
for s in range(12):
    for use_w in (True,False):
        ds,mapper=build(9,9,(3,3),False,sub=1+s%2,seed=s)
        rng=np.random.default_rng(s)
        objs=[mapper]
        if s%3==1:
            f=Func(grid=ds.grids.uniform,M=rng.random((ds.mask.pixels_in_mask,2)),regularization=None); objs=[f,mapper] if s%2 else [mapper,f]
        st=aa.SettingsInversion(use_w_tilde=use_w,use_positive_only_solver=False,no_regularization_add_to_curvature_diag_value=1e-3)
        base=aa.Inversion(dataset=ds,linear_obj_list=objs,settings=st)
        q0=quantities(base)
        # preload sets
        cand=dict(curvature_matrix=q0['F'],regularization_matrix=q0['H'],log_det_regularization_matrix_term=q0['l2'],operated_mapping_matrix=base.operated_mapping_matrix.copy(),w_tilde=ds.w_tilde)
        for keys in [('curvature_matrix',),('regularization_matrix','log_det_regularization_matrix_term'),('operated_mapping_matrix',),('w_tilde',),tuple(cand)]:
            pre=aa.Preloads(**{k:cand[k] for k in keys})
            fp=cand['curvature_matrix'].copy()
            outs=[]
            for rep in range(3):
                inv=aa.Inversion(dataset=ds,linear_obj_list=objs,settings=st,preloads=pre)
                try:
                    q=quantities(inv)
                except Exception as e:
                    flag(f'exc use_w={use_w} keys={keys}',repr(e)[:100]); break
                if not same(q0,q): flag(f'differs use_w={use_w} keys={keys} rep={rep}',(s,[k for k in q if not np.allclose(q0[k],q[k],rtol=1e-7,atol=1e-9)]))
            if not np.array_equal(fp,cand['curvature_matrix']): flag(f'preload curvature mutated use_w={use_w} keys={keys}')
for k,v in bad.items(): print(k,v)
print('done')
