"""
Known findings: genuine defects recorded (not repaired) in /verif/known_findings.json.

Each entry names a classifier below, which recognises the *mechanism* from the witness a monitor
recorded (never a case hash, seed or random value). A fired witness matched by a listed classifier
prints one KNOWN-FINDING line per mechanism and does not fail the run; anything else is a VIOLATION.
The file is never written at run time; 'fixed' entries suppress nothing.
"""
import json
import os

from harness import env


def c09_iterate_zero_shortcut(w):
    # OverSamplerIterate.array_via_func_from: every pixel-centre (level-1) value is exactly 0 and the
    # returned array is all 0 although the stated rule gives a non-zero value somewhere.
    return (w.get("monitor") == "iterate.rule" and w.get("all_centre_values_zero") is True
            and w.get("result_all_zero") is True and w.get("reference_all_zero") is False)


def c11_values_masked_inplace(w):
    # MapperValued.values_masked zeroes the caller-owned `values` array in place (only with a mesh_pixel_mask).
    # Two faces of the same mechanism: the fingerprint of `values` changes during MapperValued.values_masked, and the
    # public attribute mapper_valued.values therefore reads differently after any query of the valued mapper.
    if w.get("mesh_pixel_mask") is not True:
        return False
    if w.get("monitor") == "input_fingerprint":
        return w.get("callee") == "MapperValued.values_masked" and w.get("mutated") == ["values"]
    if w.get("monitor") == "order.matches_baseline":
        return w.get("quantity") == "mapper_valued.values" and w.get("same_object_queried_earlier") is True
    return False


def c05_absolute_tolerance(w):
    # fnnls_cholesky: tolerance = 2.2204e-16 * n is absolute, for the coefficient test and for the gradient (stopping) test.
    # (a) an optimum whose largest entry is within 1e3 of it is truncated
    if (w.get("monitor") == "kkt.solver.tiny_solution" and w.get("solution_scale_below_absolute_tolerance") is True
            and float(w.get("reference_max", 1.0)) <= 1e3 * float(w.get("abs_tolerance", 0.0))):
        return True
    # (b) a system in units where the data vector is tiny (|D| ~ 1e-12): the solver stops as soon as every gradient component of
    # the parameters at the bound is below 2.2204e-16 * n, although relative to |D| they are far from zero. Recognised by: the
    # returned vector is feasible and stationary on its positive entries, and EVERY offending gradient component is below the
    # solver's own absolute threshold (so the solver's stopping test was met) - nothing else is excused.
    if w.get("monitor") in ("kkt.solver", "kkt.solver.warm", "kkt.inversion", "kkt.inversion.prod_defaults"):
        g, sv, tau = w.get("g"), w.get("s"), w.get("tau")
        if (isinstance(g, list) and isinstance(sv, list) and len(g) == len(sv) and tau is not None
                and int(w.get("negative_entries", 1)) == 0 and int(w.get("gradient_nonzero_on_positive", 1)) == 0
                and int(w.get("gradient_negative_on_zero", 0)) > 0):
            n = len(g)
            eps = 1e-12 * (1.0 + max(abs(float(x)) for x in sv))
            off = [-float(gi) for gi, si in zip(g, sv) if not (float(si) > eps) and float(gi) < -float(tau)]
            return bool(off) and max(off) <= 2.2204e-16 * n
    return False


CLASSIFIERS = {
    "c05_absolute_tolerance": c05_absolute_tolerance,
    "c09_iterate_zero_shortcut": c09_iterate_zero_shortcut,
    "c11_values_masked_inplace": c11_values_masked_inplace,
}


def load():
    p = os.path.join(env.VERIF, "known_findings.json")
    if not os.path.exists(p):
        return {"known": [], "fixed": []}
    return json.load(open(p))


def classify(pid, witnesses):
    kf = [k for k in load().get("known", []) if k["property"] == pid]
    lines, new, seen = [], [], set()
    for w in witnesses:
        hit = None
        for k in kf:
            fn = CLASSIFIERS.get(k["classifier"])
            try:
                if fn is not None and fn(w):
                    hit = k
                    break
            except Exception:
                pass
        if hit is None:
            new.append(w)
        elif hit["mechanism"] not in seen:
            seen.add(hit["mechanism"])
            lines.append("KNOWN-FINDING: property=%s %s: %s" % (pid, hit["mechanism"], hit["what"]))
    return lines, new
