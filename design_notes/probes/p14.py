from common import *
import logging; logging.disable(logging.CRITICAL)
rng=np.random.default_rng(14)
bad={}
def flag(k,info=None):
    bad.setdefault(k,[0,None]); bad[k][0]+=1
    if bad[k][1] is None: bad[k][1]=info
def ref_resize(a,new,pad=0.0):
    H,W=a.shape; out=np.full(new,pad,dtype=float)
    # candidates for offsets: centred; parity mismatch -> two possible
    return out
for t in range(300):
    H,W=rng.integers(1,8),rng.integers(1,8); nH,nW=rng.integers(1,10),rng.integers(1,10)
    vals=rng.normal(size=(H,W))
    ps=(rng.uniform(0.2,2),rng.uniform(0.2,2)); org=tuple(rng.normal(size=2))
    a=aa.Array2D.no_mask(values=vals,pixel_scales=ps,origin=org)
    r=a.resized_from((nH,nW))
    out=r.native.array
    # per-axis check: offset o = position of input row 0 in output (may be negative)
    def offsets(n,N):
        d=N-n
        if d%2==0: return [d//2]
        return [int(np.floor(d/2)),int(np.ceil(d/2))]
    ok=False
    for oy in offsets(H,nH):
        for ox in offsets(W,nW):
            exp=np.zeros((nH,nW))
            for i in range(H):
                for j in range(W):
                    I,J=i+oy,j+ox
                    if 0<=I<nH and 0<=J<nW: exp[I,J]=vals[i,j]
            if np.array_equal(exp,out): ok=True
    if not ok: flag('resize',(H,W,nH,nW))
    # parity preserved -> coordinates attach
    if (nH-H)%2==0 and (nW-W)%2==0:
        g0=aa.Grid2D.from_mask(a.mask).native.array; g1=aa.Grid2D.from_mask(r.mask).native.array
        oy,ox=(nH-H)//2,(nW-W)//2
        for i in range(H):
            for j in range(W):
                I,J=i+oy,j+ox
                if 0<=I<nH and 0<=J<nW and not np.allclose(g0[i,j],g1[I,J],atol=1e-12): flag('coord',(H,W,nH,nW)); break
    # pad then trim
    ky,kx=rng.choice([1,3,5]),rng.choice([1,3,5])
    p=a.padded_before_convolution_from((ky,kx)); tr=p.trimmed_after_convolution_from((ky,kx))
    if not (np.array_equal(tr.native.array,vals)): flag('padtrim',(H,W,ky,kx))
    # enlarge then shrink
    bH,bW=H+rng.integers(0,4),W+rng.integers(0,4)
    back=a.resized_from((bH,bW)).resized_from((H,W))
    if not np.array_equal(back.native.array,vals): flag('growshrink',(H,W,bH,bW))
print(bad)
