"""
C01 - slim and native forms are exact, order-preserving inverses under any mask.

Workload: exhaustive enumeration of every boolean mask (>= 1 unmasked pixel) of every shape with
H*W <= bound (2-D) / length <= bound (1-D) + seeded hostile random masks of larger shapes.
Oracle: NumPy boolean indexing (values[~mask], np.where(mask, 0, values), np.argwhere, np.flatnonzero),
independent of the repository's gather/scatter loops; bit-exact. Values are unique per cell, so a read
identifies the cell it came from. Contracts (icontract) on the nine gather/scatter/index utilities see every
internal call made by the constructors.
"""
import copy

import numpy as np

from harness import env, gen
from harness.monitors import contracts

ID = "C01"
NO = 1
RULE = ("every boolean mask with >=1 unmasked pixel of every shape H*W<=bound is enumerated (plus all 1-D masks up to "
        "the bound and seeded hostile random masks up to 12x15); per mask Array2D/Grid2D/VectorYX2D are built from slim "
        "and from native (garbage in masked cells) input, stored slim and native, with unique per-cell values. A case = "
        "(dimension, mask); distinct = distinct (shape, mask bits); non-trivial = at least one masked and one unmasked "
        "pixel (all-unmasked masks are run but counted trivial)")
BOUNDS = {"quick": "2-D: all masks with H*W<=12; 1-D: all masks with length<=12; 600 random masks up to 12x15",
          "thorough": "2-D: all masks with H*W<=16; 1-D: all masks with length<=16; 6000 random masks up to 12x15"}
EXHAUSTIVE = {"quick": True, "thorough": True}
ASSUMPTIONS = ["1-D native-stored inputs are not required to be zero-filled (the statement claims 1-D round trips only)"]
QUICK_JOBS = 16
CHUNK = 4096

_CONTRACTS = ["contract:array_2d_util.array_2d_slim_from", "contract:array_2d_util.array_2d_native_from",
              "contract:array_2d_util.array_2d_via_indexes_from", "contract:grid_2d_util.grid_2d_slim_from",
              "contract:grid_2d_util.grid_2d_native_from", "contract:array_1d_util.array_1d_slim_from",
              "contract:array_1d_util.array_1d_native_from", "contract:mask_2d_util.native_index_for_slim_index_2d_from",
              "contract:mask_2d_util.mask_slim_indexes_from"]
MIN_MONITORS = {"*": dict({c: 1 for c in _CONTRACTS}, **{"array2d.slim": 1, "grid2d.native": 1, "vector.slim": 1,
                                                         "indexes.native_for_slim": 1, "array1d.roundtrip": 1, "shared_input.two_masks": 1,
                                                         "shared_input.remasked_structure": 1, "history.native_after_assignment": 20,
                                                         "history.indexes_after_mask_edit": 20, "mask_spelling.same_as_boolean": 20, "remask.apply_mask_on_masked_structure": 20,
                                                         "native_only.masked_positions_zero": 100, "ownership.callers_mask_array_reused": 20,
                                                         "ownership.np_array_is_a_copy": 20, "ownership.same_content_other_shapes": 20})}


def plan(tier, seed):
    cells = 12 if tier == "quick" else 16
    units = []
    for (H, W) in gen.shapes_upto(cells):
        total = (1 << (H * W)) - 1
        for s in range(0, total, CHUNK):
            units.append({"kind": "enum2d", "H": H, "W": W, "start": s, "stop": min(total, s + CHUNK),
                          "w": min(total, s + CHUNK) - s})
    for L in range(1, cells + 1):
        total = (1 << L) - 1
        for s in range(0, total, CHUNK * 4):
            units.append({"kind": "enum1d", "L": L, "start": s, "stop": min(total, s + CHUNK * 4),
                          "w": (min(total, s + CHUNK * 4) - s) * 0.3})
    nrand = 600 if tier == "quick" else 6000
    for s in range(0, nrand, 100):
        units.append({"kind": "rand2d", "start": s, "stop": s + 100, "w": 100 * 8})
    # the shipped option general.structures.native_binned_only switched on (everything is kept native, PyAutoCTI's mode): the native
    # form still holds the values at their pixels with every masked position zero, whichever form was supplied
    nno = 150 if tier == "quick" else 3000
    for s in range(0, nno, 50):
        units.append({"kind": "native_only", "start": s, "stop": s + 50, "w": 50 * 4})
    if tier == "thorough":
        units.append({"kind": "suite", "w": 40000})      # the repository's own tests with the contracts installed
    return units


# ------------------------------------------------------------------------------ contracts
def _np(x):
    return np.asarray(x.array if hasattr(x, "array") and not isinstance(x, np.ndarray) else x)


def post_slim(ctx, a, result, old):
    nat, m = _np(a["array_2d_native"]), _np(a["mask_2d"]).astype(bool)
    if nat.ndim != 2 or nat.shape != m.shape:
        return None
    exp = nat[~m]
    return (np.array_equal(_np(result), exp), {"mask": m, "expected": exp, "got": _np(result)})


def post_native(ctx, a, result, old):
    sl, m = _np(a["array_2d_slim"]), _np(a["mask_2d"]).astype(bool)
    if sl.ndim != 1 or sl.shape[0] != (~m).sum():
        return None
    exp = np.zeros(m.shape, dtype=_np(result).dtype)
    exp[~m] = sl
    return (np.array_equal(_np(result), exp), {"mask": m, "expected": exp, "got": _np(result)})


def post_via_indexes(ctx, a, result, old):
    sl, idx = _np(a["array_2d_slim"]), _np(a["native_index_for_slim_index_2d"]).astype(int)
    shape = tuple(int(s) for s in a["shape"])
    if sl.ndim != 1 or idx.shape != (sl.shape[0], 2):
        return None
    exp = np.zeros(shape, dtype=_np(result).dtype)
    for k in range(sl.shape[0]):
        exp[idx[k, 0], idx[k, 1]] = sl[k]
    return (np.array_equal(_np(result), exp), {"expected": exp, "got": _np(result)})


def post_grid_slim(ctx, a, result, old):
    nat, m = _np(a["grid_2d_native"]), _np(a["mask"]).astype(bool)
    if nat.ndim != 3 or nat.shape[:2] != m.shape:
        return None
    exp = nat[~m]
    return (np.array_equal(_np(result), exp), {"mask": m, "expected": exp, "got": _np(result)})


def post_grid_native(ctx, a, result, old):
    sl, m = _np(a["grid_2d_slim"]), _np(a["mask_2d"]).astype(bool)
    if sl.ndim != 2 or sl.shape[0] != (~m).sum():
        return None
    exp = np.zeros(m.shape + (2,), dtype=_np(result).dtype)
    exp[~m] = sl
    return (np.array_equal(_np(result), exp), {"mask": m, "expected": exp, "got": _np(result)})


def post_slim_1d(ctx, a, result, old):
    nat, m = _np(a["array_1d_native"]), _np(a["mask_1d"]).astype(bool)
    if nat.ndim != 1 or nat.shape != m.shape:
        return None
    return (np.array_equal(_np(result), nat[~m]), {"mask": m, "expected": nat[~m], "got": _np(result)})


def post_native_1d(ctx, a, result, old):
    sl, m = _np(a["array_1d_slim"]), _np(a["mask_1d"]).astype(bool)
    if sl.ndim != 1 or sl.shape[0] != (~m).sum():
        return None
    exp = np.zeros(m.shape, dtype=_np(result).dtype)
    exp[~m] = sl
    return (np.array_equal(_np(result), exp), {"mask": m, "expected": exp, "got": _np(result)})


def post_native_for_slim(ctx, a, result, old):
    m = _np(a["mask_2d"]).astype(bool)
    if m.ndim != 2:
        return None
    exp = np.argwhere(~m)
    return (np.array_equal(_np(result), exp), {"mask": m, "expected": exp, "got": _np(result)})


def post_mask_slim_indexes(ctx, a, result, old):
    m = _np(a["mask_2d"]).astype(bool)
    if m.ndim != 2:
        return None
    exp = np.flatnonzero(m.ravel() == bool(a["return_masked_indexes"]))
    return (np.array_equal(_np(result), exp), {"mask": m, "want_masked": bool(a["return_masked_indexes"]),
                                              "expected": exp, "got": _np(result)})


def install_contracts(ctx):
    from autoarray.structures.arrays import array_2d_util, array_1d_util
    from autoarray.structures.grids import grid_2d_util
    from autoarray.mask import mask_2d_util
    contracts.attach(ctx, array_2d_util, "array_2d_slim_from", post_slim)
    contracts.attach(ctx, array_2d_util, "array_2d_native_from", post_native)
    contracts.attach(ctx, array_2d_util, "array_2d_via_indexes_from", post_via_indexes)
    contracts.attach(ctx, grid_2d_util, "grid_2d_slim_from", post_grid_slim)
    contracts.attach(ctx, grid_2d_util, "grid_2d_native_from", post_grid_native)
    contracts.attach(ctx, array_1d_util, "array_1d_slim_from", post_slim_1d)
    contracts.attach(ctx, array_1d_util, "array_1d_native_from", post_native_1d)
    contracts.attach(ctx, mask_2d_util, "native_index_for_slim_index_2d_from", post_native_for_slim)
    contracts.attach(ctx, mask_2d_util, "mask_slim_indexes_from", post_mask_slim_indexes)


# ------------------------------------------------------------------------------ workload
def setup(ctx):
    ctx.aa = env.boot("base")
    install_contracts(ctx)


def teardown(ctx):
    contracts.detach_all()


def classes_of(m):
    c = []
    H, W = m.shape
    if H != W:
        c.append("non_square")
    if H == 1 or W == 1:
        c.append("one_row_or_col")
    if (~m[:, -1]).any():
        c.append("unmasked_in_last_col")
    if (~m[-1, :]).any():
        c.append("unmasked_in_last_row")
    if (~m).all(axis=1).any():
        c.append("fully_unmasked_row")
    if (~m).sum() == 1:
        c.append("single_unmasked")
    if not m.any():
        c.append("all_unmasked")
    return c


def check_2d(ctx, m, rng, full=True, lite=False):
    aa = ctx.aa
    H, W = m.shape
    n = int((~m).sum())
    key = "2d:%dx%d:%s" % (H, W, np.packbits(m.ravel()).tobytes().hex())
    if not ctx.begin(key):
        return
    mask = aa.Mask2D(mask=m.copy(), pixel_scales=(1.0, 2.0))
    idx = np.arange(H * W, dtype=float).reshape(H, W)
    # unique per-cell values (negative set second); masked cells of native inputs carry garbage
    signs = (1.0, -1.0, "int") + (("big_endian",) if (int(m.sum()) * 7 + 3 * H + W) % 4 == 0 else ())
    for sign in (signs if full else (1.0,)):
        if sign == "int":
            nat = (1 + 3 * idx).astype(np.int64)          # integer-typed values (counts, labels): same claims, compared by value
            ctx.classes["integer_typed_values"] += 1
        elif sign == "big_endian":
            # values in a non-native byte order (what astropy hands out as hdu.data, np.fromfile(dtype=">f4")): the same numbers
            nat = (1.0 + idx + 0.25 * rng.random((H, W))).astype(">f8" if (H + W) % 2 else ">f4")
            ctx.classes["values_in_non_native_byte_order"] += 1
        else:
            nat = sign * (1.0 + idx + 0.25 * rng.random((H, W)))
        exp_slim = nat[~m]
        exp_nat = np.where(m, 0.0, nat)
        gnat = np.stack([nat, -3 * nat + 1], axis=-1) if sign == "int" else np.stack([nat, -3.0 * nat + 0.5], axis=-1).astype(nat.dtype if sign == "big_endian" else float)
        gexp_slim = gnat[~m]
        gexp_nat = np.where(m[:, :, None], 0.0, gnat)
        for store_native in (False, True):
            for inp_native in (False, True):
                if lite and inp_native == store_native:
                    continue        # lite: only the two conversions (native in -> slim stored, slim in -> native stored)
                tag = "%s_in,%s_stored" % ("native" if inp_native else "slim", "native" if store_native else "slim")
                A = aa.Array2D(values=(nat.copy() if inp_native else exp_slim.copy()), mask=mask, store_native=store_native)
                ctx.check(np.array_equal(_np(A.slim), exp_slim), "array2d.slim", mask=m, how=tag, expected=exp_slim, got=lambda: _np(A.slim))
                ctx.check(np.array_equal(_np(A.native), exp_nat), "array2d.native", mask=m, how=tag, expected=exp_nat, got=lambda: _np(A.native))
                ctx.check(np.array_equal(_np(A.array), exp_nat if store_native else exp_slim), "array2d.array", mask=m, how=tag,
                          got=lambda: _np(A.array))
                G = aa.Grid2D(values=(gnat.copy() if inp_native else gexp_slim.copy()), mask=mask, store_native=store_native)
                ctx.check(np.array_equal(_np(G.slim), gexp_slim), "grid2d.slim", mask=m, how=tag, expected=gexp_slim, got=lambda: _np(G.slim))
                ctx.check(np.array_equal(_np(G.native), gexp_nat), "grid2d.native", mask=m, how=tag, expected=gexp_nat, got=lambda: _np(G.native))
                if full:
                    V = aa.VectorYX2D(values=(gnat.copy() if inp_native else gexp_slim.copy()),
                                      grid=(gnat[:, :, ::-1].copy() if inp_native else gexp_slim[:, ::-1].copy()),
                                      mask=mask, store_native=store_native)
                    ctx.check(np.array_equal(_np(V.slim), gexp_slim), "vector.slim", mask=m, how=tag, expected=gexp_slim, got=lambda: _np(V.slim))
                    ctx.check(np.array_equal(_np(V.native), gexp_nat), "vector.native", mask=m, how=tag, expected=gexp_nat, got=lambda: _np(V.native))
        if lite:
            continue
        # round trips through the public conversions
        A = aa.Array2D(values=exp_slim.copy(), mask=mask)
        ctx.check(np.array_equal(_np(A.native.slim), exp_slim), "array2d.slim_native_slim", mask=m)
        B = aa.Array2D(values=nat.copy(), mask=mask, store_native=True)
        ctx.check(np.array_equal(_np(B.slim.native), exp_nat), "array2d.native_slim_native", mask=m)
        # structures derived from a native-stored one (arithmetic that does not map 0 to 0 acts on the whole stored
        # array): their slim / native forms must still list the unmasked values and zero the masked positions
        for nm, Dv, ref_nat in (() if not full else (("native+1.5", B.native + 1.5, nat + 1.5), ("2-native", 2.0 - B, 2.0 - nat),
                                ("grid_native+0.5", aa.Grid2D(values=gnat.copy(), mask=mask, store_native=True) + 0.5, gnat + 0.5))):
            zm = m if ref_nat.ndim == 2 else m[:, :, None]
            ctx.check(np.array_equal(_np(Dv.native), np.where(zm, 0.0, ref_nat)) and np.array_equal(_np(Dv.slim), ref_nat[~m]),
                      "derived.native_zero_fill", mask=m, how=nm, got=lambda: _np(Dv.native))
    if full:
        # one native input reused for two structures with different masks, and a native-stored structure re-masked: each
        # structure must list the values of *its* unmasked pixels (a constructor that masks its input in place would zero
        # pixels that the second mask still needs)
        m2 = np.roll(m, 1, axis=1)
        if np.array_equal(m2, m) or m2.all():
            m2 = ~m if m.any() else m2
        if not np.array_equal(m2, m) and not m2.all():
            mask2 = aa.Mask2D(mask=m2.copy(), pixel_scales=(1.0, 2.0))
            pristine = 1.0 + idx + 0.25 * rng.random((H, W))
            for store_native in (False, True):
                shared = pristine.copy()
                A1 = aa.Array2D(values=shared, mask=mask, store_native=store_native)
                A2 = aa.Array2D(values=shared, mask=mask2, store_native=store_native)
                ok12 = (np.array_equal(_np(A2.slim), pristine[~m2]) and np.array_equal(_np(A2.native), np.where(m2, 0.0, pristine))
                        and np.array_equal(_np(A1.slim), pristine[~m]) and np.array_equal(_np(A1.native), np.where(m, 0.0, pristine)))
                ctx.check(ok12, "shared_input.two_masks", mask=m, second_mask=m2, store_native=store_native, got=lambda: [_np(A1.slim), _np(A2.slim)])
                gsh = np.stack([pristine, -2.0 * pristine], axis=-1)
                gpr = gsh.copy()
                G1 = aa.Grid2D(values=gsh, mask=mask, store_native=store_native)
                G2 = aa.Grid2D(values=gsh, mask=mask2, store_native=store_native)
                ctx.check(np.array_equal(_np(G2.slim), gpr[~m2]) and np.array_equal(_np(G1.slim), gpr[~m]), "shared_input.two_masks", structure="Grid2D",
                          mask=m, second_mask=m2, store_native=store_native)
            # apply_mask on structures that are ALREADY masked (both storage modes), incl. removing the mask again with an all-False
            # mask: the result lists the values of the pixels unmasked in BOTH masks, zero elsewhere
            for m_new, how in ((m2, "other_mask"), (m, "same_mask"), (np.zeros((H, W), bool), "all_false")):
                mk_new = aa.Mask2D(mask=m_new.copy(), pixel_scales=(1.0, 2.0))
                both = np.where(m_new | m, 0.0, pristine)
                gboth = np.where((m_new | m)[:, :, None], 0.0, np.stack([pristine, -2.0 * pristine], axis=-1))
                for store_native in (False, True):
                    try:
                        A0 = aa.Array2D(values=pristine.copy(), mask=mask, store_native=store_native)
                        Am = A0.apply_mask(mask=mk_new)
                        okA = (np.array_equal(_np(Am.native), both) and np.array_equal(_np(Am.slim), both[~m_new])
                               and np.array_equal(np.asarray(Am.mask), m_new) and np.array_equal(_np(A0.native), np.where(m, 0.0, pristine)))
                        V0 = aa.VectorYX2D(values=np.stack([pristine, -2.0 * pristine], axis=-1), grid=np.stack([pristine, pristine], axis=-1), mask=mask, store_native=store_native)
                        Vm = V0.apply_mask(mask=mk_new)
                        okV = np.array_equal(_np(Vm.native), gboth) and np.array_equal(_np(Vm.slim), gboth[~m_new])
                        ctx.check(okA and okV, "remask.apply_mask_on_masked_structure", how=how, array_ok=okA, vectors_ok=okV, first_mask=m, second_mask=m_new,
                                  store_native=store_native, got=lambda: [_np(Am.native), _np(Vm.native)[:, :, 0]])
                    except Exception as e:
                        ctx.check(False, "remask.apply_mask_on_masked_structure", how=how, first_mask=m, second_mask=m_new, store_native=store_native, exception=repr(e)[:200])
            B1 = aa.Array2D(values=pristine.copy(), mask=aa.Mask2D(mask=np.zeros((H, W), bool), pixel_scales=(1.0, 2.0)), store_native=True)
            C1 = aa.Array2D(values=B1, mask=mask)            # re-masking a native-stored structure
            C2 = aa.Array2D(values=B1, mask=mask2)
            ctx.check(np.array_equal(_np(C1.slim), pristine[~m]) and np.array_equal(_np(C2.slim), pristine[~m2]) and np.array_equal(_np(B1.native), pristine),
                      "shared_input.remasked_structure", mask=m, second_mask=m2, got=lambda: [_np(C1.slim), _np(C2.slim)])
    if full and n >= 1:
        # history: the native forms were read above; now values are assigned in place (structure[k] = v, structure[:, 1] += c,
        # native-stored structure[y, x] = v) and a copy is edited - the native form must hold the values the structure holds NOW
        sl0 = 1.0 + np.arange(n) + 0.25 * rng.random(n)
        k = int(rng.integers(n))
        yk, xk = np.argwhere(~m)[k]
        A = aa.Array2D(values=sl0.copy(), mask=mask)
        _ = _np(A.native)
        A[k] = -77.5
        cur = sl0.copy(); cur[k] = -77.5
        natc = np.zeros((H, W)); natc[~m] = cur
        ctx.check(np.array_equal(_np(A.slim), cur) and np.array_equal(_np(A.native), natc) and np.array_equal(_np(A.native.slim), cur),
                  "history.native_after_assignment", structure="Array2D slim-stored", mask=m, k=k, expected=natc, got=lambda: _np(A.native))
        gs0 = np.stack([sl0, -3.0 * sl0 + 0.5], axis=-1)
        G = aa.Grid2D(values=gs0.copy(), mask=mask)
        _ = _np(G.native)
        G[k] = (10.25, -20.5)
        gcur = gs0.copy(); gcur[k] = (10.25, -20.5)
        gnc = np.zeros((H, W, 2)); gnc[~m] = gcur
        ok1 = np.array_equal(_np(G.slim), gcur) and np.array_equal(_np(G.native), gnc) and np.array_equal(_np(G.native.slim), gcur)
        G[:, 1] += 0.375
        gcur[:, 1] += 0.375
        gnc[~m] = gcur
        ok2 = np.array_equal(_np(G.slim), gcur) and np.array_equal(_np(G.native), gnc)
        Gc = copy.copy(G)
        Gc[k] = (1.5, 2.5)
        gcc = gcur.copy(); gcc[k] = (1.5, 2.5)
        gncc = gnc.copy(); gncc[yk, xk] = (1.5, 2.5)
        ok3 = np.array_equal(_np(Gc.native), gncc) and np.array_equal(_np(G.native), gnc)
        ctx.check(ok1 and ok2 and ok3, "history.native_after_assignment", structure="Grid2D slim-stored", mask=m, k=k, step_ok=[ok1, ok2, ok3],
                  expected=gnc, got=lambda: _np(G.native))
        GN = aa.Grid2D(values=gnc.copy(), mask=mask, store_native=True)
        _ = (_np(GN.native), _np(GN.slim))
        GN[yk, xk] = (7.125, 8.25)
        gn2 = gnc.copy(); gn2[yk, xk] = (7.125, 8.25)
        ctx.check(np.array_equal(_np(GN.native), gn2) and np.array_equal(_np(GN.slim), gn2[~m]), "history.native_after_assignment",
                  structure="Grid2D native-stored", mask=m, pixel=(int(yk), int(xk)), expected=gn2, got=lambda: _np(GN.native))
    if full:
        # the same mask supplied in the other documented spellings (0/1 integers, 0.0/1.0 floats, nested lists): "True or 1" is
        # masked; every conversion must behave as for the boolean array
        nat_r = 1.0 + idx + 0.25 * rng.random((H, W))
        for spelling, raw in (("int64", m.astype(np.int64)), ("float64", m.astype(np.float64)), ("uint8", m.astype(np.uint8)),
                              ("list_of_int", m.astype(int).tolist()), ("list_of_bool", m.tolist()),
                              ("fortran_ordered_bool", np.asfortranarray(m)), ("transposed_view", np.ascontiguousarray(m.T).T)):
            try:
                mk = aa.Mask2D(mask=raw, pixel_scales=(1.0, 2.0))
                A1 = aa.Array2D(values=nat_r.copy(), mask=mk)
                A2 = aa.Array2D(values=nat_r[~m].copy(), mask=mk, store_native=True)
                G1 = aa.Grid2D(values=np.stack([nat_r, -nat_r], axis=-1), mask=mk)
                good = (np.asarray(mk).dtype == bool and np.array_equal(np.asarray(mk), m)
                        and np.array_equal(_np(A1.slim), nat_r[~m]) and np.array_equal(_np(A1.native), np.where(m, 0.0, nat_r))
                        and np.array_equal(_np(A2.native), np.where(m, 0.0, nat_r)) and np.array_equal(_np(A2.slim), nat_r[~m])
                        and np.array_equal(_np(A1.native.slim), nat_r[~m])
                        and np.array_equal(_np(G1.slim)[:, 1], -nat_r[~m]) and np.array_equal(_np(G1.native)[:, :, 0], np.where(m, 0.0, nat_r))
                        and np.array_equal(_np(mk.derive_indexes.native_for_slim), np.argwhere(~m))
                        and np.array_equal(_np(mk.derive_indexes.unmasked_slim), np.flatnonzero(~m.ravel()))
                        and np.array_equal(_np(mk.derive_indexes.masked_slim), np.flatnonzero(m.ravel())))
                ctx.check(good, "mask_spelling.same_as_boolean", spelling=spelling, mask=m, got=lambda: [_np(A1.slim), _np(A1.native)])
            except Exception as e:
                ctx.check(False, "mask_spelling.same_as_boolean", spelling=spelling, mask=m, exception=repr(e)[:200])
    di = mask.derive_indexes
    nfs = _np(di.native_for_slim)
    ctx.check(np.array_equal(nfs, np.argwhere(~m)), "indexes.native_for_slim", mask=m, got=nfs)
    un, ma = _np(di.unmasked_slim), _np(di.masked_slim)
    ctx.check(np.array_equal(un, np.flatnonzero(~m.ravel())), "indexes.unmasked_slim", mask=m, got=un)
    ctx.check(np.array_equal(ma, np.flatnonzero(m.ravel())), "indexes.masked_slim", mask=m, got=ma)
    ctx.check(np.array_equal(np.sort(np.concatenate([un, ma])), np.arange(H * W)), "indexes.partition", mask=m)
    # slim index k <-> k-th unmasked pixel in row-major order, consistently across the lists
    ctx.check(np.array_equal(nfs[:, 0] * W + nfs[:, 1], un), "indexes.consistent", mask=m)
    if full and H * W >= 2:
        # history: the lists were read above; the SAME mask object is now edited in place (mask[y, x] = ...) and a copy of it is
        # edited too - the lists published afterwards must describe the mask as it is now
        for how in ("in_place", "copy_then_edit"):
            mk = aa.Mask2D(mask=m.copy(), pixel_scales=(1.0, 2.0))
            _ = (_np(mk.derive_indexes.native_for_slim), _np(mk.derive_indexes.unmasked_slim), _np(mk.derive_indexes.masked_slim))
            tgt = copy.copy(mk) if how == "copy_then_edit" else mk
            cand = np.argwhere(m) if (n == 1) else np.argwhere(np.ones_like(m))
            y_, x_ = cand[int(rng.integers(len(cand)))]
            m2_ = m.copy()
            m2_[y_, x_] = not m2_[y_, x_]
            tgt[y_, x_] = bool(m2_[y_, x_])
            d2 = tgt.derive_indexes
            nfs2, un2, ma2 = _np(d2.native_for_slim), _np(d2.unmasked_slim), _np(d2.masked_slim)
            okh = (np.array_equal(nfs2, np.argwhere(~m2_)) and np.array_equal(un2, np.flatnonzero(~m2_.ravel()))
                   and np.array_equal(ma2, np.flatnonzero(m2_.ravel())))
            v2 = 1.0 + np.arange(int((~m2_).sum()), dtype=float)
            A2 = aa.Array2D(values=v2.copy(), mask=tgt)
            n2 = np.zeros((H, W)); n2[~m2_] = v2
            okh = okh and np.array_equal(_np(A2.native), n2) and np.array_equal(_np(A2.native.slim), v2)
            if how == "copy_then_edit":
                okh = okh and np.array_equal(_np(mk.derive_indexes.native_for_slim), np.argwhere(~m))
            ctx.check(okh, "history.indexes_after_mask_edit", how=how, mask_before=m, mask_now=m2_, native_for_slim=nfs2, unmasked_slim=un2)
    if full and H * W >= 2 and (int(m.sum()) + H + 2 * W) % 3 == 0:
        check_ownership(ctx, m, rng)
    ctx.case("2d", m, nontrivial=bool(m.any()), cls=classes_of(m),
             sample=lambda: {"mask": m.astype(int).tolist(), "unmasked": n, "constructions": 24 if full else (4 if lite else 8)})


def check_ownership(ctx, m, rng):
    """Who owns which buffer: (a) the caller's boolean work array is re-filled for the next mask after a mask was built from it; (b)
    np.array(structure) is edited in place by the caller; (c) masks with the same flattened content and other shapes follow one
    another in one process. The first mask / structure keeps describing what it was built from."""
    aa = ctx.aa
    H, W = m.shape
    n = int((~m).sum())
    # (a) caller-owned boolean array, re-used afterwards
    work = m.copy()
    mk = aa.Mask2D(mask=work, pixel_scales=(1.0, 2.0))
    vals = 1.0 + np.arange(n, dtype=float)
    A = aa.Array2D(values=vals.copy(), mask=mk)
    G = aa.Grid2D(values=np.stack([vals, -vals], axis=-1), mask=mk)
    work[:] = np.roll(work.ravel(), 1).reshape(H, W)           # the caller prepares its next mask in the same array
    if n != H * W:
        work[tuple(np.argwhere(~m)[0])] = True
    exp_nat = np.zeros((H, W)); exp_nat[~m] = vals
    d = mk.derive_indexes
    ok_a = (np.array_equal(np.asarray(_np(mk)).astype(bool), m) and np.array_equal(_np(d.native_for_slim), np.argwhere(~m))
            and np.array_equal(_np(d.unmasked_slim), np.flatnonzero(~m.ravel())))
    try:
        ok_a = ok_a and np.array_equal(_np(A.native), exp_nat) and np.array_equal(_np(G.native)[..., 0], exp_nat)
    except Exception as e:
        ok_a = False
    ctx.check(ok_a, "ownership.callers_mask_array_reused", mask=m, callers_array_now=work, mask_object_now=lambda: np.asarray(_np(mk)).astype(bool))
    # (b) np.array(...) of a structure / mask is a copy the caller may edit
    mk2 = aa.Mask2D(mask=m.copy(), pixel_scales=(1.0, 2.0))
    for store_native in (False, True):
        A2 = aa.Array2D(values=vals.copy(), mask=mk2, store_native=store_native)
        c = np.array(A2)
        c -= 1000.0
        ctx.check(np.array_equal(_np(A2.native), exp_nat) and np.array_equal(_np(A2.slim), vals), "ownership.np_array_is_a_copy", of="Array2D",
                  stored_native=store_native, mask=m, got=lambda: _np(A2.native))
    cm = np.array(mk2)
    cm[...] = ~cm
    ctx.check(np.array_equal(np.asarray(_np(mk2)).astype(bool), m) and np.array_equal(_np(mk2.derive_indexes.unmasked_slim), np.flatnonzero(~m.ravel())),
              "ownership.np_array_is_a_copy", of="Mask2D", mask=m, got=lambda: np.asarray(_np(mk2)).astype(bool))
    # (c) the same flattened content cut into other frame shapes, one after the other (tables must belong to the mask that publishes them)
    flat = m.ravel()
    shapes = [(h, flat.size // h) for h in range(1, flat.size + 1) if flat.size % h == 0]
    good, seen = True, []
    for (h, w) in shapes + shapes[::-1]:
        mm = flat.reshape(h, w)
        dd = aa.Mask2D(mask=mm.copy(), pixel_scales=1.0).derive_indexes
        nfs_ = _np(dd.native_for_slim)
        okc = np.array_equal(nfs_, np.argwhere(~mm)) and np.array_equal(_np(dd.unmasked_slim), np.flatnonzero(~mm.ravel()))
        seen.append(((h, w), bool(okc)))
        good = good and okc
    ctx.check(good, "ownership.same_content_other_shapes", flattened_mask=flat, shapes_in_order=seen)


def check_1d(ctx, m, rng):
    aa = ctx.aa
    L = m.shape[0]
    key = "1d:%d:%s" % (L, np.packbits(m).tobytes().hex())
    if not ctx.begin(key):
        return
    mask = aa.Mask1D(mask=m.copy(), pixel_scales=(0.7,))
    nat = 1.0 + np.arange(L) + 0.25 * rng.random(L)
    sl = nat[~m]
    zn = np.where(m, 0.0, nat)
    a = aa.Array1D(values=sl.copy(), mask=mask)
    ctx.check(np.array_equal(_np(a.slim), sl) and np.array_equal(_np(a.native), zn) and np.array_equal(_np(a.native.slim), sl),
              "array1d.roundtrip", mask=m, got=lambda: [_np(a.slim), _np(a.native)])
    b = aa.Array1D(values=nat.copy(), mask=mask)  # native in, slim stored: native->slim->native zeroes masked
    ctx.check(np.array_equal(_np(b.slim), sl) and np.array_equal(_np(b.native), zn), "array1d.native_in", mask=m,
              got=lambda: [_np(b.slim), _np(b.native)])
    c = aa.Array1D(values=sl.copy(), mask=mask, store_native=True)
    ctx.check(np.array_equal(_np(c.native), zn) and np.array_equal(_np(c.slim), sl), "array1d.store_native", mask=m,
              got=lambda: [_np(c.slim), _np(c.native)])
    g = aa.Grid1D(values=sl.copy(), mask=mask)
    ctx.check(np.array_equal(_np(g.slim), sl) and np.array_equal(_np(g.native), zn) and np.array_equal(_np(g.native.slim), sl),
              "grid1d.roundtrip", mask=m, got=lambda: [_np(g.slim), _np(g.native)])
    g2 = aa.Grid1D(values=nat.copy(), mask=mask)
    ctx.check(np.array_equal(_np(g2.slim), sl) and np.array_equal(_np(g2.slim.native), zn), "grid1d.native_in", mask=m,
              got=lambda: [_np(g2.slim), _np(g2.native)])
    ctx.case("1d", m, nontrivial=bool(m.any()), cls=["dim1"],
             sample=None)


def run_native_only(ctx, u):
    from autoconf import conf
    aa = ctx.aa
    env.push_config("native_only")
    try:
        if conf.instance["general"]["structures"]["native_binned_only"] is not True:
            raise env.Inconclusive("config switch to native_only not effective")
        for i in range(u["start"], u["stop"]):
            if not ctx.begin("native_only:%d" % i):
                continue
            rng = gen.rng_for(ctx.seed, NO, 77, i)
            H, W = int(rng.integers(1, 7)), int(rng.integers(1, 7))
            m, fam = gen.random_mask(rng, H, W)
            vals = gen.unique_values(rng, H * W, negative=bool(i % 2)).reshape(H, W)
            exp = np.where(m, 0.0, vals)
            mask = aa.Mask2D(mask=m.copy(), pixel_scales=1.0)
            Wt = dict(mask=m, values=vals, option="general.structures.native_binned_only = True")
            for form, supplied in (("native", vals.copy()), ("slim", vals[~m].copy())):
                for sn in (False, True):
                    ok, a = ctx.guarded("native_only.construct", lambda: aa.Array2D(values=supplied.copy(), mask=mask, store_native=sn))
                    if not ok:
                        continue
                    got = {"array": _np(a), "native": _np(a.native), "native.native": _np(a.native.native)}
                    m2 = m.copy()
                    if (~m2).sum() > 1:
                        m2[tuple(np.argwhere(~m2)[0])] = True
                    ok2, b = ctx.guarded("native_only.construct", lambda: a.apply_mask(mask=aa.Mask2D(mask=m2.copy(), pixel_scales=1.0)))
                    good = all(v.shape == exp.shape and np.array_equal(v, exp) for v in got.values())
                    if ok2:
                        good = good and _np(b.native).shape == exp.shape and np.array_equal(_np(b.native), np.where(m2, 0.0, vals))
                    ctx.check(good, "native_only.masked_positions_zero", supplied_as=form, store_native_requested=sn,
                              got={k: v for k, v in got.items()}, expected=exp, **Wt)
            ctx.case("native_only", m, vals, nontrivial=bool(m.any()), cls=["config:native_binned_only", "mask:" + fam], sample=None)
    finally:
        env.push_config("base")


def run_unit(ctx, u):
    if u["kind"] == "native_only":
        run_native_only(ctx, u)
        return
    rng = gen.rng_for(ctx.seed, NO, u.get("start", 0), u.get("H", 0), u.get("W", 0), u.get("L", 0))
    if u["kind"] == "enum2d":
        # Array2D and Grid2D in all four (input form x storage form) combinations for every mask, so every
        # gather/scatter utility sees every mask; VectorYX2D + the negative value set on every mask of the small
        # shapes (<= 9 cells quick / <= 12 thorough) and on every 4th mask of the larger ones (cost)
        cells = u["H"] * u["W"]
        small = cells <= (9 if ctx.tier == "quick" else 12)
        # quick tier, 11-12 cells (36k of the 44k masks): the two conversions per structure ("lite") - every gather / scatter /
        # index utility still sees every mask - and the standard matrix on every 8th mask
        lite_zone = ctx.tier == "quick" and cells >= 11
        for i, m in enumerate(gen.all_masks(u["H"], u["W"], u["start"], u["stop"])):
            if lite_zone:
                check_2d(ctx, m, rng, full=False, lite=(i % 8 != 0))
            else:
                check_2d(ctx, m, rng, full=small or (i % 4 == 0))
    elif u["kind"] == "enum1d":
        for m in gen.all_masks(1, u["L"], u["start"], u["stop"]):
            check_1d(ctx, m.ravel(), rng)
    elif u["kind"] == "rand2d":
        for i in range(u["start"], u["stop"]):
            r = gen.rng_for(ctx.seed, NO, 7, i)
            H, W = int(r.integers(1, 13)), int(r.integers(1, 16))
            m, fam = gen.random_mask(r, H, W)
            ctx.classes["family:" + fam] += 1
            check_2d(ctx, m, r, full=True)
            # 1-D masks far longer than the exhaustive bound (17 .. 200 pixels, every 6th 257 .. 700: beyond the small-integer range)
            if i % 2 == 0:
                L1 = int(r.integers(17, 201)) if i % 6 else int(r.integers(257, 701))
                m1 = r.random(L1) < float(r.choice([0.1, 0.5, 0.9]))
                if m1.all():
                    m1[int(r.integers(L1))] = False
                ctx.classes["dim1_long"] += 1
                check_1d(ctx, m1, r)
