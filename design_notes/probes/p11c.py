from common import *
import logging; logging.disable(logging.CRITICAL)
import hashlib, sys
sys.argv=[sys.argv[0],'0']
from p11b import fp, quantities, read
from p04b import gen
# derived-object consistency: for structure x and derivation op, compare quantities of op(x) after reading all quantities on x, versus op(fresh x) without reads
def structs(seed):
    rng=np.random.default_rng(seed)
    m=rmask(rng,5,6,p=0.4,ring=False); mask=aa.Mask2D(mask=m,pixel_scales=(0.5,0.5),origin=(0.1,0.2))
    n=(~m).sum()
    return {
     'array':lambda: aa.Array2D(values=np.random.default_rng(seed).normal(size=n),mask=mask),
     'grid':lambda: aa.Grid2D.from_mask(mask,over_sampling=aa.OverSamplingUniform(sub_size=2)),
     'gridu':lambda: aa.Grid2D.uniform(shape_native=(4,4),pixel_scales=0.5),
     'vec':lambda: aa.VectorYX2D.from_mask(values=np.random.default_rng(seed).normal(size=(n,2)),mask=mask),
     'vis':lambda: aa.Visibilities(visibilities=np.random.default_rng(seed).normal(size=5)+1j*np.random.default_rng(seed+1).normal(size=5)),
     'visn':lambda: aa.VisibilitiesNoiseMap(visibilities=np.random.default_rng(seed).uniform(1,2,size=5)+1j*np.random.default_rng(seed+1).uniform(1,2,size=5)),
     'mask':lambda: aa.Mask2D.circular(shape_native=(7,7),radius=1.6,pixel_scales=0.5),
     'kernel':lambda: aa.Kernel2D.no_mask(values=np.random.default_rng(seed).random((3,3)),pixel_scales=0.5),
     'a1':lambda: aa.Array1D.no_mask(values=np.random.default_rng(seed).normal(size=5),pixel_scales=0.5),
    }
ops={'mul2':lambda x:x*2.0,'addself':lambda x:x+x,'neg':lambda x:-x,'slice':lambda x:x[1:3],'copy':lambda x:x.copy(),'sqrt_abs':lambda x:abs(x).sqrt(),'div':lambda x:x/3.0,'invert':lambda x:x.invert()}
viol={}
for seed in range(2):
  for sn,mk in structs(seed).items():
    for on,op in ops.items():
        if on=='invert' and sn!='mask': continue
        if sn=='mask' and on not in ('invert','copy'): continue
        try:
            fresh=op(mk())
        except Exception as e: continue
        names=quantities(fresh)
        basev={n:read(op(mk()),n) for n in names}
        x=mk()
        for n in quantities(x): read(x,n)
        d=op(x)
        for n in names:
            v=read(d,n)
            if v!=basev[n]: viol.setdefault((sn,on,n),(basev[n][:50],v[:50]))
for k,v in viol.items(): print('STALE',k,v)
print('done',len(viol))
