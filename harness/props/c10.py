"""
C10 - blurring, edge and border pixel sets match their definitions for every mask.

Workload
  enum : EXHAUSTIVE - every boolean mask (>= 1 unmasked pixel) of every shape with H*W <= 12 (quick) / <= 16
         (thorough; contains 3x4, 4x3, 3x5, 5x3, 4x4 and all 1xN / 2xN strips). Almost all of them have unmasked
         pixels on the outer row/column. Per mask: all index / mask / grid views of the edge and border set and the
         blurring mask + blurring grid for all 16 kernel shapes of {1,3,5,7}^2 (on these tiny frames most footprints
         leave the array, i.e. this is where "an error exactly when the footprint leaves the array" is enumerated).
  pad  : EXHAUSTIVE - every mask of a small inner shape, embedded for each of the 16 kernel shapes in a frame that is
         padded by exactly the kernel half widths (footprints touch the outermost row/column but stay inside: a
         result, no error, is demanded) and in the four frames that are one row/column short on one side (an error
         is demanded exactly when the inner mask has an unmasked pixel in the corresponding outermost row/column).
  rand : seeded hostile masks up to 10x11 (thorough 12x13): annuli / holes, diagonal chains (corner contacts only),
         blobs joined by one-pixel bridges, several components, checkerboards, frame-touching rows ..., each inside a
         random masked margin of 0..3 pixels per axis so that each kernel of {1,3,5,7}^2 either fits or must raise.

Oracle (definitions coded directly with whole-array NumPy shifts / accumulations, no loop shared with the repository)
  blurring : masked pixels inside the (ky x kx, centred) footprint of >= 1 unmasked pixel; an exception is demanded
             iff a footprint cell of an unmasked pixel lies outside the array, a result iff none does;
  edge     : returned slim indexes strictly increasing (slim order); the set contains every unmasked pixel with a
             masked pixel among its in-array 8-neighbours and no pixel whose 8 neighbours all exist and are
             unmasked (outer-ring pixels without masked in-array neighbour are don't-care and counted);
  border   : exactly the pixels of the *returned* edge set from which the walk to the array boundary in >= 1 of the
             four axis directions meets only masked pixels (a walk of length 0 meets none);
  views    : edge_native / border_native == argwhere(~mask)[slim], derive_mask.edge / border unmasked exactly
             there (same geometry), derive_grid.edge / border == pixel centres (C02 formula) of those pixels in slim
             order; edge_buffed unmasks everything within one pixel of an edge pixel and nothing farther than one
             pixel from an unmasked pixel; Grid2D.blurring_grid_from == centres of the blurring pixels, same error.
  icontract contracts on mask_2d_util.blurring_mask_2d_from / edge_1d_indexes_from / border_slim_indexes_from see
  every internal call.

Validated against (tools/mutant.py; every break below makes the quick tier print VIOLATION):
  repository suite stays green (699/699), i.e. only this check sees them
    - lower-right diagonal neighbour ignored in check_if_edge_pixel (needs a pixel whose only masked neighbour is
      that corner)
    - diagonal neighbours ignored for pixels on the outer row/column only (4-neighbourhood on the frame)
    - out-of-frame footprint cells in x silently skipped instead of raising (missing error)
    - border walk to the right ignores the last column (needs an unmasked pixel in the last column of that row)
    - border walk upwards ignores row 0 (`mask_2d[1:y, x]`)
    - empty walk to the left not accepted (pixel in column 0 is a border pixel only via another direction)
    - derive_mask.edge written with (x, y) swapped (the suite's fixtures are symmetric)
  breaks listed in DESIGN that the repository suite also notices (1..13 baseline tests fail), caught here as well
    - 4- instead of 8-neighbourhood in check_if_edge_pixel
    - in-bounds test `< shape[1]-1` instead of `<=` / `0 <` instead of `0 <=` (spurious error when the footprint
      touches the last column / row 0)
    - x-range of the footprint taken from kernel_shape_native[0] (non-square kernels only)
    - footprint range `(k+1)//2 -> k//2` (asymmetric footprint, last row dropped)
    - border walk downwards counting the pixel itself
    - slim counter advanced only for edge pixels in edge_1d_indexes_from
    - derive_grid.border built from edge_slim (needs an edge pixel that is not a border pixel)
"""
import numpy as np

from harness import core, env, gen, ref
from harness.monitors import contracts

ID = "C10"
NO = 10
RULE = ("enum: every boolean mask with >=1 unmasked pixel of every shape H*W<=bound; pad: every mask of the small inner "
        "shapes embedded, per kernel shape of {1,3,5,7}^2, in the exactly-fitting frame and in the four frames one "
        "row/column short; rand: seeded hostile masks (holes, diagonal contacts, one-pixel bridges, several components, "
        "frame-touching) inside random masked margins. A case = (mask) for enum/rand and (framed mask, kernel) for pad; "
        "distinct = distinct (shape, mask bits[, kernel]); non-trivial = the mask has at least one masked and one "
        "unmasked pixel (so the required edge set is non-empty); all-unmasked masks are run but counted trivial")
BOUNDS = {"quick": "enum: all masks of all shapes with H*W<=12 (incl. 3x4, 4x3, 2x6, 1x12 ...), all 16 kernel shapes each; "
                   "pad: all masks of inner shapes h,w<=3 and 1x4,4x1,2x4,4x2 x 16 kernels x <=5 frames; 4000 random masks up to 10x11",
          "thorough": "enum: all masks of all shapes with H*W<=16 (incl. 4x4, 3x5, 5x3, 2x8 ...), all 16 kernel shapes each; "
                      "pad: inner shapes h,w<=3, 1x4,4x1,2x4,4x2,3x4,4x3 x 16 kernels x <=5 frames; 40000 random masks up to 12x13"}
EXHAUSTIVE = {"quick": True, "thorough": True}
ASSUMPTIONS = ["a walk of length zero (pixel on the outer row/column) meets only masked pixels, i.e. qualifies an edge pixel as border pixel",
               "outer-ring unmasked pixels with no masked in-array neighbour may or may not be listed as edge pixels (left open by the statement); "
               "the border set is judged relative to the edge set actually returned",
               "even kernel shapes are outside the statement and not exercised; any exception type counts as 'an error is raised'",
               "edge_buffed is not defined by the statement; only the two inclusions stated in the module docstring are demanded",
               "coordinates compared with |a-b| <= 1e-9*max(1,|b|inf); index / mask views exactly"]
QUICK_JOBS = 16
CHUNK = 1024

KERNELS = [(a, b) for a in (1, 3, 5, 7) for b in (1, 3, 5, 7)]

_CONTRACTS = ["contract:mask_2d_util.blurring_mask_2d_from", "contract:mask_2d_util.edge_1d_indexes_from",
              "contract:mask_2d_util.border_slim_indexes_from"]
MIN_MONITORS = {"*": dict({c: 1 for c in _CONTRACTS},
                          **{"edge.slim_order": 1, "edge.contains_required": 1, "edge.excludes_interior": 1,
                             "border.slim_order": 1, "border.definition": 1,
                             "views.edge_native": 1, "views.edge_mask": 1, "views.edge_grid": 1,
                             "views.border_native": 1, "views.border_mask": 1, "views.border_grid": 1,
                             "views.edge_buffed": 1,
                             "blurring.error_demanded": 1, "blurring.no_spurious_error": 1, "blurring.mask": 1,
                             "blurring_grid.error_demanded": 1, "blurring_grid.no_spurious_error": 1,
                             "blurring_grid.coordinates": 1, "history.views_after_edit": 20})}

PAD_INNER = {"quick": [(h, w) for h in (1, 2, 3) for w in (1, 2, 3)] + [(1, 4), (4, 1), (2, 4), (4, 2)],
             "thorough": [(h, w) for h in (1, 2, 3) for w in (1, 2, 3)] + [(1, 4), (4, 1), (2, 4), (4, 2), (3, 4), (4, 3)]}
NRAND = {"quick": 4000, "thorough": 40000}


def plan(tier, seed):
    cells = 12 if tier == "quick" else 16
    units = []
    for (H, W) in gen.shapes_upto(cells):
        total = (1 << (H * W)) - 1
        for s in range(0, total, CHUNK):
            e = min(total, s + CHUNK)
            units.append({"kind": "enum", "H": H, "W": W, "start": s, "stop": e, "w": (e - s) * 5.5})
    for (h, w) in PAD_INNER[tier]:
        total = (1 << (h * w)) - 1
        for s in range(0, total, 256):
            e = min(total, s + 256)
            units.append({"kind": "pad", "H": h, "W": w, "start": s, "stop": e, "w": (e - s) * 70 * 0.35})
    for s in range(0, NRAND[tier], 50):
        units.append({"kind": "rand", "start": s, "stop": s + 50, "w": 50 * 8.0})
    # realistic PSF sizes (17x17 .. 25x25: footprints of 289 .. 625 pixels) on frames of ~45 pixels
    for b in range(6 if tier == "quick" else 60):
        units.append({"kind": "bigkernel", "index": b, "w": 3000.0})
    if tier == "thorough":
        units.append({"kind": "suite", "w": 200})      # the repository's own tests with the contracts installed
    return units


# ------------------------------------------------------------------------------ reference definitions
def _np(x):
    return np.asarray(x.array if hasattr(x, "array") and not isinstance(x, np.ndarray) else x)


def _pad(a, py, px, value):
    """a framed by py rows / px columns of `value` (np.pad is ~10x slower on these tiny arrays)."""
    H, W = a.shape
    p = np.full((H + 2 * py, W + 2 * px), value, dtype=bool)
    p[py:py + H, px:px + W] = a
    return p


_REF_CACHE = {}


def refs(m):
    """(must, mustnot, walk, native_for_slim) of a mask; the last few masks are memoised (pure function of the mask;
    the contracts see the same mask up to 14 times per case)."""
    key = (m.shape, m.tobytes())
    r = _REF_CACHE.get(key)
    if r is None:
        if len(_REF_CACHE) > 8:
            _REF_CACHE.clear()
        must, mustnot = ref_edge_sets(m)
        r = _REF_CACHE[key] = (must, mustnot, ref_walk(m), np.argwhere(~m))
    return r


def ref_edge_sets(m):
    """(must, mustnot): unmasked pixels with a masked in-array 8-neighbour / with all 8 neighbours existing and unmasked."""
    H, W = m.shape
    p = _pad(m, 1, 1, False)  # cells outside the array are not masked pixels
    anyn = np.zeros((H, W), bool)
    for dy in (0, 1, 2):
        for dx in (0, 1, 2):
            if dy != 1 or dx != 1:
                anyn |= p[dy:dy + H, dx:dx + W]
    inner = np.zeros((H, W), bool)
    inner[1:H - 1, 1:W - 1] = True
    return ~m & anyn, ~m & inner & ~anyn


def ref_walk(m):
    """walk[y, x]: in >= 1 axis direction every pixel between (y, x) (exclusive) and the array boundary is masked."""
    H, W = m.shape
    land = np.logical_and.accumulate
    up = np.vstack([np.ones((1, W), bool), land(m, axis=0)[:-1]])
    down = np.vstack([land(m[::-1], axis=0)[::-1][1:], np.ones((1, W), bool)])
    left = np.hstack([np.ones((H, 1), bool), land(m, axis=1)[:, :-1]])
    right = np.hstack([land(m[:, ::-1], axis=1)[:, ::-1][:, 1:], np.ones((H, 1), bool)])
    return up | down | left | right


_BLUR_CACHE = {}


def ref_blurring(m, k):
    """Memoised `ref_blurring_uncached` (the same (mask, kernel) is judged at the entry point and in the contract)."""
    key = (m.shape, m.tobytes(), k[0], k[1])
    r = _BLUR_CACHE.get(key)
    if r is None:
        if len(_BLUR_CACHE) > 64:
            _BLUR_CACHE.clear()
        r = _BLUR_CACHE[key] = ref_blurring_uncached(m, k)
    return r


def ref_blurring_uncached(m, k):
    """(blurring mask, leaves_frame) from the definition, by whole-array shifts of the unmasked set."""
    H, W = m.shape
    hy, hx = k[0] // 2, k[1] // 2
    u = ~m
    leaves = False  # some unmasked pixel closer than the half width to a side of the array
    if hy and (u[:hy, :].any() or u[max(0, H - hy):, :].any()):
        leaves = True
    if hx and (u[:, :hx].any() or u[:, max(0, W - hx):].any()):
        leaves = True
    p = _pad(u, hy, hx, False)
    reach = np.zeros((H, W), bool)
    for dy in range(2 * hy + 1):
        for dx in range(2 * hx + 1):
            reach |= p[dy:dy + H, dx:dx + W]
    return ~(reach & m), leaves


def dilate1(a):
    H, W = a.shape
    p = _pad(a, 1, 1, False)
    out = np.zeros((H, W), bool)
    for dy in (0, 1, 2):
        for dx in (0, 1, 2):
            out |= p[dy:dy + H, dx:dx + W]
    return out


def _as_index(r):
    """float/int index array -> (int array, all entries integral)."""
    r = np.asarray(r)
    if r.size == 0:
        return np.zeros(0, dtype=int), True
    ri = r.astype(np.int64)
    return ri, bool(np.all(ri == r))


def _strictly_increasing(idx, n):
    return bool(idx.ndim == 1 and (idx.size == 0 or (idx[0] >= 0 and idx[-1] < n and np.all(np.diff(idx) > 0))))


# ------------------------------------------------------------------------------ contracts
def _mask_arg(a):
    m = np.asarray(a["mask_2d"])
    if m.ndim != 2 or m.size == 0:
        return None
    return m.astype(bool)


def post_blurring(ctx, a, result, old):
    m = _mask_arg(a)
    k = tuple(int(v) for v in a["kernel_shape_native"])
    if m is None or len(k) != 2 or k[0] % 2 == 0 or k[1] % 2 == 0 or k[0] < 1 or k[1] < 1:
        return None
    exp, leaves = ref_blurring(m, k)
    got = np.asarray(result)
    ok = (not leaves) and got.shape == exp.shape and np.array_equal(got.astype(bool), exp)
    return ok, {"mask": m, "kernel": list(k), "footprint_leaves_frame": leaves, "expected": exp, "got": got}


def post_edge(ctx, a, result, old):
    m = _mask_arg(a)
    if m is None:
        return None
    idx, integral = _as_index(result)
    must, mustnot, walk, nfs = refs(m)
    ok = integral and _strictly_increasing(idx, len(nfs))
    if ok:
        got = np.zeros(m.shape, bool)
        pos = nfs[idx]
        got[pos[:, 0], pos[:, 1]] = True
        ok = not (must & ~got).any() and not (got & mustnot).any()
    return ok, {"mask": m, "got_slim": np.asarray(result), "required": lambda: np.argwhere(must), "forbidden": lambda: np.argwhere(mustnot)}


def post_border(ctx, a, result, old):
    # the edge set used internally is not visible here: pixels the statement leaves open for the edge set
    # (outer ring, no masked neighbour) are accepted either way; everything else is decided.
    m = _mask_arg(a)
    if m is None:
        return None
    idx, integral = _as_index(result)
    must, mustnot, walk, nfs = refs(m)
    ok = integral and _strictly_increasing(idx, len(nfs))
    if ok:
        got = np.zeros(m.shape, bool)
        pos = nfs[idx]
        got[pos[:, 0], pos[:, 1]] = True
        ok = not (must & walk & ~got).any() and not (got & (mustnot | ~walk)).any()
    return ok, {"mask": m, "got_slim": np.asarray(result), "required": lambda: np.argwhere(must & walk),
                "forbidden": lambda: np.argwhere(~m & (mustnot | ~walk))}


def install_contracts(ctx):
    from autoarray.mask import mask_2d_util
    contracts.attach(ctx, mask_2d_util, "blurring_mask_2d_from", post_blurring)
    contracts.attach(ctx, mask_2d_util, "edge_1d_indexes_from", post_edge)
    contracts.attach(ctx, mask_2d_util, "border_slim_indexes_from", post_border)


def setup(ctx):
    ctx.aa = env.boot("base")
    install_contracts(ctx)


def teardown(ctx):
    contracts.detach_all()


# ------------------------------------------------------------------------------ classes of inputs
def classes_of(m, must, mustnot, walk):
    c = []
    H, W = m.shape
    u = ~m
    if H != W:
        c.append("non_square_frame")
    if H < 3 or W < 3:
        c.append("frame_thinner_than_3")
    ring = np.ones((H, W), bool)
    ring[1:H - 1, 1:W - 1] = False
    if (u & ring).any():
        c.append("unmasked_on_outer_ring")
    else:
        c.append("outer_ring_masked")
    if (u & ring & ~must).any():
        c.append("has_dont_care_ring_pixel")
    if (must & ~walk).any():
        c.append("edge_pixel_not_border")
    if mustnot.any():
        c.append("has_interior_non_edge_pixel")
    if not m.any():
        c.append("all_unmasked")
    if H >= 2 and W >= 2:
        d1 = u[:-1, :-1] & u[1:, 1:] & m[:-1, 1:] & m[1:, :-1]
        d2 = u[:-1, 1:] & u[1:, :-1] & m[:-1, :-1] & m[1:, 1:]
        if d1.any() or d2.any():
            c.append("diagonal_contact")
    p = _pad(m, 1, 1, True)
    pu = ~p
    c0 = pu[1:-1, 1:-1]
    hbridge = c0 & pu[1:-1, :-2] & pu[1:-1, 2:] & p[:-2, 1:-1] & p[2:, 1:-1]
    vbridge = c0 & pu[:-2, 1:-1] & pu[2:, 1:-1] & p[1:-1, :-2] & p[1:-1, 2:]
    if hbridge.any() or vbridge.any():
        c.append("one_pixel_bridge")
    try:
        from scipy import ndimage
        lab, ncomp = ndimage.label(u, structure=np.ones((3, 3), int))
        if ncomp > 1:
            c.append("several_components")
        labm, nm = ndimage.label(m)
        if nm:
            touching = set(np.unique(labm[ring])) - {0}
            if nm > len(touching):
                c.append("has_hole")
    except Exception:  # classification only
        pass
    return c


# ------------------------------------------------------------------------------ oracles at the public entry points
def check_set_views(ctx, name, m, mask_obj, slim, native, dmask, dgrid, centres, geometry):
    """The four views of one set denote the same pixels, in slim order. Returns the set as a boolean array (or None)."""
    H, W = m.shape
    n = int((~m).sum())
    nfs = np.argwhere(~m)
    s = np.asarray(slim)
    okidx = bool(np.issubdtype(s.dtype, np.integer)) and _strictly_increasing(s, n)
    ctx.check(okidx, name + ".slim_order", mask=m, got=s)
    if not okidx:
        return None
    pos = nfs[s]
    got = np.zeros((H, W), bool)
    got[pos[:, 0], pos[:, 1]] = True
    nat = np.asarray(native)
    ctx.check(nat.shape == pos.shape and np.array_equal(nat, pos) and np.issubdtype(nat.dtype, np.integer),
              "views.%s_native" % name, mask=m, slim=s, expected=pos, got=nat)
    dm = _np(dmask)
    ctx.check(dm.shape == got.shape and dm.dtype == bool and np.array_equal(dm, ~got), "views.%s_mask" % name,
              mask=m, slim=s, expected=~got, got=dm)
    ctx.check(tuple(dmask.pixel_scales) == tuple(geometry[0]) and tuple(dmask.origin) == tuple(geometry[1]),
              "views.%s_mask_geometry" % name, mask=m, expected=geometry,
              got=lambda: [tuple(dmask.pixel_scales), tuple(dmask.origin)])
    g = _np(dgrid)
    exp = centres[pos[:, 0], pos[:, 1]].reshape(-1, 2)
    ctx.check(g.shape == exp.shape and ctx.close(g, exp, 1e-9), "views.%s_grid" % name, mask=m, slim=s,
              scales=geometry[0], origin=geometry[1], expected=exp, got=g)
    return got


def check_sets(ctx, m, mask, geometry, centres, must, mustnot, walk):
    di, dmk, dg = mask.derive_indexes, mask.derive_mask, mask.derive_grid
    ok, v = ctx.guarded("edge.no_exception", lambda: (di.edge_slim, di.edge_native, dmk.edge, dg.edge))
    edge = None
    if ok:
        edge = check_set_views(ctx, "edge", m, mask, v[0], v[1], v[2], v[3], centres, geometry)
    if edge is not None:
        ctx.check(not (must & ~edge).any(), "edge.contains_required", mask=m, got=np.argwhere(edge),
                  missing=lambda: np.argwhere(must & ~edge))
        ctx.check(not (edge & mustnot).any(), "edge.excludes_interior", mask=m, got=np.argwhere(edge),
                  spurious=lambda: np.argwhere(edge & mustnot))
        dc = ~m & ~must & ~mustnot
        if dc.any():
            ctx.skipped["dont_care_ring_pixels_listed_as_edge" if (edge & dc).any() else "dont_care_ring_pixels_not_listed"] += 1
    ok, v = ctx.guarded("border.no_exception", lambda: (di.border_slim, di.border_native, dmk.border, dg.border))
    if ok:
        border = check_set_views(ctx, "border", m, mask, v[0], v[1], v[2], v[3], centres, geometry)
        if border is not None and edge is not None:
            exp = edge & walk
            ctx.check(np.array_equal(border, exp), "border.definition", mask=m, edge=np.argwhere(edge),
                      expected=np.argwhere(exp), got=np.argwhere(border))
    ok, v = ctx.guarded("edge_buffed.no_exception", lambda: dmk.edge_buffed)
    if ok and edge is not None:
        b = _np(v)
        ctx.check(b.shape == m.shape and b.dtype == bool and not (dilate1(edge) & b).any() and not (~b & ~dilate1(~m)).any(),
                  "views.edge_buffed", mask=m, got=b, must_be_unmasked=lambda: dilate1(edge), may_be_unmasked=lambda: dilate1(~m))


def check_blurring(ctx, m, mask, geometry, centres, k, grid_too=True):
    aa = ctx.aa
    exp, leaves = ref_blurring(m, k)
    try:
        bm = mask.derive_mask.blurring_from(kernel_shape_native=k)
        raised = None
    except core.MonitorFired:
        raise
    except Exception as e:
        raised = e
    if leaves:
        ctx.check(raised is not None, "blurring.error_demanded", mask=m, kernel=list(k),
                  got=lambda: _np(bm), why="a footprint cell of an unmasked pixel lies outside the array")
    else:
        ctx.check(raised is None, "blurring.no_spurious_error", mask=m, kernel=list(k), exception=repr(raised)[:200],
                  why="every footprint cell of every unmasked pixel is inside the array")
        if raised is None:
            b = _np(bm)
            ctx.check(b.shape == exp.shape and b.dtype == bool and np.array_equal(b, exp), "blurring.mask", mask=m,
                      kernel=list(k), expected=exp, got=b)
            ctx.check(tuple(bm.pixel_scales) == tuple(geometry[0]) and tuple(bm.origin) == tuple(geometry[1]),
                      "blurring.mask_geometry", mask=m, expected=geometry, got=lambda: [tuple(bm.pixel_scales), tuple(bm.origin)])
    if not grid_too:
        return leaves
    try:
        bg = aa.Grid2D.blurring_grid_from(mask=mask, kernel_shape_native=k)
        raised = None
    except core.MonitorFired:
        raise
    except Exception as e:
        raised = e
    if leaves:
        ctx.check(raised is not None, "blurring_grid.error_demanded", mask=m, kernel=list(k), got=lambda: _np(bg))
    else:
        ctx.check(raised is None, "blurring_grid.no_spurious_error", mask=m, kernel=list(k), exception=repr(raised)[:200])
        if raised is None:
            g = _np(bg).reshape(-1, 2)
            e = centres[~exp].reshape(-1, 2)
            ctx.check(g.shape == e.shape and ctx.close(g, e, 1e-9), "blurring_grid.coordinates", mask=m, kernel=list(k),
                      scales=geometry[0], origin=geometry[1], expected=e, got=g)
    return leaves


def mask_key(tag, m):
    return "%s:%dx%d:%s" % (tag, m.shape[0], m.shape[1], np.packbits(m.ravel()).tobytes().hex())


def check_mask(ctx, tag, m, rng, kernels=KERNELS):
    """All oracles on one mask."""
    if not ctx.begin(mask_key(tag, m)):
        return
    aa = ctx.aa
    geometry = gen.scales_origin(rng)
    mask = aa.Mask2D(mask=m.copy(), pixel_scales=geometry[0], origin=geometry[1])
    centres = ref.pixel_centres(m.shape, geometry[0], geometry[1])
    must, mustnot, walk, _ = refs(m)
    check_sets(ctx, m, mask, geometry, centres, must, mustnot, walk)
    nleave, nonsq_fit = 0, False
    for k in kernels:
        leaves = check_blurring(ctx, m, mask, geometry, centres, k)
        nleave += bool(leaves)
        nonsq_fit = nonsq_fit or (not leaves and k[0] != k[1])
    ctx.check(np.array_equal(_np(mask), m), "input_mask_untouched", mask=m, got=lambda: _np(mask))
    if tag == "rand" and m.size <= 160:
        # the same flattened content cut into the other frame shapes, one after the other in this process (forwards, then backwards):
        # every mask's sets are its own
        flat = m.ravel()
        shapes = [(h, flat.size // h) for h in range(1, flat.size + 1) if flat.size % h == 0 and (h, flat.size // h) != m.shape]
        for (h, w) in (shapes + shapes[::-1])[:8]:
            mm = flat.reshape(h, w).copy()
            if mm.all():
                continue
            g2 = gen.scales_origin(rng)
            mk2 = aa.Mask2D(mask=mm.copy(), pixel_scales=g2[0], origin=g2[1])
            mu, mn_, wk, _ = refs(mm)
            check_sets(ctx, mm, mk2, g2, ref.pixel_centres(mm.shape, g2[0], g2[1]), mu, mn_, wk)
            ctx.classes["same_content_other_shape"] += 1
    if tag == "rand" and int((~m).sum()) >= 2:
        # history: the views were all read above; now the mask is edited in place (Mask2D.__setitem__) / copied and edited,
        # and every view must denote the pixel sets of the mask *as it is now* (stale index tables would show here)
        un = np.argwhere(~m)
        y, x = (int(v) for v in un[int(rng.integers(len(un)))])
        m2 = m.copy()
        m2[y, x] = True
        ok, _ = ctx.guarded("edit.no_exception", lambda: mask.copy().__setitem__((y, x), True))
        cp = mask.copy()
        cp[y, x] = True
        must2, mustnot2, walk2, _ = refs(m2)
        ctx.monitors["history.views_after_edit"] += 1
        check_sets(ctx, m2, cp, geometry, centres, must2, mustnot2, walk2)           # edited copy
        check_sets(ctx, m, mask, geometry, centres, must, mustnot, walk)              # the source must be unaffected
        mask[y, x] = True
        ctx.check(np.array_equal(_np(mask), m2), "edit.applied", mask=m2, got=lambda: _np(mask))
        check_sets(ctx, m2, mask, geometry, centres, must2, mustnot2, walk2)         # edited in place after all views were read
        check_blurring(ctx, m2, mask, geometry, centres, (3, 3))
    cls = classes_of(m, must, mustnot, walk)
    cls.append("src:" + tag)
    if nleave:
        cls.append("some_kernel_leaves_frame")
    if nleave < len(kernels):
        cls.append("some_kernel_fits")
    if nonsq_fit:
        cls.append("non_square_kernel_fits")
    ctx.case(tag, m, nontrivial=bool(m.any()), cls=cls,
             sample=lambda: {"mask": m.astype(int).tolist(), "scales": geometry[0], "origin": geometry[1],
                             "required_edge": np.argwhere(must).tolist(), "border_candidates": np.argwhere(must & walk).tolist(),
                             "kernels_leaving_frame": nleave, "kernels": len(kernels), "classes": cls})


def check_padded(ctx, inner, k, variant, rng):
    """inner mask framed for kernel k: variant 0 = exact fit, 1..4 = one row/column short at top/bottom/left/right."""
    hy, hx = k[0] // 2, k[1] // 2
    pads = [hy, hy, hx, hx]
    if variant:
        pads[variant - 1] -= 1
    m = np.pad(inner, ((pads[0], pads[1]), (pads[2], pads[3])), mode="constant", constant_values=True)
    if not ctx.begin(mask_key("pad%dx%d_v%d" % (k[0], k[1], variant), m)):
        return
    aa = ctx.aa
    geometry = gen.scales_origin(rng)
    mask = aa.Mask2D(mask=m.copy(), pixel_scales=geometry[0], origin=geometry[1])
    centres = ref.pixel_centres(m.shape, geometry[0], geometry[1])
    leaves = check_blurring(ctx, m, mask, geometry, centres, k)
    cls = ["src:pad", "pad_exact_fit" if variant == 0 else "pad_one_short", "kernel_%dx%d" % k]
    if k[0] != k[1]:
        cls.append("non_square_kernel")
    cls.append("pad_error_expected" if leaves else "pad_result_expected")
    ctx.case("pad", m, k, nontrivial=bool(m.any()), cls=cls,
             sample=lambda: {"mask": m.astype(int).tolist(), "kernel": list(k), "frame": "exact" if variant == 0 else "one short, side %d" % variant,
                             "error_expected": leaves, "blurring_pixels": None if leaves else int((~ref_blurring(m, k)[0]).sum())})


# ------------------------------------------------------------------------------ hostile random masks
RAND_FAMILIES = ("annulus", "diagonal", "bridge", "two_rings", "gen")


def hostile_inner(rng, h, w):
    fam = RAND_FAMILIES[int(rng.integers(len(RAND_FAMILIES)))]
    m = np.ones((h, w), bool)
    yy, xx = np.indices((h, w))
    if fam == "annulus":
        cy, cx = rng.uniform(0, h - 1), rng.uniform(0, w - 1)
        r = np.hypot((yy - cy) * rng.uniform(0.7, 1.4), xx - cx)
        r1 = rng.uniform(0.0, max(h, w) / 3.0)
        r2 = r1 + rng.uniform(0.8, max(1.0, max(h, w) / 2.0))
        m = ~((r >= r1) & (r <= r2))
    elif fam == "diagonal":
        for _ in range(int(rng.integers(1, 4))):
            y, x = int(rng.integers(h)), int(rng.integers(w))
            sy, sx = (1, -1)[int(rng.integers(2))], (1, -1)[int(rng.integers(2))]
            for _ in range(int(rng.integers(2, 8))):
                if 0 <= y < h and 0 <= x < w:
                    m[y, x] = False
                y, x = y + sy, x + sx
    elif fam == "bridge":
        pts = []
        for _ in range(int(rng.integers(2, 4))):
            y0, x0 = int(rng.integers(h)), int(rng.integers(w))
            y1, x1 = min(h, y0 + int(rng.integers(1, 4))), min(w, x0 + int(rng.integers(1, 4)))
            m[y0:y1, x0:x1] = False
            pts.append((y0, x0))
        for (a, b) in zip(pts[:-1], pts[1:]):
            ya, yb = sorted((a[0], b[0]))
            xa, xb = sorted((a[1], b[1]))
            m[ya:yb + 1, a[1]] = False
            m[b[0], xa:xb + 1] = False
    elif fam == "two_rings":
        m[:] = True
        for _ in range(2):
            y0, x0 = int(rng.integers(h)), int(rng.integers(w))
            y1, x1 = min(h, y0 + int(rng.integers(3, 6))), min(w, x0 + int(rng.integers(3, 6)))
            m[y0:y1, x0:x1] = False
            if y1 - y0 >= 3 and x1 - x0 >= 3:
                m[y0 + 1:y1 - 1, x0 + 1:x1 - 1] = True
    else:
        m, sub = gen.random_mask(rng, h, w)
        fam = "gen_" + sub
    if rng.random() < 0.25:  # sprinkle
        flip = rng.random((h, w)) < 0.08
        m = m ^ flip
    if m.all():
        m[int(rng.integers(h)), int(rng.integers(w))] = False
    return m, fam


def hostile_mask(rng, tier):
    Hmax, Wmax = (10, 11) if tier == "quick" else (12, 13)
    my, mx = int(rng.integers(0, 4)), int(rng.integers(0, 4))
    if rng.random() < 0.3:
        my = mx = 0
    h = int(rng.integers(1, Hmax - 2 * my + 1))
    w = int(rng.integers(1, Wmax - 2 * mx + 1))
    inner, fam = hostile_inner(rng, h, w)
    # asymmetric margins now and then (one side one pixel short: footprints leave the frame on that side only)
    pads = [my, my, mx, mx]
    if rng.random() < 0.3:
        side = int(rng.integers(4))
        pads[side] = max(0, pads[side] - 1)
    m = np.pad(inner, ((pads[0], pads[1]), (pads[2], pads[3])), mode="constant", constant_values=True)
    return m, fam, (my, mx)


# ------------------------------------------------------------------------------ units
def run_unit(ctx, u):
    # the geometry of a case is drawn from a generator seeded by the case itself (not by its position in the unit), so
    # that a replay that skips the other cases of the unit re-executes exactly the same inputs
    if u["kind"] == "enum":
        for bits, m in zip(range(u["start"], u["stop"]), gen.all_masks(u["H"], u["W"], u["start"], u["stop"])):
            check_mask(ctx, "enum", m, gen.rng_for(ctx.seed, NO, 1, u["H"], u["W"], bits))
    elif u["kind"] == "pad":
        for bits, inner in zip(range(u["start"], u["stop"]), gen.all_masks(u["H"], u["W"], u["start"], u["stop"])):
            for k in KERNELS:
                for variant in range(5):
                    if variant in (1, 2) and k[0] == 1:
                        continue
                    if variant in (3, 4) and k[1] == 1:
                        continue
                    check_padded(ctx, inner, k, variant, gen.rng_for(ctx.seed, NO, 2, u["H"], u["W"], bits, k[0], k[1], variant))
    elif u["kind"] == "bigkernel":
        b = u["index"]
        rng = gen.rng_for(ctx.seed, NO, 4, b)
        k = [(21, 21), (17, 17), (25, 25), (21, 17), (17, 25)][b % 5]
        Hf = Wf = 46
        m = np.ones((Hf, Wf), bool)
        if b % 2 == 0:
            # a block of a x c unmasked pixels with a masked patch inside, sized so that some masked pixels see exactly 256 (or 512)
            # unmasked pixels in their footprint (counts that wrap in narrow integer types)
            a, c, patch = [(17, 16, (4, 4)), (16, 17, (2, 8)), (18, 15, (2, 7)), (20, 13, (2, 2)), (16, 16, None)][(b // 2) % 5]
            y0, x0 = 14 + int(rng.integers(0, 3)), 14 + int(rng.integers(0, 3))
            m[y0:y0 + a, x0:x0 + c] = False
            if patch is not None:
                py, px = y0 + a // 2 - patch[0] // 2, x0 + c // 2 - patch[1] // 2
                m[py:py + patch[0], px:px + patch[1]] = True
            fam = "block_with_masked_patch"
        else:
            yy, xx = np.indices((Hf, Wf))
            r = np.hypot(yy - 22.5 + rng.uniform(-0.5, 0.5), xx - 22.5 + rng.uniform(-0.5, 0.5))
            r0 = float(rng.uniform(2.0, 6.0))
            m = ~((r >= r0) & (r <= r0 + float(rng.uniform(3.0, 6.5))))
            fam = "annulus"
        ctx.classes["family:bigkernel_" + fam] += 1
        if ctx.begin(mask_key("bigkernel", m) + ":%dx%d" % k):
            aa = ctx.aa
            geometry = gen.scales_origin(rng)
            mask = aa.Mask2D(mask=m.copy(), pixel_scales=geometry[0], origin=geometry[1])
            centres = ref.pixel_centres(m.shape, geometry[0], geometry[1])
            check_blurring(ctx, m, mask, geometry, centres, k)
            ctx.case("bigkernel", m, k, nontrivial=True, cls=["bigkernel:%dx%d" % k, "bigkernel:" + fam], sample=None)
    elif u["kind"] == "rand":
        for i in range(u["start"], u["stop"]):
            rng = gen.rng_for(ctx.seed, NO, 3, i)
            m, fam, margin = hostile_mask(rng, ctx.tier)
            ctx.classes["family:" + fam] += 1
            ctx.classes["margin:%d,%d" % margin] += 1
            check_mask(ctx, "rand", m, rng)
