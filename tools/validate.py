#!/usr/bin/env python3
"""Validates MANIFEST.json and every evidence file against the schemas (run with python3-vt)."""
import json, sys, glob, jsonschema
ok = True
m = json.load(open('/verif/MANIFEST.json')) if __import__('os').path.exists('/verif/MANIFEST.json') else None
if m is not None:
    try:
        jsonschema.validate(m, json.load(open('/root/.vp/MANIFEST.schema.json'))); print('MANIFEST ok', len(m['checks']), 'checks')
    except Exception as e:
        ok = False; print('MANIFEST INVALID', str(e)[:400])
for f in sorted(glob.glob('/verif/evidence/*.json')):
    try:
        jsonschema.validate(json.load(open(f)), json.load(open('/root/.vp/EVIDENCE.schema.json'))); print('ok', f)
    except Exception as e:
        ok = False; print('INVALID', f, str(e)[:400])
sys.exit(0 if ok else 1)
