"""
Shared verdict/evidence machinery.

Ctx            - what one process observed: cases, distinct non-trivial case hashes, input classes,
                 monitor evaluation counters, witnesses of fired monitors, samples.
merge          - union of worker results.
Three-valued verdicts: held (0) / violated (1) / inconclusive (2).
"""
import collections
import hashlib
import json
import math
import os
import time
import traceback

import numpy as np

MAX_WITNESSES = 200
MAX_PER_MONITOR = 8
MAX_SAMPLES = 4


def h64(*objs):
    h = hashlib.blake2b(digest_size=8)
    for o in objs:
        if isinstance(o, np.ndarray):
            h.update(str(o.dtype).encode())
            h.update(str(o.shape).encode())
            h.update(np.ascontiguousarray(o).tobytes())
        elif isinstance(o, (bytes, bytearray)):
            h.update(bytes(o))
        else:
            h.update(repr(o).encode())
        h.update(b"|")
    return int.from_bytes(h.digest(), "big")


def jsonable(x, depth=0, maxlen=400):
    """Best-effort conversion of witnesses/samples to JSON (arrays truncated, never raises)."""
    try:
        if x is None or isinstance(x, (bool, int, str)):
            return x
        if isinstance(x, float):
            return x if math.isfinite(x) else repr(x)
        if isinstance(x, (np.bool_,)):
            return bool(x)
        if isinstance(x, np.integer):
            return int(x)
        if isinstance(x, np.floating):
            return jsonable(float(x))
        if isinstance(x, complex) or isinstance(x, np.complexfloating):
            return [jsonable(float(x.real)), jsonable(float(x.imag))]
        if hasattr(x, "array") and not isinstance(x, np.ndarray):
            try:
                x = np.asarray(x.array)
            except Exception:
                return repr(x)[:200]
        if isinstance(x, np.ndarray):
            if x.dtype == bool:
                x = x.astype(int)
            if np.iscomplexobj(x):
                x = np.stack([x.real, x.imag], -1)
            if x.size > maxlen:
                return {"shape": list(x.shape), "head": jsonable(x.ravel()[:40].tolist()),
                        "sha": "%016x" % h64(x)}
            return jsonable(x.tolist(), depth + 1)
        if isinstance(x, dict):
            return {str(k): jsonable(v, depth + 1) for k, v in list(x.items())[:60]}
        if isinstance(x, (list, tuple, set, frozenset)):
            x = list(x)
            if len(x) > maxlen:
                return {"len": len(x), "head": [jsonable(v, depth + 1) for v in x[:40]]}
            return [jsonable(v, depth + 1) for v in x]
        return repr(x)[:300]
    except Exception as e:  # pragma: no cover
        return "<unserialisable %s>" % type(x).__name__


class Ctx:
    def __init__(self, prop, tier, seed, only=None, raising=False):
        self.prop = prop
        self.tier = tier
        self.seed = int(seed)
        self.only = only            # replay: run only the case with this key
        self.raising = raising
        self.evaluations = 0
        self.distinct = set()
        self.classes = collections.Counter()    # classes of inputs seen
        self.monitors = collections.Counter()   # evaluations per monitor / contract / oracle
        self.skipped = collections.Counter()    # out-of-domain / don't-care counts
        self.reach = collections.Counter()      # calls per anchored function
        self.witnesses = []
        self._per_monitor = collections.Counter()
        self.nfired = 0
        self.samples = []
        self.notes = []
        self.inconclusive = []
        self.unit = None
        self.case_key = None
        self.t0 = time.time()

    # -- cases ---------------------------------------------------------------------------
    def begin(self, key):
        """Start a case. Returns False when a replay filter excludes it."""
        key = str(key)
        if self.only is not None and key != self.only:
            return False
        self.case_key = key
        return True

    def case(self, *hashables, nontrivial=True, sample=None, cls=None):
        """Count one executed case; `hashables` canonically identify it for distinctness."""
        self.evaluations += 1
        if nontrivial:
            self.distinct.add(h64(*hashables))
        else:
            self.skipped["trivial_cases"] += 1
        if cls:
            for c in (cls if isinstance(cls, (list, tuple, set)) else [cls]):
                self.classes[c] += 1
        n = self.evaluations
        if sample is not None and len(self.samples) < MAX_SAMPLES and (n == 1 or (n % 7 == 3 and (n & (n - 1)) != 0 and h64(n) % 5 == 0) or n in (10, 100, 1000)):
            self.samples.append(jsonable(sample() if callable(sample) else sample))

    # -- oracles -------------------------------------------------------------------------
    def check(self, ok, monitor, **witness):
        """One oracle evaluation. `ok` falsy => the monitor fired."""
        self.monitors[monitor] += 1
        if not ok:
            self.fire(monitor, **witness)
        return bool(ok)

    def fire(self, monitor, **witness):
        self.nfired += 1
        w = {"monitor": monitor, "unit": self.unit, "case": self.case_key}
        for k, v in witness.items():
            w[k] = jsonable(v() if callable(v) else v)
        self._per_monitor[monitor] += 1
        if self._per_monitor[monitor] <= MAX_PER_MONITOR and len(self.witnesses) < MAX_WITNESSES:
            self.witnesses.append(w)
        if self.raising:
            raise MonitorFired(json.dumps(w)[:2000])

    def close(self, a, b, rtol=1e-8, scale=None):
        """|a-b| <= rtol*max(1, ||b||inf) elementwise, shapes must agree (DESIGN 1.8)."""
        a = np.asarray(a, dtype=float) if not np.iscomplexobj(a) else np.asarray(a)
        b = np.asarray(b, dtype=float) if not np.iscomplexobj(b) else np.asarray(b)
        if a.shape != b.shape:
            return False
        if a.size == 0:
            return True
        if not (np.isfinite(a).all() and np.isfinite(b).all()):
            return bool(np.array_equal(a, b, equal_nan=True))
        s = scale if scale is not None else max(1.0, float(np.max(np.abs(b))))
        return bool(np.max(np.abs(a - b)) <= rtol * s)

    def note(self, text):
        if text not in self.notes and len(self.notes) < 40:
            self.notes.append(text)

    def guarded(self, monitor, fn, *a, **k):
        """Run fn; an unexpected exception inside the domain is itself a violation."""
        try:
            return True, fn(*a, **k)
        except MonitorFired:
            raise
        except Exception as e:
            self.monitors[monitor] += 1
            self.fire(monitor, exception=repr(e)[:300], traceback=traceback.format_exc()[-1500:])
            return False, None

    # -- (de)serialisation ---------------------------------------------------------------
    def dump(self):
        return {
            "evaluations": self.evaluations,
            "distinct": sorted(self.distinct),
            "classes": dict(self.classes),
            "monitors": dict(self.monitors),
            "skipped": dict(self.skipped),
            "reach": dict(self.reach),
            "witnesses": self.witnesses,
            "nfired": self.nfired,
            "fired_by_monitor": dict(self._per_monitor),
            "samples": self.samples,
            "notes": self.notes,
            "inconclusive": self.inconclusive,
        }


class MonitorFired(Exception):
    pass


def merge(results):
    out = {"evaluations": 0, "distinct": set(), "classes": collections.Counter(),
           "monitors": collections.Counter(), "skipped": collections.Counter(),
           "reach": collections.Counter(), "witnesses": [], "nfired": 0, "fired_by_monitor": collections.Counter(), "samples": [],
           "notes": [], "inconclusive": []}
    for r in results:
        out["evaluations"] += r["evaluations"]
        out["distinct"].update(r["distinct"])
        for k in ("classes", "monitors", "skipped", "reach"):
            out[k].update(r[k])
        out["witnesses"].extend(r["witnesses"])
        out["nfired"] += r["nfired"]
        out["fired_by_monitor"].update(r.get("fired_by_monitor", {}))
        for s in r["samples"]:
            if len(out["samples"]) < MAX_SAMPLES + 2:
                out["samples"].append(s)
        for n in r["notes"]:
            if n not in out["notes"]:
                out["notes"].append(n)
        out["inconclusive"].extend(r["inconclusive"])
    return out
