from common import *
rng=np.random.default_rng(2)
def ref_edge(m):
    H,W=m.shape; must=set(); mustnot=set()
    for y in range(H):
        for x in range(W):
            if m[y,x]: continue
            nb=[(y+dy,x+dx) for dy in (-1,0,1) for dx in (-1,0,1) if (dy,dx)!=(0,0)]
            inarr=[(a,b) for a,b in nb if 0<=a<H and 0<=b<W]
            if any(m[a,b] for a,b in inarr): must.add((y,x))
            elif len(inarr)==8: mustnot.add((y,x))
    return must,mustnot
def ref_border(m, edge):
    H,W=m.shape; out=set()
    for (y,x) in edge:
        if m[:y,x].all() or m[y+1:,x].all() or m[y,:x].all() or m[y,x+1:].all(): out.add((y,x))
    return out
stats={'ring':[0,0],'noring':[0,0]}
ex=None
for t in range(400):
    H,W=rng.integers(3,8),rng.integers(3,8)
    ring = t%2==0
    m=rmask(rng,H,W,p=rng.uniform(0.2,0.8),ring=ring)
    mask=aa.Mask2D(mask=m,pixel_scales=1.0)
    k='ring' if ring else 'noring'
    stats[k][0]+=1
    try:
        es=mask.derive_indexes.edge_slim; en=mask.derive_indexes.edge_native
        nfs=mask.derive_indexes.native_for_slim
        got=set(map(tuple,nfs[es]))
        must,mustnot=ref_edge(m)
        ok = must<=got and not (got&mustnot) and all(not m[y,x] for y,x in got)
        bs=mask.derive_indexes.border_slim
        gotb=set(map(tuple,nfs[bs]))
        okb = gotb==ref_border(m,got)
        if not (ok and okb):
            stats[k][1]+=1
            if ex is None and not ring: ex=(m.astype(int),sorted(got),sorted(must),sorted(gotb),sorted(ref_border(m,got)))
    except Exception as e:
        stats[k][1]+=1
        if ex is None: ex=(m.astype(int),repr(e))
print(stats); print(ex)
