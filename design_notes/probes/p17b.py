from common import *
conf.instance.push(new_path='/tmp/probe/cfg', output_path='/tmp/probe/out')
import logging; logging.disable(logging.CRITICAL)
rng=np.random.default_rng(170)
bad={}
def flag(k,info=None):
    bad.setdefault(k,[0,None]); bad[k][0]+=1
    if bad[k][1] is None: bad[k][1]=info
log=[]
class ProfA:
    def __init__(self,centre=(0.0,0.0),angle=None): self.centre=centre; self.angle=angle
    def radial_grid_from(self,grid): g=np.array(grid); return np.sqrt(g[:,0]**2+g[:,1]**2)
    def transformed_to_reference_frame_grid_from(self,grid,**kw):
        return grid.with_new_array(np.array(grid)-np.array(self.centre)) if hasattr(grid,'with_new_array') else np.array(grid)-np.array(self.centre)
    @aa.grid_dec.to_grid
    @aa.grid_dec.relocate_to_radial_minimum
    def moved(self,grid,**kw): log.append(np.array(grid).copy()); return np.array(grid)
    @aa.grid_dec.to_array
    @aa.grid_dec.transform
    def tr(self,grid,**kw): log.append(np.array(grid).copy()); g=np.array(grid); return 3*g[:,0]+7*g[:,1]
    @aa.grid_dec.project_grid
    def proj(self,grid,**kw): log.append(np.array(grid).copy()); g=np.array(grid); return 3*g[:,0]+7*g[:,1]
for t in range(60):
    H,W=rng.integers(2,6),rng.integers(2,6); m=rmask(rng,H,W,p=0.3)
    ps=(rng.uniform(0.05,0.4),)*2 if t%2 else (rng.uniform(0.05,0.4),rng.uniform(0.05,0.4))
    mask=aa.Mask2D(mask=m,pixel_scales=ps,origin=tuple(rng.normal(size=2)*0.1))
    for grid in (aa.Grid2D.from_mask(mask), aa.Grid2DIrregular(values=rng.normal(size=(7,2))*0.4)):
        g=np.array(grid.array)
        P=ProfA(); log.clear(); out=P.moved(grid); rec=log[-1]
        r=np.hypot(g[:,0],g[:,1]); ro=np.hypot(rec[:,0],rec[:,1])
        far=r>=0.3
        if not np.array_equal(rec[far],g[far]): flag('far changed',type(grid).__name__)
        near=(r<0.3)&(r>0)
        if near.any():
            if not np.allclose(ro[near],0.3,rtol=1e-12): flag('near radius',(ro[near],))
            if not np.allclose(rec[near]/ro[near][:,None],g[near]/r[near][:,None],atol=1e-12): flag('near ray')
        if type(out).__name__!=type(grid).__name__: flag('moved type',type(out).__name__)
        if not np.array_equal(np.array(out.array),rec): flag('pairing moved')
        c=(0.13,-0.07); P=ProfA(centre=c); log.clear(); out=P.tr(grid)
        if len(log)!=1 or not np.allclose(log[0],g-np.array(c)): flag('transform grid')
        if not np.allclose(out.array,3*(g[:,0]-c[0])+7*(g[:,1]-c[1])): flag('transform pairing')
    # project
    grid=aa.Grid2D.from_mask(mask)
    c=tuple(rng.normal(size=2)*0.05); ang=rng.uniform(0,180); P=ProfA(centre=c,angle=ang); log.clear(); out=P.proj(grid); rec=log[-1]
    if type(out).__name__!='Array1D' or len(out)!=len(rec): flag('proj type')
    if not np.allclose(out.array,3*rec[:,0]+7*rec[:,1]): flag('proj pairing')
    d=rec-np.array(c); rr=np.hypot(d[:,0],d[:,1])
    # collinear & evenly spaced radii from centre
    if len(rr)>2:
        u=d[1:]/rr[1:,None]
        if not np.allclose(u,u[0],atol=1e-9): flag('proj collinear')
    if not np.allclose(rr[0],0,atol=1e-12): flag('proj first not centre',rr[0])
    g1=aa.Grid1D.uniform(shape_native=(int(rng.integers(2,7)),),pixel_scales=float(ps[0]),origin=(float(rng.normal()*0.1),))
    log.clear(); out=P.proj(g1); rec=log[-1]
    if not np.allclose(np.hypot(rec[:,0],rec[:,1]),np.abs(g1.array),atol=1e-12): flag('proj1d radii')
    if not np.allclose(out.array,3*rec[:,0]+7*rec[:,1]): flag('proj1d pairing')
for k,v in bad.items(): print(k,v)
print('done')
