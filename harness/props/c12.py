"""
C12 - all geometry is covariant under translation of the coordinate origin.

Metamorphic monitor over two whole executions: the same "world" (mask bits, scales, values, the same random draws relative to
the origin) is built once at origin o and once at o + d, every public entry point listed in the property is called in both,
and per entry point
   coordinate-valued results must satisfy  b == a + d   (|.| <= 1e-9 * max(scale, |d|, |o|)),
   index / count / weight / matrix / value results must be unchanged (integers exact, floats 1e-9).
Results are classified per entry point (monitor `covariance:<entry point>`), so a forgotten origin at any single call site
is its own finding. Mapper index/weight tables are compared per sub-pixel as sets of (source pixel, weight) pairs, because
qhull may list the vertices of the same simplex in another order after a translation (representation, not a violation).
The Hilbert mesh interpolates the adapt image with scipy griddata over a regular grid whose triangulation is degenerate;
adapt images are therefore affine in position (reproduced exactly under any triangulation).
validated against (scratch copies, suite green): reverting each of the seven origin repairs (padded grid, zoom mask, overlay
mesh, Hilbert mesh, noise scaling, simulator, S/N-limited noise map) and dropping `origin=` in DeriveMask2D.blurring_from,
Mask2D.resized_from, OverSamplerUniform.over_sampled_grid, BorderRelocator.sub_grid.
"""
import numpy as np

from harness import env, gen, gen_aa
from harness import ref as _refmod

ID = "C12"
NO = 12
RULE = ("seeded worlds (mask with ring-masked / holes / components families, anisotropic scales, origin o, translation d with "
        "unequal components: |d| from 1e-3 to 100 pixel scales, integer and half-integer multiples of the pixel scale included) x "
        "the entry points below; a case = (world, d); distinct by hash of (mask, scales, o, d); non-trivial = d has two non-zero "
        "unequal components and the mask has masked and unmasked pixels")
BOUNDS = {"quick": "96 origin pairs x ~50 observed results per pair (+ 8 Hilbert pairs)", "thorough": "4000 origin pairs (+ 256 Hilbert pairs)"}
EXHAUSTIVE = {"quick": False, "thorough": False}
ASSUMPTIONS = ["coordinates compared with 1e-9*max(pixel scale, |d|, |o|); query points are placed at relative offsets >= 1e-3 pixel inside their pixel",
               "Hilbert image mesh: circular masks only (as the property says) and adapt images affine in position"]
QUICK_JOBS = 12
ENTRY = ["Grid2D.from_mask", "derive_grid.all_false", "derive_grid.unmasked", "derive_grid.edge", "derive_grid.border", "Grid2D.blurring_grid_from",
         "Grid2D.padded_grid_from", "OverSamplerUniform.over_sampled_grid", "BorderRelocator.sub_grid", "Mask2D.mask_centre", "geometry.extent",
         "Mask2D.zoom_mask_unmasked", "Array2D.zoomed_around_mask", "Grid2D.grid_2d_radial_projected_from", "Overlay.image_plane_mesh_grid_from",
         "Mask2D.resized_from", "Mask2D.rescaled_from", "Grid2D.subtracted_from", "Imaging.apply_mask", "Imaging.apply_mask(auto-padded)", "Imaging.apply_noise_scaling", "Imaging.apply_noise_scaling(s2n)", "Imaging.apply_over_sampling",
         "Imaging.trimmed_after_convolution_from", "SimulatorImaging.via_image_from", "preprocess.noise_map_with_signal_to_noise_limit_from",
         "geometry.pixel_coordinates_2d_from", "geometry.grid_pixel_indexes_2d_from", "MapperRectangular", "MapperDelaunay",
         "BorderRelocator.relocated_grid_from", "derive_mask.origins", "ImageMesh.mesh_pixels_per_image_pixels_from",
         "OverSamplingUniform(shared scheme)", "OverSamplingUniform.from_radial_bins",
         "geometry.scaled_coordinate_2d_to_scaled_at_pixel_centre_from", "OverSamplingUniform.from_adaptive_scheme"]
MIN_MONITORS = {"*": dict({"covariance:" + e: 1 for e in ENTRY}, **{"covariance:Hilbert.image_plane_mesh_grid_from": 1})}


def plan(tier, seed):
    n = 96 if tier == "quick" else 4000
    nh = 8 if tier == "quick" else 256
    step = 4 if tier == "quick" else 8
    units = [{"kind": "pair", "start": s, "stop": min(n, s + step), "w": step} for s in range(0, n, step)]
    units += [{"kind": "hilbert", "start": s, "stop": s + 1, "w": 3} for s in range(nh)]
    return units


def setup(ctx):
    ctx.aa = env.boot("base")


def _np(x):
    return np.asarray(x.array if hasattr(x, "array") and not isinstance(x, np.ndarray) else x)


class Obs:
    """Observations of one world: name -> (entry, kind, value)."""

    def __init__(self):
        self.items = {}
        self.errors = {}
        self.ties = set()

    def coord(self, entry, name, v):
        self.items[name] = (entry, "coord", np.asarray(_np(v), float))

    def extent(self, entry, name, v):
        self.items[name] = (entry, "extent", np.asarray(_np(v), float))

    def inv(self, entry, name, v):
        self.items[name] = (entry, "inv", np.asarray(_np(v)))

    def rowsets(self, entry, name, maps, sizes, weights):
        rows = []
        maps, sizes, weights = _np(maps), _np(sizes), _np(weights)
        for i in range(len(sizes)):
            rows.append(sorted((int(maps[i, k]), round(float(weights[i, k]), 9)) for k in range(int(sizes[i]))))
        self.items[name] = (entry, "rows", rows)


def world(ctx, rng_seed, m, ps, origin, kshape, shared=None):
    """Builds every observed quantity at `origin`. All random draws come from rng_seed and are relative to the origin."""
    aa = ctx.aa
    o = np.array(origin, float)
    ob = Obs()
    r = np.random.default_rng(rng_seed)
    mask = aa.Mask2D(mask=m.copy(), pixel_scales=ps, origin=tuple(origin))
    H, W = m.shape
    n = int((~m).sum())

    def run(entry, fn):
        try:
            fn()
        except Exception as e:
            ob.errors[entry] = repr(e)[:200]

    run("Grid2D.from_mask", lambda: ob.coord("Grid2D.from_mask", "from_mask", aa.Grid2D.from_mask(mask=mask)))
    run("derive_grid.all_false", lambda: ob.coord("derive_grid.all_false", "dg.all_false", mask.derive_grid.all_false))
    run("derive_grid.unmasked", lambda: ob.coord("derive_grid.unmasked", "dg.unmasked", mask.derive_grid.unmasked))
    run("derive_grid.edge", lambda: ob.coord("derive_grid.edge", "dg.edge", mask.derive_grid.edge))
    run("derive_grid.border", lambda: ob.coord("derive_grid.border", "dg.border", mask.derive_grid.border))
    run("Grid2D.blurring_grid_from", lambda: ob.coord("Grid2D.blurring_grid_from", "blurring_grid", aa.Grid2D.blurring_grid_from(mask=mask, kernel_shape_native=kshape)))
    run("Grid2D.padded_grid_from", lambda: ob.coord("Grid2D.padded_grid_from", "padded_grid", aa.Grid2D.from_mask(mask=mask).padded_grid_from(kernel_shape_native=kshape)))
    subs = r.integers(1, 4, size=n)
    sub_arr = aa.Array2D(values=subs.astype(int), mask=mask)
    osamp = aa.OverSamplerUniform(mask=mask, sub_size=sub_arr)
    run("OverSamplerUniform.over_sampled_grid", lambda: ob.coord("OverSamplerUniform.over_sampled_grid", "over_sampled", osamp.over_sampled_grid))
    run("OverSamplerUniform.over_sampled_grid", lambda: ob.inv("OverSamplerUniform.over_sampled_grid", "slim_for_sub_slim", osamp.slim_for_sub_slim))

    def border():
        br = aa.BorderRelocator(mask=mask, sub_size=sub_arr)
        ob.coord("BorderRelocator.sub_grid", "br.sub_grid", br.sub_grid)
        ob.coord("BorderRelocator.sub_grid", "br.sub_border_grid", br.sub_border_grid)
        ob.coord("BorderRelocator.sub_grid", "br.border_grid", br.border_grid)
        ob.inv("BorderRelocator.sub_grid", "br.sub_border_slim", br.sub_border_slim)
        g = _np(osamp.over_sampled_grid)
        # jittered (generic-position) points: on the regular grid a point can be equidistant from two border points and the
        # nearest-border choice would then be a floating-point tie that legitimately flips under translation
        rel = (g - o) + 0.04 * np.array(ps) * r.normal(size=g.shape)
        cen = rel.mean(0)
        far = rel.copy()
        idx = r.random(len(rel)) < 0.3
        far[idx] = cen + (rel[idx] - cen) * r.uniform(1.5, 6.0, size=(int(idx.sum()), 1))
        ob.coord("BorderRelocator.relocated_grid_from", "br.relocated", br.relocated_grid_from(grid=aa.Grid2DIrregular(values=o + far)))
    run("BorderRelocator.sub_grid", border)
    run("Mask2D.mask_centre", lambda: ob.coord("Mask2D.mask_centre", "mask_centre", np.array(mask.mask_centre)))
    run("geometry.extent", lambda: ob.extent("geometry.extent", "extent", mask.geometry.extent))

    def zoom():
        zm = mask.zoom_mask_unmasked
        ob.coord("Mask2D.zoom_mask_unmasked", "zoom_mask.origin", np.array(zm.origin))
        ob.coord("Mask2D.zoom_mask_unmasked", "zoom_mask.grid", aa.Grid2D.from_mask(mask=zm))
        ob.inv("Mask2D.zoom_mask_unmasked", "zoom_region", np.array(mask.zoom_region))
    run("Mask2D.zoom_mask_unmasked", zoom)
    vals = 1.0 + np.arange(H * W, dtype=float).reshape(H, W)

    def zoomed():
        arr = aa.Array2D(values=vals.copy(), mask=mask)
        z = arr.zoomed_around_mask(buffer=int(r.integers(0, 3)))
        ob.coord("Array2D.zoomed_around_mask", "zoomed.grid", aa.Grid2D.from_mask(mask=z.mask))
        ob.inv("Array2D.zoomed_around_mask", "zoomed.values", z.native)
        ob.extent("Array2D.zoomed_around_mask", "zoomed.extent", arr.extent_of_zoomed_array(buffer=1))
    run("Array2D.zoomed_around_mask", zoomed)
    cshift = r.uniform(-0.7, 0.7, size=2) * np.array(ps)
    run("Grid2D.grid_2d_radial_projected_from", lambda: ob.coord("Grid2D.grid_2d_radial_projected_from", "radial_projected",
        aa.Grid2D.from_mask(mask=mask).grid_2d_radial_projected_from(centre=tuple(o + cshift), angle=float(r.uniform(0, 180)))))
    if shared is not None and "first_origin" in shared:
        # ... and from the point that is the absolute coordinate (0.0, 0.0) in the first of the two worlds (a centre the caller gives
        # explicitly; in the translated world it is the point d)
        c0 = o - np.asarray(shared["first_origin"], dtype=float)
        # the number of projected points is int(longest distance to the extent edge / pixel scale) + 1: a distance that is a whole
        # number of pixels (first world at the origin (0, 0), even frame) is a floating point tie - the count may differ by one
        # between the worlds - and so is a tie between the longest y and x distances (it selects the pixel scale): don't-care
        hy, hx = 0.5 * H * ps[0], 0.5 * W * ps[1]
        cy, cx = float(c0[0] - o[0]), float(c0[1] - o[1])      # centre relative to the frame centre
        dist = sorted([(hx - cx, 1), (hy - cy, 0), (hx + cx, 1), (hy + cy, 0)])
        longest = dist[-1][0]
        near = [a for a in dist if abs(a[0] - longest) <= 1e-9 * max(1.0, abs(longest))]
        tie = len({a[1] for a in near}) > 1 and ps[0] != ps[1]
        for a in near:
            q = a[0] / ps[a[1]]
            tie = tie or abs(q - round(q)) < 1e-6
        if tie:
            ob.ties.add("radial_projected.centre_at_absolute_zero_in_first_world")
            ob.ties.add("radial_projected_shape_slim.centre_at_absolute_zero_in_first_world")
        def radial_from_absolute_zero():
            g_ = aa.Grid2D.from_mask(mask=mask)
            ob.coord("Grid2D.grid_2d_radial_projected_from", "radial_projected.centre_at_absolute_zero_in_first_world",
                     g_.grid_2d_radial_projected_from(centre=(float(c0[0]), float(c0[1])), angle=0.0))
            ob.inv("Grid2D.grid_2d_radial_projected_from", "radial_projected_shape_slim.centre_at_absolute_zero_in_first_world",
                   np.array(g_.grid_2d_radial_projected_shape_slim_from(centre=(float(c0[0]), float(c0[1])))))
        run("Grid2D.grid_2d_radial_projected_from", radial_from_absolute_zero)
    oshape = (int(r.integers(2, 6)), int(r.integers(2, 6)))
    # the overlay keeps the points whose pixel is unmasked: an overlay point exactly on a pixel boundary is a floating-point
    # tie (either pixel acceptable, may flip under translation) -> the whole overlay result of this world is don't-care
    rows, cols = np.flatnonzero((~m).any(1)), np.flatnonzero((~m).any(0))
    for S, span in ((oshape[0], rows.max() - rows.min() + 1), (oshape[1], cols.max() - cols.min() + 1)):
        f = (np.arange(S) + 0.5) * span / S
        if np.any(np.abs(f - np.round(f)) < 1e-6):
            ob.ties.add("Overlay.image_plane_mesh_grid_from")
    run("Overlay.image_plane_mesh_grid_from", lambda: ob.coord("Overlay.image_plane_mesh_grid_from", "overlay_mesh",
        aa.image_mesh.Overlay(shape=oshape).image_plane_mesh_grid_from(mask=mask)))
    # count-valued results of the image-mesh helpers: mesh points in generic position (>= 0.1 pixel inside their image pixel)
    def mesh_counts():
        k = int(r.integers(5, 40))
        pi, pj = r.integers(0, H, size=k), r.integers(0, W, size=k)
        off = r.uniform(-0.4, 0.4, size=(k, 2))
        rel = np.stack([((H - 1) / 2.0 - pi - off[:, 0]) * ps[0], (pj - (W - 1) / 2.0 + off[:, 1]) * ps[1]], axis=-1)
        mg = aa.Grid2DIrregular(values=o + rel)
        im = aa.image_mesh.Overlay(shape=oshape)
        cnt = im.mesh_pixels_per_image_pixels_from(mask=mask, mesh_grid=mg)
        ob.inv("ImageMesh.mesh_pixels_per_image_pixels_from", "mesh_counts", np.asarray(_np(cnt.native)).astype(np.int64))
        for nm, st in (("check_min_pixels", aa.SettingsInversion(image_mesh_min_mesh_pixels_per_pixel=int(r.integers(1, 4)), image_mesh_min_mesh_number=int(r.integers(1, 4)))),):
            try:
                im.check_mesh_pixels_per_image_pixels(mask=mask, mesh_grid=mg, settings=st)
                ob.inv("ImageMesh.mesh_pixels_per_image_pixels_from", nm, np.array([0]))
            except aa.exc.InversionException:
                ob.inv("ImageMesh.mesh_pixels_per_image_pixels_from", nm, np.array([1]))
    run("ImageMesh.mesh_pixels_per_image_pixels_from", mesh_counts)
    if shared is not None:
        # ONE over-sampling scheme object used for the structures of both worlds (schemes are descriptions, not tied to a mask)
        run("OverSamplingUniform(shared scheme)", lambda: ob.coord("OverSamplingUniform(shared scheme)", "shared_scheme.over_sampled",
            aa.Grid2D.from_mask(mask=mask, over_sampling=shared["uniform"]).over_sampler.over_sampled_grid))
    new_shape = (H + int(r.integers(-1, 4)), W + int(r.integers(-1, 4)))
    run("Mask2D.resized_from", lambda: ob.coord("Mask2D.resized_from", "resized_mask.grid", aa.Grid2D.from_mask(mask=mask.resized_from(new_shape=new_shape, pad_value=0).derive_mask.all_false)))
    run("Mask2D.resized_from", lambda: ob.coord("Mask2D.resized_from", "resized_array.grid", aa.Grid2D.from_mask(mask=aa.Array2D(values=vals.copy(), mask=mask).resized_from(new_shape=new_shape).mask.derive_mask.all_false)))

    def rescaled():
        rm = mask.rescaled_from(rescale_factor=2.0)
        ob.coord("Mask2D.rescaled_from", "rescaled.origin", np.array(rm.origin))
        ob.inv("Mask2D.rescaled_from", "rescaled.bits", _np(rm).astype(int))
        ob.coord("Mask2D.rescaled_from", "rescaled.all_false_grid", rm.derive_grid.all_false)
    run("Mask2D.rescaled_from", rescaled)

    def subtracted():
        off = r.normal(size=2) * np.array(ps)
        gs = aa.Grid2D.from_mask(mask=mask).subtracted_from(offset=tuple(off))
        ob.coord("Grid2D.subtracted_from", "subtracted.grid", gs)
        ob.coord("Grid2D.subtracted_from", "subtracted.mask_origin", np.array(gs.mask.origin))
        ob.coord("Grid2D.subtracted_from", "subtracted.from_mask", aa.Grid2D.from_mask(mask=gs.mask))
    run("Grid2D.subtracted_from", subtracted)

    def subtracted_axis():
        # a translation along ONE axis (the other component exactly zero), as a tuple, a list and an array: the grid the structure
        # returns is the input translated by exactly -offset (judged directly, and observed for the comparison of the two worlds)
        g0 = np.array(_np(aa.Grid2D.from_mask(mask=mask)), dtype=float)
        tol_ = 1e-9 * max(max(ps), float(np.abs(o).max()), 1.0)
        for nm, off in (("y_only", (float(r.normal() * ps[0]), 0.0)), ("x_only", [0.0, float(r.normal() * ps[1])]),
                        ("x_only_array", np.array([0.0, float(r.uniform(0.2, 2.0) * ps[1])]))):
            gs = aa.Grid2D.from_mask(mask=mask).subtracted_from(offset=off)
            got = np.array(_np(gs), dtype=float)
            ctx.check(got.shape == g0.shape and bool(np.all(np.abs(got - (g0 - np.asarray(off, float))) <= tol_)), "covariance:Grid2D.subtracted_from",
                      result="subtracted." + nm, kind="translation by -offset", offset=np.asarray(off, float), mask=m, origin=o)
            ob.coord("Grid2D.subtracted_from", "subtracted_axis." + nm, gs)
        # re-centring: the offset equals the frame origin, so the shifted frame sits exactly at (0.0, 0.0) - values and frame
        gs0 = aa.Grid2D.from_mask(mask=mask).subtracted_from(offset=(float(o[0]), float(o[1])))
        got0 = np.array(_np(gs0), dtype=float)
        org0 = np.array([float(v) for v in gs0.mask.origin])
        ctx.check(got0.shape == g0.shape and bool(np.all(np.abs(got0 - (g0 - o)) <= tol_)) and bool(np.all(np.abs(org0) <= tol_)),
                  "covariance:Grid2D.subtracted_from", result="subtracted.offset_equal_to_the_origin", kind="values and frame origin",
                  frame_origin_of_result=org0, expected_frame_origin=[0.0, 0.0], mask=m, origin=o)
    run("Grid2D.subtracted_from", subtracted_axis)

    def radial_bins():
        # adaptive sub-size map from radial bins about the mask centre (the default centre): count-valued; the radii are in generic
        # position (a pixel centre within 1e-6 of a bin edge makes the whole observation don't-care)
        g_ = aa.Grid2D.from_mask(mask=mask)
        ext = max(H * ps[0], W * ps[1])
        radial_list = [float(r.uniform(0.12, 0.3) * ext), float(r.uniform(0.35, 0.6) * ext), 1.0e6 * ext]
        cen = np.asarray(mask.mask_centre, dtype=float)
        dist = np.hypot(*(_refmod.slim_centres(m, ps, tuple(origin)) - cen).T)
        if any(np.any(np.abs(dist - rk) < 1e-6 * ext) for rk in radial_list[:2]):
            ob.ties.add("OverSamplingUniform.from_radial_bins")
        osu = aa.OverSamplingUniform.from_radial_bins(grid=g_, sub_size_list=[4, 2, 1], radial_list=radial_list)
        ob.inv("OverSamplingUniform.from_radial_bins", "radial_bins.sub_size", np.asarray(_np(osu.sub_size)).astype(np.int64))
        ob.coord("OverSamplingUniform.from_radial_bins", "radial_bins.over_sampled", aa.Grid2D.from_mask(mask=mask, over_sampling=osu).over_sampler.over_sampled_grid)
    run("OverSamplingUniform.from_radial_bins", radial_bins)

    def dm():
        d_ = mask.derive_mask
        for nm in ("all_false", "edge", "border", "edge_buffed"):
            ob.coord("derive_mask.origins", "derive_mask." + nm + ".origin", np.array(getattr(d_, nm).origin))
        ob.coord("derive_mask.origins", "derive_mask.blurring.origin", np.array(d_.blurring_from(kernel_shape_native=kshape).origin))
    run("derive_mask.origins", dm)

    # ---- datasets
    data_nat = 5.0 + r.random((H, W)) * 10
    noise_nat = 0.5 + r.random((H, W))
    psf = aa.Kernel2D.no_mask(values=r.random(kshape) + 0.1, pixel_scales=ps)

    def dataset():
        return aa.Imaging(data=aa.Array2D.no_mask(values=data_nat.copy(), pixel_scales=ps, origin=tuple(origin)),
                          noise_map=aa.Array2D.no_mask(values=noise_nat.copy(), pixel_scales=ps, origin=tuple(origin)), psf=psf)

    def obs_ds(entry, tag, ds):
        ob.coord(entry, tag + ".grids.uniform", ds.grids.uniform)
        ob.coord(entry, tag + ".data.origin", np.array(ds.data.origin))
        ob.coord(entry, tag + ".noise_map.origin", np.array(ds.noise_map.origin))
        ob.coord(entry, tag + ".mask.origin", np.array(ds.mask.origin))
        ob.inv(entry, tag + ".data.values", ds.data.native)
        ob.inv(entry, tag + ".noise.values", ds.noise_map.native)

    def masked():
        md = dataset().apply_mask(mask=mask)
        obs_ds("Imaging.apply_mask", "apply_mask", md)
        ob.coord("Imaging.apply_mask", "apply_mask.grids.pixelization", md.grids.pixelization)
        ob.coord("Imaging.apply_mask", "apply_mask.grids.blurring", md.grids.blurring)
    run("Imaging.apply_mask", masked)

    def masked_padded():
        # a mask reaching the frame, so that apply_mask takes the automatic-padding branch (blurring region leaves the frame)
        m2 = m.copy()
        m2[0, :] = r.random(W) < 0.5
        m2[:, -1] = r.random(H) < 0.5
        m2[0, 0] = False
        md = dataset().apply_mask(mask=aa.Mask2D(mask=m2, pixel_scales=ps, origin=tuple(origin)))
        ob.inv("Imaging.apply_mask(auto-padded)", "apply_mask_padded.shape", np.array(md.data.shape_native))
        obs_ds("Imaging.apply_mask(auto-padded)", "apply_mask_padded", md)
        ob.coord("Imaging.apply_mask(auto-padded)", "apply_mask_padded.grids.blurring", md.grids.blurring)
    if kshape != (1, 1):
        run("Imaging.apply_mask(auto-padded)", masked_padded)
    run("Imaging.apply_noise_scaling", lambda: obs_ds("Imaging.apply_noise_scaling", "noise_scaling", dataset().apply_noise_scaling(mask=mask, noise_value=1e8)))
    run("Imaging.apply_noise_scaling(s2n)", lambda: obs_ds("Imaging.apply_noise_scaling(s2n)", "noise_scaling_s2n", dataset().apply_noise_scaling(mask=mask, signal_to_noise_value=2.0)))
    run("Imaging.apply_over_sampling", lambda: obs_ds("Imaging.apply_over_sampling", "apply_over_sampling",
        dataset().apply_over_sampling(over_sampling=aa.OverSamplingDataset(uniform=aa.OverSamplingUniform(sub_size=2)))))
    if shared is not None:
        def shared_ds():
            ds_ = dataset().apply_mask(mask=mask).apply_over_sampling(over_sampling=shared["dataset"])
            ob.coord("OverSamplingUniform(shared scheme)", "shared_scheme.ds.uniform.over_sampled", ds_.grids.uniform.over_sampler.over_sampled_grid)
            ob.coord("OverSamplingUniform(shared scheme)", "shared_scheme.ds.pixelization.over_sampled", ds_.grids.pixelization.over_sampler.over_sampled_grid)
        run("OverSamplingUniform(shared scheme)", shared_ds)
    run("Imaging.trimmed_after_convolution_from", lambda: obs_ds("Imaging.trimmed_after_convolution_from", "trimmed", dataset().trimmed_after_convolution_from(kernel_shape=kshape))
        if H > kshape[0] and W > kshape[1] else None)

    def simulate():
        img = aa.Array2D.no_mask(values=0.5 + r.random((H, W)), pixel_scales=ps, origin=tuple(origin))
        for tag, kw in (("sim_noise_off", dict(add_poisson_noise_to_data=False, include_poisson_noise_in_noise_map=False)), ("sim_noise_on", dict())):
            s = aa.SimulatorImaging(exposure_time=300.0, background_sky_level=2.0, psf=psf, noise_seed=7, **kw)
            obs_ds("SimulatorImaging.via_image_from", tag, s.via_image_from(image=img))
    run("SimulatorImaging.via_image_from", simulate)

    def s2n():
        d_ = aa.Array2D.no_mask(values=data_nat.copy(), pixel_scales=ps, origin=tuple(origin))
        n_ = aa.Array2D.no_mask(values=noise_nat.copy(), pixel_scales=ps, origin=tuple(origin))
        nm = aa.preprocess.noise_map_with_signal_to_noise_limit_from(data=d_, noise_map=n_, signal_to_noise_limit=6.0)
        ob.coord("preprocess.noise_map_with_signal_to_noise_limit_from", "s2n_limit.grid", aa.Grid2D.from_mask(mask=nm.mask))
        ob.coord("preprocess.noise_map_with_signal_to_noise_limit_from", "s2n_limit.origin", np.array(nm.origin))
        ob.inv("preprocess.noise_map_with_signal_to_noise_limit_from", "s2n_limit.values", nm.native)
    run("preprocess.noise_map_with_signal_to_noise_limit_from", s2n)

    # ---- index-valued results on correspondingly translated points
    from harness import ref
    cen = ref.pixel_centres((H, W), ps, (0.0, 0.0)).reshape(-1, 2)
    offs = (r.uniform(-0.499, 0.499, size=cen.shape)) * np.array(ps)
    pts_rel = cen + offs

    def indexes():
        pts = o + pts_rel
        ob.inv("geometry.pixel_coordinates_2d_from", "pixel_coordinates", np.array([mask.geometry.pixel_coordinates_2d_from(scaled_coordinates_2d=tuple(p)) for p in pts]))
        gi = aa.Grid2D(values=pts.copy(), mask=aa.Mask2D.all_false(shape_native=(H, W), pixel_scales=ps, origin=tuple(origin)))
        ob.inv("geometry.grid_pixel_indexes_2d_from", "grid_pixel_indexes", mask.geometry.grid_pixel_indexes_2d_from(grid_scaled_2d=gi))
        # the same points held in a container that was built without an origin of its own (Grid2D.no_mask(values, pixel_scales)): the
        # indexes are those of the frame being indexed, whatever carries the points
        g_plain = aa.Grid2D.no_mask(values=pts.reshape(H, W, 2).copy(), pixel_scales=ps)
        ob.inv("geometry.grid_pixel_indexes_2d_from", "grid_pixel_indexes(points in a container at origin 0)",
               mask.geometry.grid_pixel_indexes_2d_from(grid_scaled_2d=g_plain))
        ob.inv("geometry.grid_pixel_indexes_2d_from", "grid_pixel_centres(points in a container at origin 0)",
               mask.geometry.grid_pixel_centres_2d_from(grid_scaled_2d=g_plain))
        ob.inv("geometry.grid_pixel_indexes_2d_from", "grid_pixel_centres", mask.geometry.grid_pixel_centres_2d_from(grid_scaled_2d=gi))
        ob.inv("geometry.grid_pixel_indexes_2d_from", "grid_pixels(continuous)", np.round(_np(mask.geometry.grid_pixels_2d_from(grid_scaled_2d=gi)).astype(float), 7))
        sc = _np(mask.geometry.scaled_coordinates_2d_from(pixel_coordinates_2d=(int(r.integers(H)), int(r.integers(W)))))
        ob.coord("geometry.pixel_coordinates_2d_from", "scaled_coordinates_2d_from", np.array(sc, float))
    run("geometry.pixel_coordinates_2d_from", indexes)

    def snapped():
        # a coordinate snapped to the centre of the pixel that contains it (used to anchor the adaptive over sampling of a profile):
        # translates with the frame; the adaptive sub-size map about a correspondingly translated profile centre is unchanged
        ks = [int(k_) for k_ in r.choice(len(pts_rel), size=min(4, len(pts_rel)), replace=False)]
        got = np.array([mask.geometry.scaled_coordinate_2d_to_scaled_at_pixel_centre_from(scaled_coordinate_2d=tuple(o + pts_rel[k_])) for k_ in ks], dtype=float)
        ob.coord("geometry.scaled_coordinate_2d_to_scaled_at_pixel_centre_from", "snapped_to_pixel_centre", got)
        tol_ = 1e-9 * max(max(ps), float(np.abs(o).max()), 1.0)
        ctx.check(bool(np.all(np.abs(got - (o + cen[ks])) <= tol_)), "covariance:geometry.scaled_coordinate_2d_to_scaled_at_pixel_centre_from",
                  result="snapped_to_pixel_centre", kind="centre of the containing pixel", expected=o + cen[ks], got=got, mask=m, origin=o, scales=ps)
        gu = aa.Grid2D.from_mask(mask=mask)
        k0 = ks[0]
        dist = np.hypot(*(_refmod.slim_centres(m, ps, (0.0, 0.0)) - cen[k0]).T)
        for name_ in ("VerifC09Adapt", "VerifC09Adapt2"):
            rl = {"VerifC09Adapt": [1.01, 2.51], "VerifC09Adapt2": [2.01]}[name_]
            if any(np.any(np.abs(dist - f_ * min(ps)) < 1e-6 * min(ps)) for f_ in rl):
                ob.ties.add("OverSamplingUniform.from_adaptive_scheme")
            osu = aa.OverSamplingUniform.from_adaptive_scheme(grid=gu, name=name_, centre=tuple(o + pts_rel[k0]))
            ob.inv("OverSamplingUniform.from_adaptive_scheme", "adaptive_scheme.sub_size." + name_, np.asarray(_np(osu.sub_size)).astype(np.int64))
    run("geometry.scaled_coordinate_2d_to_scaled_at_pixel_centre_from", snapped)
    ob.errors.setdefault("OverSamplingUniform.from_adaptive_scheme", ob.errors.get("geometry.scaled_coordinate_2d_to_scaled_at_pixel_centre_from")) \
        if "geometry.scaled_coordinate_2d_to_scaled_at_pixel_centre_from" in ob.errors else None
    ob.errors.setdefault("geometry.grid_pixel_indexes_2d_from", ob.errors.get("geometry.pixel_coordinates_2d_from")) if "geometry.pixel_coordinates_2d_from" in ob.errors else None

    # ---- mappers on translated grids
    g = _np(osamp.over_sampled_grid)
    rel = g - o
    src_rel = rel + 0.2 * np.sin(2 * rel[:, ::-1]) + 0.03 * r.normal(size=rel.shape)
    src = aa.Grid2DIrregular(values=o + src_rel)

    def rect():
        mesh = aa.Mesh2DRectangular.overlay_grid(shape_native=(int(r.integers(3, 5)), int(r.integers(3, 6))), grid=src)
        mp = aa.Mapper(mapper_grids=aa.MapperGrids(mask=mask, source_plane_data_grid=src, source_plane_mesh_grid=mesh), over_sampler=osamp, regularization=None)
        ob.inv("MapperRectangular", "rect.mapping_matrix", np.round(_np(mp.mapping_matrix).astype(float), 9))
        psw = mp.pix_sub_weights
        ob.rowsets("MapperRectangular", "rect.tables", psw.mappings, psw.sizes, psw.weights)
        ob.coord("MapperRectangular", "rect.mesh_grid", mesh)
    run("MapperRectangular", rect)

    def dela():
        lo, hi = src_rel.min(0), src_rel.max(0)
        V = gen_aa.delaunay_vertices(r, lo, hi, int(r.integers(5, 10)), spread=1.1)
        mesh = aa.Mesh2DDelaunay(values=o + V)
        mp = aa.Mapper(mapper_grids=aa.MapperGrids(mask=mask, source_plane_data_grid=src, source_plane_mesh_grid=mesh), over_sampler=osamp, regularization=None)
        ob.inv("MapperDelaunay", "delaunay.mapping_matrix", _np(mp.mapping_matrix).astype(float))
        psw = mp.pix_sub_weights
        ob.rowsets("MapperDelaunay", "delaunay.tables", psw.mappings, psw.sizes, np.round(_np(psw.weights), 8))
    run("MapperDelaunay", dela)
    return ob


def compare(ctx, a, b, d, scale, W):
    d = np.asarray(d, float)
    tol = 1e-9 * scale
    seen = set()
    for entry in set(a.errors) | set(b.errors):
        ea, eb = a.errors.get(entry), b.errors.get(entry)
        if ea is None or eb is None or ea.split("(")[0] != eb.split("(")[0]:
            ctx.check(False, "covariance:" + entry, why="raised at one origin only (or differently)", at_o=ea, at_o_plus_d=eb, **W)
        else:
            # the same exception at both origins is translation-invariant behaviour; the entry point is not judged by it
            ctx.skipped["raises_at_both_origins:" + entry] += 1
    for name in sorted(set(a.items) | set(b.items)):
        if name not in a.items or name not in b.items:
            continue
        entry, kind, va = a.items[name]
        vb = b.items[name][2]
        mon = "covariance:" + entry
        if entry in a.ties or entry in b.ties or name in a.ties or name in b.ties:
            ctx.skipped["tie(dont_care):" + (entry if entry in a.ties or entry in b.ties else name)] += 1
            continue
        if kind == "rows":
            ok = va == vb
            if not ok:
                # weights are rounded to 1e-8/1e-9 before pairing; compare numerically with a tolerance as a second chance
                ok = len(va) == len(vb) and all(len(x) == len(y) and all(p[0] == q[0] and abs(p[1] - q[1]) <= 2e-8 for p, q in zip(x, y)) for x, y in zip(va, vb))
            ctx.check(ok, mon, result=name, kind="index/weight table per sub-pixel", **W)
            continue
        va, vb = np.asarray(va), np.asarray(vb)
        if va.shape != vb.shape:
            ctx.check(False, mon, result=name, why="shape differs", at_o=va.shape, at_o_plus_d=vb.shape, **W)
            continue
        if kind == "coord":
            exp = va + d if va.shape[-1:] == (2,) else va
            ok = bool(np.all(np.abs(vb - exp) <= tol))
            ctx.check(ok, mon, result=name, kind="coordinate", max_error=lambda: float(np.abs(vb - exp).max()) if exp.size else 0.0,
                      at_o=va, at_o_plus_d=vb, **W)
        elif kind == "extent":
            exp = va + np.array([d[1], d[1], d[0], d[0]])
            ctx.check(bool(np.all(np.abs(vb - exp) <= tol)), mon, result=name, kind="extent", at_o=va, at_o_plus_d=vb, **W)
        else:
            if va.dtype.kind in "iub":
                ok = np.array_equal(va, vb)
            else:
                # interpolation weights: coordinate rounding (u * |o + d|) is amplified by edge / altitude of thin triangles -> 2e-8
                rt = 2e-8 if name.startswith("delaunay.") else 1e-9
                ok = bool(np.all(np.abs(va.astype(float) - vb.astype(float)) <= rt * np.maximum(1.0, np.abs(va.astype(float)))))
            ctx.check(ok, mon, result=name, kind="invariant", at_o=va, at_o_plus_d=vb, **W)


def translation(rng, ps, i):
    kind = i % 6
    s = np.array(ps)
    if kind == 0:
        d = rng.normal(size=2) * s * 1e-3
    elif kind == 1:
        d = rng.normal(size=2) * s
    elif kind == 2:
        d = rng.uniform(20, 100, size=2) * s * rng.choice([-1, 1], size=2)
    elif kind == 3:
        d = np.array([float(rng.integers(1, 6)), -float(rng.integers(1, 6))]) * s          # integer multiples of the pixel scale
    elif kind == 4:
        d = (np.array([float(rng.integers(0, 5)), float(rng.integers(0, 5))]) + 0.5) * s    # half-integer multiples
    else:
        d = np.array([rng.normal() * s[0] * 3, 0.0]) if rng.random() < 0.5 else np.array([0.0, rng.normal() * s[1] * 3])
    return d, ["tiny", "order_of_scale", "large", "integer_pixels", "half_integer_pixels", "single_axis"][kind]


def run_pair(ctx, i):
    rng = gen.rng_for(ctx.seed, NO, 1, i)
    if not ctx.begin("pair:%d" % i):
        return
    ky, kx = int(rng.choice([1, 3, 5])), int(rng.choice([1, 3, 5]))
    H, W = int(rng.integers(ky + 3, ky + 8)), int(rng.integers(kx + 3, kx + 8))
    m, fam = gen.interior_mask(rng, H, W, ky // 2 + 1, kx // 2 + 1, family=str(rng.choice(["bernoulli", "dense", "holes", "components", "bridge", "all_unmasked"])))
    if (~m).sum() < 4:
        m[ky // 2 + 1:ky // 2 + 3, kx // 2 + 1:kx // 2 + 3] = False
    ps = (float(rng.uniform(0.2, 1.5)), float(rng.uniform(0.2, 1.5)))
    o = np.zeros(2) if i % 3 == 0 else rng.normal(size=2) * np.array(ps) * float(rng.choice([0.5, 5, 50]))
    d, dk = translation(rng, ps, i)
    seed = int(rng.integers(1 << 31))
    W_ = dict(mask=m, scales=ps, origin=o, d=d, kernel_shape=(ky, kx))
    aa = ctx.aa
    shared = {"uniform": aa.OverSamplingUniform(sub_size=int(rng.integers(1, 4)))}
    shared["dataset"] = aa.OverSamplingDataset(uniform=aa.OverSamplingUniform(sub_size=2), pixelization=aa.OverSamplingUniform(sub_size=int(rng.integers(1, 4))))
    shared["first_origin"] = tuple(float(v) for v in o)
    a = world(ctx, seed, m, ps, tuple(o), (ky, kx), shared)
    b = world(ctx, seed, m, ps, tuple(o + d), (ky, kx), shared)
    scale = max(max(ps), float(np.abs(d).max()), float(np.abs(o).max()), float(np.abs(o + d).max()))
    compare(ctx, a, b, d, scale, W_)
    ctx.case(m, ps, o, d, nontrivial=bool(d[0] != 0 and d[1] != 0 and d[0] != d[1] and m.any()),
             cls=["d:" + dk, "mask:" + fam, "origin:" + ("zero" if not o.any() else "nonzero"), "kernel:%dx%d" % (ky, kx)],
             sample=lambda: {"mask": m.astype(int).tolist(), "scales": ps, "origin": o.tolist(), "d": d.tolist(), "results_compared": len(a.items)})


def run_hilbert(ctx, i):
    aa = ctx.aa
    rng = gen.rng_for(ctx.seed, NO, 2, i)
    if not ctx.begin("hilbert:%d" % i):
        return
    s = float(rng.uniform(0.3, 1.0))
    ps = (s, s)
    shape = (int(rng.choice([7, 9, 11])),) * 2
    radius = float(rng.uniform(1.6, 2.6)) * s
    o = np.zeros(2) if i % 2 == 0 else rng.normal(size=2) * s * 3
    d, dk = translation(rng, ps, i + 1)
    coef = rng.uniform(0.05, 0.3, size=2)
    out = []
    for org in (o, o + d):
        # An all-unmasked odd square mask passes the code's own circularity test and keeps the adapt image affine over the
        # whole frame. With a true circular mask the native adapt image is zero outside the mask, so the interpolated values at
        # the mask edge depend on how scipy/qhull splits the (degenerate) squares of the regular grid - a floating-point tie
        # that flips under translation; that variant is only observed with a weaker oracle (count, first point).
        if i % 4 == 3:
            mask = aa.Mask2D.circular(shape_native=shape, pixel_scales=ps, radius=radius, origin=tuple(org), centre=(0.0, 0.0))
        else:
            mask = aa.Mask2D.all_false(shape_native=shape, pixel_scales=ps, origin=tuple(org))
        g = _np(aa.Grid2D.from_mask(mask=mask))
        adapt = aa.Array2D(values=5.0 + (g - org) @ coef, mask=mask)          # affine in position, positive
        hb = aa.image_mesh.Hilbert(pixels=int(rng.integers(8, 20)) if False else 12, weight_floor=0.1, weight_power=1.0)
        try:
            out.append(("ok", _np(hb.image_plane_mesh_grid_from(mask=mask, adapt_data=adapt)).astype(float), _np(mask).copy()))
        except Exception as e:
            out.append(("exc", repr(e)[:200], None))
    W_ = dict(scales=ps, origin=o, d=d, shape=shape, radius=radius)
    mon = "covariance:Hilbert.image_plane_mesh_grid_from"
    if out[0][0] == "ok" and out[1][0] == "ok":
        ctx.check(np.array_equal(out[0][2], out[1][2]), "covariance:Mask2D.circular(mask bits)", **W_)
        a, b = out[0][1], out[1][1]
        tol = 1e-7 * max(s, float(np.abs(d).max()), float(np.abs(o).max()))
        if i % 4 == 3:
            ctx.check(a.shape == b.shape and bool(np.all(np.abs(b[0] - (a[0] + d)) <= tol)), mon + "(circular mask, weak oracle)", at_o=a, at_o_plus_d=b, **W_)
        else:
            ctx.check(a.shape == b.shape and bool(np.all(np.abs(b - (a + d)) <= tol)), mon, at_o=a, at_o_plus_d=b, **W_)
    elif out[0][0] != out[1][0]:
        ctx.check(False, mon, why="raised at one origin only", at_o=out[0][1], at_o_plus_d=out[1][1], **W_)
    else:
        ctx.skipped["hilbert:raises_at_both_origins"] += 1
    ctx.case("hilbert", shape, ps, o, d, radius, nontrivial=True, cls=["hilbert", "d:" + dk],
             sample=lambda: {"hilbert": True, "shape": shape, "radius": radius, "origin": o.tolist(), "d": d.tolist()})


def run_unit(ctx, u):
    for i in range(u["start"], u["stop"]):
        (run_pair if u["kind"] == "pair" else run_hilbert)(ctx, i)
