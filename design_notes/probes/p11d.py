# input-fingerprint monitor prototype: which public entry points mutate caller-owned inputs?
from common import *
import logging; logging.disable(logging.CRITICAL)
import hashlib, functools, inspect, sys
sys.argv=[sys.argv[0],'0']
def leaves(v,depth=0,seen=None):
    seen=seen if seen is not None else set()
    if id(v) in seen or depth>3: return
    seen.add(id(v))
    if isinstance(v,np.ndarray):
        if v.dtype!=object: yield v
    elif isinstance(getattr(v,'__dict__',{}).get('_array',None),np.ndarray):
        yield v._array
        for k,x in list(vars(v).items()):
            if k!='_array': yield from leaves(x,depth+1,seen)
    elif isinstance(v,(list,tuple)):
        for x in v: yield from leaves(x,depth+1,seen)
    elif isinstance(v,dict):
        for x in v.values(): yield from leaves(x,depth+1,seen)
    elif isinstance(getattr(v,'__dict__',None),dict) and type(v).__module__.startswith('autoarray'):
        for x in list(vars(v).values()): yield from leaves(x,depth+1,seen)
def fps(args,kwargs):
    return [(id(a),hashlib.sha1(np.ascontiguousarray(a).tobytes()).hexdigest()) for a in leaves((args,kwargs))]
found={}
def watch(owner,name):
    orig=getattr(owner,name)
    raw=inspect.getattr_static(owner,name)
    def wrap(f):
        @functools.wraps(f)
        def w(*a,**k):
            arrs=list(leaves((a,k))); before=[hashlib.sha1(np.ascontiguousarray(x).tobytes()).hexdigest() for x in arrs]
            r=f(*a,**k)
            after=[hashlib.sha1(np.ascontiguousarray(x).tobytes()).hexdigest() for x in arrs]
            if before!=after:
                key=f'{getattr(owner,"__name__",owner)}.{name}'; found[key]=found.get(key,0)+1
            return r
        return w
    if isinstance(raw,classmethod): setattr(owner,name,classmethod(wrap(raw.__func__)))
    elif isinstance(raw,staticmethod): setattr(owner,name,staticmethod(wrap(raw.__func__)))
    elif isinstance(raw,property): setattr(owner,name,property(wrap(raw.fget)))
    else: setattr(owner,name,wrap(orig))
targets=[aa.Array2D,aa.Grid2D,aa.VectorYX2D,aa.Kernel2D,aa.Mask2D,aa.Imaging,aa.Array1D,aa.Grid1D,aa.Visibilities,aa.MapperValued,aa.MapperGrids,aa.Convolver,aa.SimulatorImaging,aa.BorderRelocator,aa.OverSamplerUniform,aa.Preloads,aa.DatasetInterface,aa.Grid2DIrregular,aa.Mesh2DRectangular,aa.Mesh2DDelaunay]
from autoconf.tools.decorators import CachedProperty
for T in targets:
    for n,a in list(vars(T).items()):
        if n.startswith('__') and n!='__init__': continue
        if isinstance(a,CachedProperty): continue
        if callable(a) or isinstance(a,(classmethod,staticmethod,property)):
            try: watch(T,n)
            except Exception as e: pass
import autoarray.inversion.inversion.factory as fac
for n in ('inversion_from','inversion_imaging_from'): watch(fac,n)
aa.Inversion=fac.inversion_from
from autoarray.dataset import preprocess
for n,a in list(vars(preprocess).items()):
    if callable(a) and not n.startswith('_') and inspect.isfunction(a): watch(preprocess,n)
# workload
from p04b import gen
rng=np.random.default_rng(0)
for seed in range(6):
    ds,objs,m,k=gen(seed)
    inv=aa.Inversion(dataset=ds,linear_obj_list=objs,settings=aa.SettingsInversion(use_w_tilde=False,use_positive_only_solver=False,no_regularization_add_to_curvature_diag_value=1e-3))
    inv.reconstruction; inv.mapped_reconstructed_data; inv.log_det_curvature_reg_matrix_term
    mp=[o for o in objs if isinstance(o,aa.AbstractMapper)]
    if mp:
        vals=np.ones(mp[0].params); mv=aa.MapperValued(mapper=mp[0],values=vals,mesh_pixel_mask=np.arange(mp[0].params)<2)
        mv.values_masked; mv.mapped_reconstructed_image_from(); mv.max_pixel_centre
    H,W=m.shape
    nat=rng.normal(size=(H,W)); aa.Array2D(values=nat,mask=ds.mask); g=rng.normal(size=(H,W,2)); aa.Grid2D(values=g,mask=ds.mask); aa.VectorYX2D(values=g.copy(),grid=g,mask=ds.mask)
    un=aa.Imaging(data=aa.Array2D.no_mask(values=nat,pixel_scales=ds.mask.pixel_scales),noise_map=aa.Array2D.no_mask(values=np.abs(nat)+1,pixel_scales=ds.mask.pixel_scales),psf=ds.psf)
    md=un.apply_mask(ds.mask); un.apply_noise_scaling(mask=ds.mask); un.apply_noise_scaling(mask=ds.mask,signal_to_noise_value=3.0); un.trimmed_after_convolution_from((3,3)); un.apply_over_sampling(aa.OverSamplingDataset(uniform=aa.OverSamplingUniform(sub_size=2)))
    un.signal_to_noise_map
    kk=aa.Kernel2D.no_mask(values=k.copy(),pixel_scales=1.0,normalize=True); kk.normalized
    preprocess.noise_map_with_signal_to_noise_limit_from(un.data,un.noise_map,2.0)
    preprocess.noise_map_via_weight_map_from(aa.Array2D.no_mask(values=np.abs(nat)+0.1,pixel_scales=1.0))
    preprocess.data_with_gaussian_noise_added(un.data,0.1,seed=1)
    aa.SimulatorImaging(exposure_time=100.0,background_sky_level=20.0,psf=aa.Kernel2D.no_mask(values=np.abs(k)+0.1,pixel_scales=ds.mask.pixel_scales),noise_seed=2).via_image_from(aa.Array2D.no_mask(values=np.abs(nat),pixel_scales=ds.mask.pixel_scales))
    br=aa.BorderRelocator(mask=ds.mask,sub_size=2); 
    try: br.relocated_grid_from(aa.Grid2DIrregular(values=rng.normal(size=(ds.mask.pixels_in_mask*4,2))))
    except Exception: pass
print('MUTATING ENTRY POINTS:',found)
