from common import *
import logging; logging.disable(logging.CRITICAL)
from p06 import setup
bad={}; 
def flag(k): bad[k]=bad.get(k,0)+1
for kind in ('rect','del'):
  for s in range(25):
    mask,osamp,src,mesh,mapper=setup(s,kind)
    rng=np.random.default_rng(s)
    mapper.mapper_grids.adapt_data=aa.Array2D(values=rng.uniform(0.1,2,size=mask.pixels_in_mask),mask=mask)
    regs=[aa.reg.Constant(rng.uniform(0.1,3)),aa.reg.ConstantZeroth(rng.uniform(0.1,3),rng.uniform(0.1,3)),aa.reg.Zeroth(rng.uniform(0.1,3)),
          aa.reg.AdaptiveBrightness(rng.uniform(0.1,3),rng.uniform(0.1,3),rng.uniform(0.5,2)),aa.reg.BrightnessZeroth(rng.uniform(0.1,3),rng.uniform(0.5,2)),
          aa.reg.GaussianKernel(rng.uniform(0.1,3),rng.uniform(0.2,0.6)),aa.reg.ExponentialKernel(rng.uniform(0.1,3),rng.uniform(0.2,0.6))]
    if kind=='del': regs+= [aa.reg.ConstantSplit(rng.uniform(0.1,3)),aa.reg.AdaptiveBrightnessSplit(rng.uniform(0.1,3),rng.uniform(0.1,3),rng.uniform(0.5,2))]
    for r in regs:
        nm=type(r).__name__
        try:
            Hm=r.regularization_matrix_from(linear_obj=mapper)
        except Exception as e:
            flag(nm+':exc:'+type(e).__name__); continue
        if Hm.shape!=(mapper.params,)*2: flag(nm+':shape')
        sc=np.abs(Hm).max()
        if not np.allclose(Hm,Hm.T,atol=1e-8*sc): flag(nm+':asym')
        ev=np.linalg.eigvalsh((Hm+Hm.T)/2)
        pd = nm not in ('BrightnessZeroth',)
        if ev.min() < (-1e-9*sc if not pd else 0): flag(nm+':notP(S)D min=%.1e'%ev.min())
        if nm=='Constant':
            x=rng.normal(size=mapper.params); nb=mapper.neighbors
            pairs={tuple(sorted((i,int(j)))) for i in range(len(nb)) for j in nb[i,:nb.sizes[i]]}
            q=r.coefficient**2*sum((x[i]-x[j])**2 for i,j in pairs)+1e-8*(x@x)
            if not np.isclose(x@Hm@x,q,rtol=1e-9): flag(nm+':quad')
        if nm=='AdaptiveBrightness':
            x=rng.normal(size=mapper.params); nb=mapper.neighbors; w=r.regularization_weights_from(linear_obj=mapper)
            pairs={tuple(sorted((i,int(j)))) for i in range(len(nb)) for j in nb[i,:nb.sizes[i]]}
            q=sum((w[i]**2+w[j]**2)*(x[i]-x[j])**2 for i,j in pairs)+1e-8*(x@x)
            if not np.isclose(x@Hm@x,q,rtol=1e-9): flag(nm+':quad')
print(bad)
