from common import *
import logging; logging.disable(logging.CRITICAL)
rng=np.random.default_rng(17)
class Prof:
    def __init__(self,centre=(0.0,0.0),angle=None): self.centre=centre; self.angle=angle
    @aa.grid_dec.to_array
    def f1(self,grid): g=np.array(grid); return 3*g[:,0]+7*g[:,1]
    @aa.grid_dec.to_grid
    def f2(self,grid): g=np.array(grid); return np.stack([g[:,0]*2,g[:,1]-1],-1)
    @aa.grid_dec.to_vector_yx
    def f3(self,grid): g=np.array(grid); return np.stack([g[:,1],-g[:,0]],-1)
    @aa.grid_dec.to_array
    def f1l(self,grid): g=np.array(grid); return [g[:,0],g[:,1]]
    @aa.grid_dec.project_grid
    def p1(self,grid): g=np.array(grid); return 3*g[:,0]+7*g[:,1]
m=rmask(rng,4,5); mask=aa.Mask2D(mask=m,pixel_scales=(0.5,0.7),origin=(0.3,-0.2))
g=aa.Grid2D.from_mask(mask); P=Prof()
r=P.f1(g); print(type(r).__name__, np.allclose(r.array,3*g.array[:,0]+7*g.array[:,1]), r.mask is mask)
r=P.f2(g); print(type(r).__name__, np.allclose(r.array[:,0],2*g.array[:,0]))
r=P.f3(g); print(type(r).__name__, np.allclose(r.array[:,0],g.array[:,1]), np.allclose(r.grid.array,g.array))
r=P.f1l(g); print(type(r).__name__, type(r[0]).__name__)
gi=aa.Grid2DIrregular(values=rng.normal(size=(6,2)))
r=P.f1(gi); print(type(r).__name__, np.allclose(r.array,3*gi.array[:,0]+7*gi.array[:,1]))
r=P.f2(gi); print(type(r).__name__); r=P.f3(gi); print(type(r).__name__)
g1=aa.Grid1D.uniform(shape_native=(5,),pixel_scales=0.5,origin=(0.3,))
r=P.f1(g1); print('1D',type(r).__name__, r.array, 'expected along x', 7*g1.array)
try:
    r=P.f2(g1); print('1D to_grid',type(r).__name__, r.shape)
except Exception as e: print('1D to_grid EXC',repr(e)[:100])
try:
    r=P.f3(g1); print('1D to_vec',type(r))
except Exception as e: print('1D to_vec EXC',repr(e)[:100])
r=Prof(centre=(0.2,0.1),angle=30.0).p1(g); print('proj2D',type(r).__name__, r.shape)
r=Prof(centre=(0.2,0.1),angle=30.0).p1(g1); print('proj1D',type(r).__name__, r.array)
g1m=aa.Grid1D.from_mask(aa.Mask1D(mask=np.array([True,False,False,True,False]),pixel_scales=(0.5,)))
r=P.f1(g1m); print('1D masked',type(r).__name__, r.array, r.native.array)
