"""
pytest plugin: run the repository's own tests with one property's contracts installed (extra workload, DESIGN 1.5).

  VERIF_SUITE_PROP=C01 VERIF_SUITE_OUT=/tmp/x.json  pytest -p harness.suite_plugin <repo>/test_autoarray

The 699 baseline tests drive the contracts with hundreds of further fixture inputs. Counters and witnesses are dumped at
session end and merged by harness.run into the property's result. The tests' own pass/fail status is not judged here.
"""
import json
import os
import sys

_ctx = {}


def pytest_configure(config):
    pid = os.environ.get("VERIF_SUITE_PROP")
    if not pid:
        return
    here = os.path.dirname(os.path.dirname(os.path.abspath(__file__)))
    if here not in sys.path:
        sys.path.insert(1, here)
    from harness import core, env
    os.environ[env.GUARD] = "1"
    env.ensure_deps()
    import importlib
    mod = importlib.import_module("harness.props." + pid.lower())
    ctx = core.Ctx(pid, os.environ.get("VERIF_TIER", "thorough"), int(os.environ.get("VERIF_SEED", "0")))
    ctx.unit = {"kind": "suite"}
    ctx.case_key = "repository test suite"
    sys.path.insert(0, env.REPO)
    import autoarray as aa  # the tree under test (pytest's rootdir is the same checkout)
    ctx.aa = aa
    mod.install_contracts(ctx)
    _ctx["ctx"] = ctx


def pytest_runtest_setup(item):
    ctx = _ctx.get("ctx")
    if ctx is not None:
        ctx.case_key = "suite:" + item.nodeid


def pytest_sessionfinish(session, exitstatus):
    ctx = _ctx.get("ctx")
    out = os.environ.get("VERIF_SUITE_OUT")
    if ctx is None or not out:
        return
    ctx.classes["suite_tests_collected"] += int(getattr(session, "testscollected", 0))
    with open(out, "w") as f:
        json.dump(ctx.dump(), f)
