from common import *
from autoarray.structures.triangles.array import ArrayTriangles
from autoarray.structures.triangles.coordinate_array import CoordinateArrayTriangles
from autoarray.structures.triangles.shape import Point
rng=np.random.default_rng(20)
def canon(tris,dec=9):
    t=np.round(np.asarray(tris,dtype=float),dec)+0.0
    out=[]
    for tri in t:
        out.append(tuple(sorted(map(tuple,tri))))
    return sorted(out)
def ref_up(tris):
    out=[]
    for a,b,c in tris:
        mab,mbc,mca=(a+b)/2,(b+c)/2,(c+a)/2
        out+= [[a,mab,mca],[b,mbc,mab],[c,mca,mbc],[mab,mbc,mca]]
    return np.array(out)
def ref_nb(tris):
    out=[]
    for a,b,c in tris:
        out+=[[a,b,c],[b+c-a,b,c],[a,a+c-b,c],[a,b,a+b-c]]
    return np.array(out)
bad={}
def flag(k): bad[k]=bad.get(k,0)+1
for t in range(60):
    n=rng.integers(1,8)
    coords=rng.integers(-4,5,size=(n,2)); coords=np.unique(coords,axis=0)
    c=CoordinateArrayTriangles(coordinates=coords,side_length=rng.uniform(0.3,2),x_offset=rng.normal(),y_offset=rng.normal(),flipped=bool(rng.integers(0,2)))
    tr=c.triangles
    up=c.up_sample()
    if canon(up.triangles)!=canon(ref_up(tr)): flag('coord_up')
    if not np.isclose(up.area,c.area): flag('coord_area')
    nb=c.neighborhood()
    if sorted(set(canon(nb.triangles)))!=sorted(set(canon(ref_nb(tr)))): flag('coord_nb')
    a=ArrayTriangles(indices=c.indices,vertices=c.vertices)
    if canon(a.triangles)!=canon(tr): flag('repr')
    if canon(a.up_sample().triangles)!=canon(ref_up(tr)): flag('arr_up')
    if sorted(set(canon(a.neighborhood().triangles)))!=sorted(set(canon(ref_nb(tr)))): flag('arr_nb')
    idx=rng.choice(len(coords),size=rng.integers(1,len(coords)+1),replace=False)
    if canon(c.for_indexes(idx).triangles)!=canon(tr[idx]): flag('coord_sel')
    if canon(a.for_indexes(idx).triangles)!=canon(tr[idx]): flag('arr_sel')
    # point containment
    k=rng.integers(0,len(coords)); w=rng.dirichlet([2,2,2]); p=(w[:,None]*tr[k]).sum(0)
    if k not in c.containing_indices(Point(p[0],p[1])): flag('point')
print(bad)
# for_limits_and_scale
a=ArrayTriangles.for_limits_and_scale(-1,1,-1,1,0.5); print(len(a), a.area, canon(a.up_sample().triangles)==canon(ref_up(a.triangles)))
c=CoordinateArrayTriangles.for_limits_and_scale(-1,1,-1,1,0.5); print(len(c), c.area)
