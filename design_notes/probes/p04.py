from common import *
import logging; logging.disable(logging.CRITICAL)
rng=np.random.default_rng(4)
def build(H,W,kshape,signed,sub=1,mesh=(3,3),seed=0):
    rng=np.random.default_rng(seed)
    ky,kx=kshape
    m=np.ones((H,W),bool)
    inner=rng.random((H-2*(ky//2),W-2*(kx//2)))<0.35
    if inner.all(): inner[0,0]=False
    m[ky//2:H-ky//2,kx//2:W-kx//2]=inner
    mask=aa.Mask2D(mask=m,pixel_scales=(0.7,0.9))
    k=rng.random((ky,kx))+0.1
    if signed: k=rng.normal(size=(ky,kx))
    psf=aa.Kernel2D.no_mask(values=k,pixel_scales=mask.pixel_scales)
    data=aa.Array2D(values=rng.normal(size=(H,W)),mask=mask)
    noise=aa.Array2D(values=rng.uniform(0.5,2,size=(H,W)),mask=mask)
    ds=aa.Imaging(data=data,noise_map=noise,psf=psf,use_normalized_psf=False,over_sampling=aa.OverSamplingDataset(pixelization=aa.OverSamplingUniform(sub_size=sub)))
    grid=ds.grids.pixelization
    osamp=grid.over_sampler
    sgrid=osamp.over_sampled_grid
    mesh_grid=aa.Mesh2DRectangular.overlay_grid(shape_native=mesh,grid=sgrid)
    mg=aa.MapperGrids(mask=mask,source_plane_data_grid=sgrid,source_plane_mesh_grid=mesh_grid)
    mapper=aa.Mapper(mapper_grids=mg,over_sampler=osamp,regularization=aa.reg.Constant(coefficient=1.0))
    return ds,mapper
def run(kshape,signed,n=20):
    res={'ok':0,'diff':0,'exc':0}; ex=None
    for s in range(n):
        try:
            ds,mapper=build(9,10,kshape,signed,sub=1+s%2,seed=s)
            iw=aa.Inversion(dataset=ds,linear_obj_list=[mapper],settings=aa.SettingsInversion(use_w_tilde=True,use_positive_only_solver=False))
            im=aa.Inversion(dataset=ds,linear_obj_list=[mapper],settings=aa.SettingsInversion(use_w_tilde=False,use_positive_only_solver=False))
            assert type(iw).__name__=='InversionImagingWTilde'
            ok=np.allclose(iw.data_vector,im.data_vector,rtol=1e-8,atol=1e-10) and np.allclose(iw.curvature_matrix,im.curvature_matrix,rtol=1e-8,atol=1e-10)
            res['ok' if ok else 'diff']+=1
        except Exception as e:
            res['exc']+=1; ex=repr(e)[:150]
    print(kshape,signed,res,ex)
run((3,3),False); run((3,3),True); run((3,5),False); run((5,3),False); run((1,3),False); run((5,5),True)
