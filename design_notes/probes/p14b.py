from common import *
import logging; logging.disable(logging.CRITICAL)
rng=np.random.default_rng(141)
bad={}
def flag(k,info=None):
    bad.setdefault(k,[0,None]); bad[k][0]+=1
    if bad[k][1] is None: bad[k][1]=info
pads=0
for t in range(150):
    H,W=rng.integers(3,9),rng.integers(3,9)
    ps=(rng.uniform(0.2,2),rng.uniform(0.2,2)); org=tuple(rng.normal(size=2))
    ky,kx=rng.choice([1,3,5]),rng.choice([1,3,5])
    vals=rng.normal(size=(H,W)); nz=rng.uniform(0.5,2,size=(H,W))
    data=aa.Array2D.no_mask(values=vals,pixel_scales=ps,origin=org); noise=aa.Array2D.no_mask(values=nz,pixel_scales=ps,origin=org)
    psf=aa.Kernel2D.no_mask(values=rng.random((ky,kx))+0.1,pixel_scales=ps)
    ds=aa.Imaging(data=data,noise_map=noise,psf=psf)
    m=rmask(rng,H,W,p=0.6); mask=aa.Mask2D(mask=m,pixel_scales=ps,origin=org)
    g0=aa.Grid2D.from_mask(mask).array
    ref=sorted(zip(np.round(g0[:,0],9),np.round(g0[:,1],9),vals[~m],nz[~m]))
    try:
        md=ds.apply_mask(mask)
    except Exception as e:
        flag('exc',repr(e)[:120]); continue
    if md.data.shape_native!=(H,W): pads+=1
    g1=md.grids.uniform.array
    got=sorted(zip(np.round(g1[:,0],9),np.round(g1[:,1],9),md.data.array,md.noise_map.array))
    if not (len(got)==len(ref) and np.allclose(np.array(got),np.array(ref),atol=1e-8)): flag('triples',(H,W,ky,kx,md.data.shape_native))
    # blurring must now work
    try: md.mask.derive_mask.blurring_from((ky,kx))
    except Exception as e: flag('still no blur',(H,W,ky,kx))
    # zoom
    a=aa.Array2D(values=vals,mask=mask)
    for buf in (0,1,2):
        z=a.zoomed_around_mask(buffer=buf).native.array
        ys,xs=np.where(~m); found=False
        for dy in range(-z.shape[0],H+1):
            for dx in range(-z.shape[1],W+1):
                ok=True
                for y,x in zip(ys,xs):
                    Y,X=y-dy,x-dx
                    if not (0<=Y<z.shape[0] and 0<=X<z.shape[1] and z[Y,X]==vals[y,x]): ok=False;break
                if ok: found=True;break
            if found:break
        if not found: flag('zoom',(H,W,buf,m.astype(int).tolist()))
print('padded cases',pads)
for k,v in bad.items(): print(k,v)
