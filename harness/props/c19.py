"""
C19 - layout regions rotate and extract consistently with the arrays they index.

Workload (EXHAUSTIVE up to the stated bound): every array shape HxW with H,W <= B (B = 5 quick / 6 thorough), every
valid region inside it, all four read-out corners, every extraction window inside the array, every `pixels` range
and every `pixels_from_end` inside the parent region, every trailing range that stays within one row/column past the
array, every empty / reversed request (must be rejected), every 4-tuple / 2-tuple over [-1, B+1] for the validity rule,
Region1D / Layout1D for every length <= B+2, Layout2D.rotated_from_roe_corner / new_rotated_from /
original_orientation_from / layout_extracted_from / extract_parallel_overscan_array_2d_from /
extract_serial_overscan_array_from with every region in every slot, and Array2D.original_orientation on native-stored
arrays. Four endpoints need at most four distinct positions, so a side of 4 already realises every relative order
(with ties) of region and window endpoints; 5 and 6 add larger magnitudes and more non-square shapes.

Oracle: labelled arrays, cell value = unique id, so a slice identifies the cells it addressed. Rotation reference =
own flips (rows reversed iff corner[0]==0, columns reversed iff corner[1]==1 - the read-out corner lands bottom-left);
slicing the rotated labelled array by the rotated region must give the rotated slice of the original, a second
rotation must restore region and array. Extraction: the region's cells are marked on a boolean array, the window is
cut out of it, the marked rows/columns of the cut *are* the expected region (None when nothing is marked). Sub-regions:
the parent's content is cut from a labelled canvas, the requested rows/columns are taken from it (front: counted from
the parent's first row/column; from_end: its last k; trailing: counted from the first row/column after the parent)
and compared with the canvas sliced by the returned region. Validity: a constructor that returns must have been given
non-negative, non-empty extents; every other tuple must raise. Everything exact. numpy clips out-of-range slices
silently, therefore every returned region is also bounds-checked against the array it addresses.

Contracts (icontract, see every internal call incl. those made by Layout2D / Array2D): layout_util.
rotate_array_via_roe_corner_from, rotate_region_via_roe_corner_from, region_after_extraction, x0x1_after_extraction,
Region2D.__init__, Region1D.__init__ - each with the same label oracle evaluated on the call's own arguments. The
thorough tier additionally replays the repository's own test suite with these contracts installed (DESIGN 1.5).

Validated against (tools/mutant.py, 2026-10-03). The three seeded breaks of DESIGN as written are not usable: two are
killed by the repository's own suite, one is an equivalent mutant; suite-green variants of each were used instead.
Every mutant below keeps the repository suite green (699/699) and is caught by the QUICK tier:
  m19a2 rotate_region, corner (0,1) only: x0' = shape[1]-region[1]-1 (y1 used for x1; equal on the suite's single
        region (0,2,1,3))                                 -> contract rotate_region, rotate.commute, layout.*
  m19c2 parallel_trailing_region_from measured from total_rows instead of y1 (needs y0 > 0)  -> sub.parallel_trailing
  m19d  parallel_front_region_from(pixels_from_end) uses total_columns (needs a non-square region)
                                                          -> sub.parallel_front_from_end
  m19e  serial_trailing_region_from measured from y1 instead of x1 (needs y1 != x1)          -> sub.serial_trailing
  m19f  region_after_extraction takes the x-shift from extraction_region[0] (needs window y0 != x0)
                                                          -> contract region_after_extraction, extract.*
  m19g  Region2D accepts x0 == x1 (`>=` -> `>`)           -> contract Region2D.__init__, sub.empty_rejected, valid.*
  m19j  Layout2D.layout_extracted_from derives serial_overscan from serial_prescan             -> layout.extracted_from
  m19k  Array2D.original_orientation swaps the corner tuple (needs corner (0,1)/(1,0))         -> array2d.original_orientation
  m19l  Region1D.trailing_region_from measured from total_pixels (needs x0 > 0)                -> r1d.trailing
  m19m  Layout2D.new_rotated_from rotates serial_overscan with the transposed shape (needs H != W)
                                                          -> layout.new_rotated_from.twice
Also caught by quick but NOT suite-green (the suite kills them too): DESIGN's "reflect x with shape[0]" (m19a),
"trailing region measured from y0" (m19c), touching intervals returned as empty regions (m19i).
Not caught, correctly: DESIGN's "`x1e > x1o` -> `>=`" (m19b) is an equivalent mutant on the statement's domain - for
valid intervals (x0o<x1o, x0e<x1e) x1e == x1o is taken by the preceding branch `x1e >= x0o and x1e <= x1o` (0 differences
over all 1296 interval pairs in [0,8]); it only changes the result for an invalid original interval (x0o >= x1o).
"""
import numpy as np

from harness import env, gen
from harness.monitors import contracts

ID = "C19"
NO = 19
RULE = ("exhaustive enumeration: every shape HxW (H,W<=B), every region (y0<y1<=H, x0<x1<=W), x 4 read-out corners "
        "(rotation, as tuple and as Region2D, directly and through Layout2D in each of its 3 slots), x every window "
        "inside the array (extraction, directly and through Layout2D.layout_extracted_from), x every pixels range / "
        "pixels_from_end inside the parent and every trailing range up to one past the array (sub-regions), every "
        "4-/2-tuple over [-1,B+1] (validity), every 1-D region of every length <= B+2. A case = one (kind, shape, "
        "region, corner | window | pixels) combination; distinct = distinct such combinations (hash of the tuple); "
        "non-trivial = not the identity instance of its kind (corner (1,0), window = whole array, pixels = whole "
        "parent are run but counted trivial)")
BOUNDS = {"quick": "complete for B=5: 25 shapes, 1 225 (shape, region) pairs x 4 corners, 137 641 (region, window) pairs, "
                   "all pixel ranges, 8^4 4-tuples and 8^2 2-tuples over [-1,6], 1-D lengths <= 7",
          "thorough": "complete for B=6: 36 shapes, 3 136 (shape, region) pairs x 4 corners, 659 344 (region, window) "
                      "pairs, all pixel ranges, 9^4 4-tuples and 9^2 2-tuples over [-1,7], 1-D lengths <= 8"}
EXHAUSTIVE = {"quick": True, "thorough": True}
ASSUMPTIONS = [
    "the rotation convention is the documented one (read-out corner moved to the bottom-left (1,0): rows flipped for "
    "corner[0]==0, columns for corner[1]==1); the statement only demands that array and region rotate 'the same way'",
    "windows are regions inside the array; pixels ranges of front regions lie inside the parent region",
    "a slim-stored Array2D hands its 1-D buffer to the rotation (IndexError for three corners); rotating a 1-D buffer "
    "is outside the statement - logged as an observation (skipped counter), not checked",
    "'rejected' = the constructor raises (autoarray.exc.RegionException observed); any exception counts as rejection",
]
QUICK_JOBS = 8

CORNERS = ((0, 0), (0, 1), (1, 0), (1, 1))
SLOTS = ("parallel_overscan", "serial_prescan", "serial_overscan")

_CONTRACTS = ["contract:layout_util.rotate_array_via_roe_corner_from", "contract:layout_util.rotate_region_via_roe_corner_from",
              "contract:layout_util.region_after_extraction", "contract:layout_util.x0x1_after_extraction",
              "contract:Region2D.__init__", "contract:Region1D.__init__"]
MIN_MONITORS = {"*": dict({c: 1 for c in _CONTRACTS}, **{
    "rotate.array_is_corner_flip": 1, "rotate.commute": 1, "rotate.twice_identity": 1, "rotate.region_in_bounds": 1, "rotate.returns_region": 1, "valid.rotate_rejects_invalid": 1,
    "layout.rotated_from_roe_corner": 1, "layout.new_rotated_from.twice": 1, "layout.new_rotated_from.other_corner": 1, "layout.original_orientation_from": 1,
    "layout.extract_parallel_overscan": 1, "layout.extract_serial_overscan": 1, "layout.extracted_from": 1,
    "array2d.original_orientation": 1, "extract.overlap": 1, "extract.none_when_disjoint": 1,
    "sub.parallel_front": 1, "sub.parallel_front_from_end": 1, "sub.serial_front": 1, "sub.serial_front_from_end": 1,
    "sub.parallel_trailing": 1, "sub.serial_trailing": 1, "sub.empty_rejected": 1, "sub.full_regions": 1,
    "valid.region2d.accept": 1, "valid.region2d.reject": 1, "valid.region1d.accept": 1, "valid.region1d.reject": 1,
    "r1d.slice": 1, "r1d.front": 1, "r1d.front_from_end": 1, "r1d.trailing": 1, "layout1d.extract_overscan": 1})}


def bound(tier):
    return 5 if tier == "quick" else 6


def regions_of(H, W):
    return [(y0, y1, x0, x1) for y0 in range(H) for y1 in range(y0 + 1, H + 1)
            for x0 in range(W) for x1 in range(x0 + 1, W + 1)]


def n_regions(H, W):
    return (H * (H + 1) // 2) * (W * (W + 1) // 2)


def plan(tier, seed):
    B = bound(tier)
    units = []
    for H in range(1, B + 1):
        for W in range(1, B + 1):
            n = n_regions(H, W)
            units.append({"kind": "rot", "H": H, "W": W, "w": n * 4 * 12})
            units.append({"kind": "sub", "H": H, "W": W, "w": n * (H + W) * 3})
            chunk = max(1, 12000 // n)
            for s in range(0, n, chunk):
                units.append({"kind": "ext", "H": H, "W": W, "start": s, "stop": min(n, s + chunk),
                              "w": (min(n, s + chunk) - s) * n * 4})
    units.append({"kind": "valid", "B": B, "w": (B + 3) ** 4 * 2})
    for L in range(1, B + 3):
        units.append({"kind": "r1d", "L": L, "w": L ** 4})
    if tier == "thorough":
        units.append({"kind": "suite", "w": 10 ** 7})   # the repository's own tests with the contracts installed (DESIGN 1.5)
    return units


# ------------------------------------------------------------------------------ reference model
def ids(H, W):
    """Labelled array: cell value = unique id (never 0, so a zero-filled result cannot pass)."""
    return np.arange(1, H * W + 1, dtype=float).reshape(H, W) * 3.0 + 0.5


def ref_rot(a, corner):
    a = np.asarray(a)
    if corner[0] == 0:
        a = a[::-1, :]
    if corner[1] == 1:
        a = a[:, ::-1]
    return a


def ref_overlap(region, window, H, W):
    """Mark the region's cells, cut the window out, read the marked rows/columns of the cut."""
    lab = np.zeros((H, W), bool)
    lab[region[0]:region[1], region[2]:region[3]] = True
    return marked_rect(lab[window[0]:window[1], window[2]:window[3]])


def marked_rect(win):
    rows = np.flatnonzero(win.any(axis=1))
    if rows.size == 0:
        return None
    cols = np.flatnonzero(win.any(axis=0))
    return (int(rows[0]), int(rows[-1]) + 1, int(cols[0]), int(cols[-1]) + 1)


def as_tuple(region):
    if region is None:
        return None
    r = region.region if hasattr(region, "region") else region
    return tuple(int(v) for v in r)


def is_int_tuple(t, n):
    try:
        return len(t) == n and all(isinstance(v, (int, np.integer)) and not isinstance(v, bool) for v in t)
    except TypeError:
        return False


def inside(r, H, W):
    return 0 <= r[0] < r[1] <= H and 0 <= r[2] < r[3] <= W


# ------------------------------------------------------------------------------ contracts
def post_rotate_array(ctx, a, result, old):
    arr, c = a["array"], a["roe_corner"]
    if not isinstance(arr, np.ndarray) or arr.ndim != 2 or tuple(c) not in CORNERS:
        return None
    exp = ref_rot(arr, tuple(c))
    return (isinstance(result, np.ndarray) and np.array_equal(result, exp),
            {"array": arr, "roe_corner": tuple(c), "expected": exp, "got": result})


def post_rotate_region(ctx, a, result, old):
    reg, shape, c = a["region"], a["shape_native"], a["roe_corner"]
    if tuple(c) not in CORNERS:
        return None
    if reg is None:
        return (result is None, {"region": None, "got": repr(result)})
    r = as_tuple(reg)
    H, W = int(shape[0]), int(shape[1])
    if not is_int_tuple(r, 4) or not inside(r, H, W) or H * W > 4096:
        return None
    lab = ids(H, W)
    exp = ref_rot(lab[r[0]:r[1], r[2]:r[3]], tuple(c))
    from autoarray.layout.region import Region2D
    g = as_tuple(result) if isinstance(result, Region2D) else None   # a bare tuple cannot slice anything
    ok = g is not None and inside(g, H, W) and np.array_equal(ref_rot(lab, tuple(c))[g[0]:g[1], g[2]:g[3]], exp)
    return (ok, {"region": r, "shape_native": (H, W), "roe_corner": tuple(c), "got": g, "returned_type": type(result).__name__,
                 "expected_content": exp})


def post_region_after_extraction(ctx, a, result, old):
    o, e = a["original_region"], a["extraction_region"]
    if o is None:
        return (result is None, {"original_region": None, "got": repr(result)})
    o, e = as_tuple(o), as_tuple(e)
    if not (is_int_tuple(o, 4) and is_int_tuple(e, 4)):
        return None
    H, W = max(o[1], e[1]), max(o[3], e[3])
    if not (inside(o, H, W) and inside(e, H, W)) or H * W > 4096:
        return None
    exp = ref_overlap(o, e, H, W)
    g = as_tuple(result)
    return (g == exp, {"original_region": o, "extraction_region": e, "expected": exp, "got": g})


def post_x0x1(ctx, a, result, old):
    x0o, x1o, x0e, x1e = a["x0o"], a["x1o"], a["x0e"], a["x1e"]
    if not is_int_tuple((x0o, x1o, x0e, x1e), 4) or not (0 <= x0o < x1o and 0 <= x0e < x1e) or max(x1o, x1e) > 4096:
        return None
    lab = np.zeros(max(x1o, x1e), bool)
    lab[x0o:x1o] = True
    m = np.flatnonzero(lab[x0e:x1e])
    exp = (None, None) if m.size == 0 else (int(m[0]), int(m[-1]) + 1)
    got = tuple(None if v is None else int(v) for v in result)
    return (got == exp, {"x0o": x0o, "x1o": x1o, "x0e": x0e, "x1e": x1e, "expected": exp, "got": got})


def post_region2d_init(ctx, a, result, old):
    r = a["region"]
    if not is_int_tuple(tuple(r), 4):
        return None
    r = tuple(int(v) for v in r)
    return (min(r) >= 0 and r[0] < r[1] and r[2] < r[3], {"accepted_region": r})


def post_region1d_init(ctx, a, result, old):
    r = a["region"]
    if not is_int_tuple(tuple(r), 2):
        return None
    r = tuple(int(v) for v in r)
    return (min(r) >= 0 and r[0] < r[1], {"accepted_region": r})


def setup(ctx):
    ctx.aa = env.boot("base")
    from autoarray.layout import layout_util
    ctx.lu = layout_util
    install_contracts(ctx)


def install_contracts(ctx):
    """Also used by harness/suite_plugin.py: the repository's own layout tests drive the same contracts (thorough)."""
    from autoarray.layout import layout_util, region as region_mod
    contracts.attach(ctx, layout_util, "rotate_array_via_roe_corner_from", post_rotate_array)
    contracts.attach(ctx, layout_util, "rotate_region_via_roe_corner_from", post_rotate_region)
    contracts.attach(ctx, layout_util, "region_after_extraction", post_region_after_extraction)
    contracts.attach(ctx, layout_util, "x0x1_after_extraction", post_x0x1)
    contracts.attach(ctx, region_mod.Region2D, "__init__", post_region2d_init)
    contracts.attach(ctx, region_mod.Region1D, "__init__", post_region1d_init)


def teardown(ctx):
    contracts.detach_all()


# ------------------------------------------------------------------------------ helpers
def region_classes(r, H, W):
    c = []
    if r[0] == 0 or r[2] == 0 or r[1] == H or r[3] == W:
        c.append("region_touches_edge")
    if r[1] - r[0] == 1:
        c.append("single_row_region")
    if r[3] - r[2] == 1:
        c.append("single_col_region")
    if r == (0, H, 0, W):
        c.append("region_is_whole_array")
    if H != W:
        c.append("non_square_array")
    return c


def rejected(fn):
    """(True, exception class name) when fn raises, (False, value) otherwise."""
    try:
        v = fn()
    except Exception as e:  # any exception is a rejection
        return True, type(e).__name__
    return False, v


def native_of(x):
    x = x.native if hasattr(x, "native") else x
    return np.asarray(x.array if hasattr(x, "array") and not isinstance(x, np.ndarray) else x)


# ------------------------------------------------------------------------------ rotation
def run_rot(ctx, u):
    aa, lu = ctx.aa, ctx.lu
    H, W = u["H"], u["W"]
    lab = ids(H, W)
    regs = regions_of(H, W)
    n = len(regs)
    ps = (0.5, 2.0)
    for c in CORNERS:
        # the array side, once per (shape, corner)
        if ctx.begin("rot:%dx%d:array:%s" % (H, W, c)):
            keep = lab.copy()
            ok, ra = ctx.guarded("rotate.array_is_corner_flip", lu.rotate_array_via_roe_corner_from, lab, c)
            if ok:
                exp = ref_rot(keep, c)
                corner_cell = keep[0 if c[0] == 0 else H - 1, 0 if c[1] == 0 else W - 1]
                ctx.check(isinstance(ra, np.ndarray) and np.array_equal(ra, exp) and ra[H - 1, 0] == corner_cell
                          and np.array_equal(lab, keep),
                          "rotate.array_is_corner_flip", shape=(H, W), corner=c, expected=exp, got=ra)
                ok2, back = ctx.guarded("rotate.twice_identity", lu.rotate_array_via_roe_corner_from, ra, c)
                if ok2:
                    ctx.check(np.array_equal(back, keep), "rotate.twice_identity", what="array", shape=(H, W), corner=c, got=back)
                # Array2D.original_orientation on native-stored arrays: an array delivered in the rotated frame is
                # returned in the original frame (same rotation applied again)
                hdr = aa.Header(original_roe_corner=c)
                for how in ("ctor_store_native", "no_mask_native"):
                    if how == "ctor_store_native":
                        A = aa.Array2D(values=exp.copy(), mask=aa.Mask2D.all_false(shape_native=(H, W), pixel_scales=ps),
                                       header=hdr, store_native=True)
                    else:
                        A = aa.Array2D.no_mask(values=exp.copy(), pixel_scales=ps, header=hdr).native
                    ok3, oo = ctx.guarded("array2d.original_orientation", lambda: A.original_orientation)
                    if ok3:
                        ctx.check(np.array_equal(np.asarray(oo), keep) and np.array_equal(native_of(A), exp),
                                  "array2d.original_orientation", shape=(H, W), corner=c, how=how, expected=keep, got=lambda: np.asarray(oo))
                # masked native-stored arrays (masks that are NOT symmetric under the flip): the content in the original frame is the
                # flip of the array's own native content (masked cells zero), i.e. the mask travels with the values
                if H * W >= 2:
                    mlist = []
                    for mk in ("top_row", "right_column", "corner_pixel", "first_cell_only_unmasked"):
                        mm = np.zeros((H, W), bool)
                        if mk == "top_row" and H >= 2:
                            mm[0, :] = True
                        elif mk == "right_column" and W >= 2:
                            mm[:, -1] = True
                        elif mk == "corner_pixel":
                            mm[0, W - 1] = True
                        elif mk == "first_cell_only_unmasked":
                            mm[:] = True
                            mm[0, 0] = False
                        if mm.any() and not mm.all():
                            mlist.append((mk, mm))
                    for mk, mm in mlist:
                        Am = aa.Array2D(values=exp.copy(), mask=aa.Mask2D(mask=mm.copy(), pixel_scales=ps), header=hdr, store_native=True)
                        content = np.where(mm, 0, exp)
                        ok3, oo = ctx.guarded("array2d.original_orientation", lambda: np.asarray(native_of(Am.original_orientation)))
                        if ok3:
                            ctx.check(oo.shape == content.shape and np.array_equal(oo, ref_rot(content, c)), "array2d.original_orientation", shape=(H, W),
                                      corner=c, how="masked_native:" + mk, mask=mm, expected=lambda: ref_rot(content, c), got=oo)
                            ctx.classes["original_orientation_of_masked_array"] += 1
                        # the same array stored natively WITH its values under the mask (skip_mask=True, the representation kept for
                        # full-frame detector data): rotating it rotates every stored value
                        Ak = aa.Array2D(values=exp.copy(), mask=aa.Mask2D(mask=mm.copy(), pixel_scales=ps), header=hdr, store_native=True, skip_mask=True)
                        ok4, ok_ = ctx.guarded("array2d.original_orientation", lambda: np.asarray(native_of(Ak.original_orientation)))
                        if ok4:
                            ctx.check(ok_.shape == exp.shape and np.array_equal(ok_, ref_rot(exp, c)), "array2d.original_orientation", shape=(H, W),
                                      corner=c, how="native_with_values_under_the_mask:" + mk, mask=mm, expected=lambda: ref_rot(exp, c), got=ok_)
                # observation only: slim-stored arrays
                ctx.note("observation (not checked): a slim-stored Array2D hands its 1-D buffer to the rotation - "
                         "original_orientation raises IndexError for corners (0,0),(0,1),(1,1) and returns the 1-D buffer for (1,0)")
                As = aa.Array2D.no_mask(values=exp.copy(), pixel_scales=ps, header=hdr)
                try:
                    o = np.asarray(As.original_orientation)
                    ctx.skipped["slim_stored_original_orientation:" + ("same" if o.shape == keep.shape and np.array_equal(o, keep) else "differs")] += 1
                except Exception as e:
                    ctx.skipped["slim_stored_original_orientation:raises_" + type(e).__name__] += 1
            ctx.case("rot_array", H, W, c, nontrivial=(c != (1, 0)), cls=["array_rotation"],
                     sample=lambda: {"kind": "array rotation", "shape": [H, W], "corner": list(c), "labelled": lab.tolist(),
                                     "rotated": ref_rot(lab, c).tolist()})
        ra = ref_rot(lab, c)
        rarr = aa.Array2D.no_mask(values=ra.copy(), pixel_scales=ps)
        for i, r in enumerate(regs):
            if not ctx.begin("rot:%dx%d:%s:%s" % (H, W, r, c)):
                continue
            exp = ref_rot(lab[r[0]:r[1], r[2]:r[3]], c)
            for form in ("tuple", "Region2D"):
                arg = r if form == "tuple" else aa.Region2D(region=r)
                ok, rr = ctx.guarded("rotate.commute", lu.rotate_region_via_roe_corner_from, region=arg, shape_native=(H, W), roe_corner=c)
                if not ok:
                    continue
                isreg = isinstance(rr, aa.Region2D)
                ctx.check(isreg, "rotate.returns_region", shape=(H, W), region=r, corner=c, form=form, returned_type=type(rr).__name__)
                if not isreg:
                    continue
                g = as_tuple(rr)
                inb = g is not None and inside(g, H, W)
                ctx.check(inb, "rotate.region_in_bounds", shape=(H, W), region=r, corner=c, form=form, got=g)
                if not inb:
                    continue
                # the real rotated array sliced by the real rotated region == rotated content of the original region
                real_ra = lu.rotate_array_via_roe_corner_from(lab, c)
                real_exp = lu.rotate_array_via_roe_corner_from(lab[r[0]:r[1], r[2]:r[3]], c)
                got = real_ra[rr.slice]
                ctx.check(np.array_equal(got, exp) and np.array_equal(got, real_exp), "rotate.commute",
                          shape=(H, W), region=r, corner=c, form=form, rotated_region=g, expected=exp, got=got)
                ok2, rr2 = ctx.guarded("rotate.twice_identity", lu.rotate_region_via_roe_corner_from, region=rr, shape_native=(H, W), roe_corner=c)
                if ok2:
                    ctx.check(as_tuple(rr2) == r, "rotate.twice_identity", what="region", shape=(H, W), region=r, corner=c,
                              once=g, twice=as_tuple(rr2))
            # through Layout2D: the region in each slot, the other slots filled with other regions / None
            for s, slot in enumerate(SLOTS):
                kw = {slot: r if (i + s) % 2 == 0 else aa.Region2D(region=r)}
                o1 = regs[(i * 7 + 3 + s) % n]
                o2 = None if (i + s) % 4 == 0 else regs[(i * 5 + 1 + 2 * s) % n]
                kw[SLOTS[(s + 1) % 3]] = o1
                kw[SLOTS[(s + 2) % 3]] = o2
                orig = {k: as_tuple(v) for k, v in kw.items()}
                ok, lay = ctx.guarded("layout.rotated_from_roe_corner", aa.Layout2D.rotated_from_roe_corner,
                                      roe_corner=c, shape_native=(H, W), **kw)
                if not ok:
                    continue
                good = tuple(lay.original_roe_corner) == c and tuple(lay.shape_2d) == (H, W)
                for k in SLOTS:
                    reg = getattr(lay, k)
                    if orig[k] is None:
                        good = good and reg is None
                        continue
                    g = as_tuple(reg)
                    e = ref_rot(lab[orig[k][0]:orig[k][1], orig[k][2]:orig[k][3]], c)
                    good = good and g is not None and inside(g, H, W) and np.array_equal(ra[reg.slice], e)
                ctx.check(good, "layout.rotated_from_roe_corner", shape=(H, W), corner=c, regions=orig,
                          got=lambda: {k: as_tuple(getattr(lay, k)) for k in SLOTS})
                ok, lay2 = ctx.guarded("layout.new_rotated_from.twice", lay.new_rotated_from, roe_corner=c)
                if ok:
                    ctx.check(all(as_tuple(getattr(lay2, k)) == orig[k] for k in SLOTS) and tuple(lay2.shape_2d) == (H, W),
                              "layout.new_rotated_from.twice", shape=(H, W), corner=c, regions=orig,
                              got=lambda: {k: as_tuple(getattr(lay2, k)) for k in SLOTS})
                # rotating the layout to ANOTHER corner than the one it was built for: every slot must be rotated by the
                # requested corner (the region of the once-rotated frame must slice the twice-rotated content)
                for c2 in CORNERS:
                    if c2 == c:
                        continue
                    ok, lay3 = ctx.guarded("layout.new_rotated_from.other_corner", lay.new_rotated_from, roe_corner=c2)
                    if not ok:
                        continue
                    ra2 = ref_rot(ra, c2)
                    good3 = tuple(lay3.original_roe_corner) == c2
                    for k in SLOTS:
                        src_reg = getattr(lay, k)
                        reg = getattr(lay3, k)
                        if src_reg is None:
                            good3 = good3 and reg is None
                            continue
                        g3 = as_tuple(reg)
                        e3 = ref_rot(ra[src_reg.slice], c2)
                        good3 = good3 and g3 is not None and inside(g3, H, W) and np.array_equal(ra2[reg.slice], e3)
                    ctx.check(good3, "layout.new_rotated_from.other_corner", shape=(H, W), built_for=c, rotated_to=c2,
                              regions={k: as_tuple(getattr(lay, k)) for k in SLOTS}, got=lambda: {k: as_tuple(getattr(lay3, k)) for k in SLOTS})
                if s == 0:
                    ok, oo = ctx.guarded("layout.original_orientation_from", lay.original_orientation_from, array=ra.copy())
                    if ok:
                        ctx.check(np.array_equal(np.asarray(oo), lab), "layout.original_orientation_from", shape=(H, W), corner=c,
                                  got=lambda: np.asarray(oo))
                    # the same frame as a native-stored Array2D whose header names ANOTHER read-out corner (a frame mirrored together
                    # with its layout after loading): the layout restores by its own corner - the rotation it was built with, applied
                    # a second time
                    for c_hdr in CORNERS:
                        A_ = aa.Array2D(values=ra.astype(float).copy(), mask=aa.Mask2D.all_false(shape_native=ra.shape, pixel_scales=1.0),
                                        header=aa.Header(original_roe_corner=c_hdr), store_native=True)
                        ok, oo = ctx.guarded("layout.original_orientation_from", lay.original_orientation_from, array=A_)
                        if ok:
                            ctx.check(np.array_equal(np.asarray(native_of(oo)), lab), "layout.original_orientation_from", shape=(H, W), corner=c,
                                      array_header_corner=c_hdr, container="native-stored Array2D", got=lambda: np.asarray(oo))
                if not good:
                    continue
                if lay.parallel_overscan is not None and slot == "parallel_overscan":
                    ok, ex = ctx.guarded("layout.extract_parallel_overscan", lay.extract_parallel_overscan_array_2d_from, array=rarr)
                    if ok:
                        ctx.check(np.array_equal(native_of(ex), exp), "layout.extract_parallel_overscan", shape=(H, W), corner=c,
                                  region=r, expected=exp, got=lambda: native_of(ex))
                if lay.serial_overscan is not None and slot == "serial_overscan":
                    ok, ex = ctx.guarded("layout.extract_serial_overscan", lay.extract_serial_overscan_array_from, array=rarr)
                    if ok:
                        ctx.check(np.array_equal(native_of(ex), exp), "layout.extract_serial_overscan", shape=(H, W), corner=c,
                                  region=r, expected=exp, got=lambda: native_of(ex))
            ctx.case("rot", H, W, r, c, nontrivial=(c != (1, 0)), cls=region_classes(r, H, W) + ["corner_%d%d" % c],
                     sample=lambda: {"kind": "region rotation", "shape": [H, W], "region": list(r), "corner": list(c),
                                     "rotated_content": exp.tolist()})


# ------------------------------------------------------------------------------ extraction
def window_class(r, w, exp):
    if exp is None:
        return "disjoint"
    clipped = (w[0] > r[0]) + (w[1] < r[1]) + (w[2] > r[2]) + (w[3] < r[3])
    if clipped == 0:
        return "region_inside_window"
    if w[0] >= r[0] and w[1] <= r[1] and w[2] >= r[2] and w[3] <= r[3]:
        return "window_inside_region"
    return "clipped_on_%d_sides" % clipped


def ext_sample(ctx, H, W, r, w, lab, exp):
    ctx._ext_sampled = True   # one extraction sample per worker, so the other kinds show up in the evidence too
    return {"kind": "extraction", "shape": [H, W], "region": list(r), "window": list(w),
            "marked_window": lab[w[0]:w[1], w[2]:w[3]].astype(int).tolist(), "expected_region": None if exp is None else list(exp)}


def run_ext(ctx, u):
    aa, lu = ctx.aa, ctx.lu
    H, W = u["H"], u["W"]
    regs = regions_of(H, W)
    n = len(regs)
    labs = {}
    for r in regs:
        m = np.zeros((H, W), bool)
        m[r[0]:r[1], r[2]:r[3]] = True
        labs[r] = m
    whole = (0, H, 0, W)
    for i in range(u["start"], u["stop"]):
        r = regs[i]
        trio = {"parallel_overscan": r, "serial_prescan": regs[(i * 7 + 3) % n],
                "serial_overscan": None if i % 5 == 0 else regs[(i * 5 + 1) % n]}
        corner = CORNERS[i % 4]
        lay = aa.Layout2D(shape_2d=(H, W), original_roe_corner=corner, **trio)
        rcls = region_classes(r, H, W)
        for w in regs:
            if not ctx.begin("ext:%dx%d:%s:%s" % (H, W, r, w)):
                continue
            exp = marked_rect(labs[r][w[0]:w[1], w[2]:w[3]])
            ok, got = ctx.guarded("extract.overlap", lu.region_after_extraction, original_region=r, extraction_region=w)
            if ok:
                g = as_tuple(got)
                if exp is None:
                    ctx.check(got is None, "extract.none_when_disjoint", shape=(H, W), region=r, window=w, got=g)
                else:
                    ctx.check(g == exp, "extract.overlap", shape=(H, W), region=r, window=w, expected=exp, got=g)
            ok, le = ctx.guarded("layout.extracted_from", lay.layout_extracted_from, extraction_region=w)
            if ok:
                good = tuple(le.original_roe_corner) == corner
                want = {}
                for k in SLOTS:
                    want[k] = None if trio[k] is None else marked_rect(labs[trio[k]][w[0]:w[1], w[2]:w[3]])
                    good = good and as_tuple(getattr(le, k)) == want[k]
                ctx.check(good, "layout.extracted_from", shape=(H, W), regions=trio, window=w, expected=want,
                          got=lambda: {k: as_tuple(getattr(le, k)) for k in SLOTS})
            wc = window_class(r, w, exp)
            ctx.case("ext", H, W, r, w, nontrivial=(w != whole), cls=[wc] + rcls,
                     sample=None if (not wc.startswith("clipped") or getattr(ctx, "_ext_sampled", False)) else lambda: ext_sample(ctx, H, W, r, w, labs[r], exp))


# ------------------------------------------------------------------------------ sub-regions
def run_sub(ctx, u):
    aa = ctx.aa
    H, W = u["H"], u["W"]
    PAD = 2
    canvas = ids(H + PAD, W + PAD)   # the array plus two rows/columns past it, so trailing regions address real labels
    CH, CW = canvas.shape

    def content(reg):
        g = as_tuple(reg)
        if g is None or not inside(g, CH, CW):
            return None
        return canvas[reg.slice]

    def same(reg, expected):
        got = content(reg)
        return got is not None and got.shape == expected.shape and np.array_equal(got, expected)

    for r in regions_of(H, W):
        y0, y1, x0, x1 = r
        rows, cols = y1 - y0, x1 - x0
        R = aa.Region2D(region=r)
        parent = canvas[y0:y1, x0:x1]
        below = canvas[y1:, x0:x1]      # rows after the parent, its columns
        right = canvas[y0:y1, x1:]      # columns after the parent, its rows
        rcls = region_classes(r, H, W)
        plan_ = []
        for axis, size in (("parallel", rows), ("serial", cols)):
            for p0 in range(size):
                for p1 in range(p0 + 1, size + 1):
                    plan_.append((axis + "_front", (p0, p1)))
            # ranges that run past the parent's far edge (into the overscan / the next rows): still counted from the named edge
            lim = (CH - y0) if axis == "parallel" else (CW - x0)
            for p1 in range(size + 1, min(size + PAD, lim) + 1):
                for p0 in sorted({0, size - 1, size}):
                    if 0 <= p0 < p1:
                        plan_.append((axis + "_front_past_parent", (p0, p1)))
            for k in range(1, size + 1):
                plan_.append((axis + "_front_from_end", k))
            # more rows / columns than the parent has: still that many, ending at the parent's far edge
            for k in range(size + 1, min(size + PAD, y1 if axis == "parallel" else x1) + 1):
                plan_.append((axis + "_front_from_end_past_parent", k))
            room = (H - y1 if axis == "parallel" else W - x1) + 1
            for p0 in range(room):
                for p1 in range(p0 + 1, room + 1):
                    plan_.append((axis + "_trailing", (p0, p1)))
            for p in range(size + 1):
                plan_.append((axis + "_empty", (p, p)))
            for p0 in range(1, size + 1):
                plan_.append((axis + "_empty", (p0, p0 - 1)))
            plan_.append((axis + "_empty", 0))
        plan_.append(("full", None))
        for kind, p in plan_:
            if not ctx.begin("sub:%dx%d:%s:%s:%s" % (H, W, r, kind, p)):
                continue
            mon = "sub." + kind
            if kind == "parallel_front":
                ok, s = ctx.guarded(mon, R.parallel_front_region_from, pixels=p)
                exp = parent[p[0]:p[1], :]
            elif kind == "serial_front":
                ok, s = ctx.guarded(mon, R.serial_front_region_from, pixels=p)
                exp = parent[:, p[0]:p[1]]
            elif kind == "parallel_front_past_parent":
                mon = "sub.parallel_front"
                ok, s = ctx.guarded(mon, R.parallel_front_region_from, pixels=p)
                exp = canvas[y0 + p[0]:y0 + p[1], x0:x1]
            elif kind == "serial_front_past_parent":
                mon = "sub.serial_front"
                ok, s = ctx.guarded(mon, R.serial_front_region_from, pixels=p)
                exp = canvas[y0:y1, x0 + p[0]:x0 + p[1]]
            elif kind == "parallel_front_from_end":
                ok, s = ctx.guarded(mon, R.parallel_front_region_from, pixels_from_end=p)
                exp = parent[rows - p:, :]
            elif kind == "serial_front_from_end":
                ok, s = ctx.guarded(mon, R.serial_front_region_from, pixels_from_end=p)
                exp = parent[:, cols - p:]
            elif kind == "parallel_front_from_end_past_parent":
                mon = "sub.parallel_front_from_end"
                ok, s = ctx.guarded(mon, R.parallel_front_region_from, pixels_from_end=p)
                exp = canvas[y1 - p:y1, x0:x1]
            elif kind == "serial_front_from_end_past_parent":
                mon = "sub.serial_front_from_end"
                ok, s = ctx.guarded(mon, R.serial_front_region_from, pixels_from_end=p)
                exp = canvas[y0:y1, x1 - p:x1]
            elif kind == "parallel_trailing":
                ok, s = ctx.guarded(mon, R.parallel_trailing_region_from, pixels=p)
                exp = below[p[0]:p[1], :]
            elif kind == "serial_trailing":
                ok, s = ctx.guarded(mon, R.serial_trailing_region_from, pixels=p)
                exp = right[:, p[0]:p[1]]
            elif kind.endswith("_empty"):
                # zero or negative requested extent => an empty region, which must be rejected
                front = R.parallel_front_region_from if kind.startswith("parallel") else R.serial_front_region_from
                trail = R.parallel_trailing_region_from if kind.startswith("parallel") else R.serial_trailing_region_from
                if p == 0:
                    calls = [("front_from_end", lambda: front(pixels_from_end=0))]
                else:
                    calls = [("front", lambda: front(pixels=p)), ("trailing", lambda: trail(pixels=p))]
                for nm, fn in calls:
                    rej, what = rejected(fn)
                    ctx.check(rej, "sub.empty_rejected", shape=(H, W), region=r, call=kind + ":" + nm, pixels=p,
                              returned=lambda: as_tuple(what))
                    if rej:
                        ctx.classes["rejected_by:" + what] += 1
                ctx.case("sub", H, W, r, kind, p, cls=["sub_empty_request"], sample=None)
                continue
            else:  # full regions: the parent's rows over all columns / the parent's front columns over all rows
                good = True
                ok, s = ctx.guarded("sub.full_regions", R.parallel_full_region_from, shape_2d=(H, W))
                good = good and ok and same(s, canvas[y0:y1, 0:W])
                for p0 in range(cols):
                    for p1 in range(p0 + 1, cols + 1):
                        ok, s = ctx.guarded("sub.full_regions", R.serial_towards_roe_full_region_from, shape_2d=(H, W), pixels=(p0, p1))
                        good = good and ok and same(s, canvas[0:H, x0 + p0:x0 + p1])
                        ok, xr = ctx.guarded("sub.full_regions", R.serial_x_front_range_from, pixels=(p0, p1))
                        good = good and ok and tuple(int(v) for v in xr) == (x0 + p0, x0 + p1)
                good = good and (int(R.total_rows), int(R.total_columns)) == parent.shape and tuple(R.shape) == parent.shape \
                    and np.array_equal(canvas[R.slice], parent) and np.array_equal(canvas[R.y_slice, R.x_slice], parent)
                ctx.check(good, "sub.full_regions", shape=(H, W), region=r)
                ctx.case("sub", H, W, r, kind, cls=["sub_full"], sample=None)
                continue
            if ok:
                ctx.check(same(s, exp), mon, shape=(H, W), region=r, pixels=p, expected_content=exp, got_region=as_tuple(s),
                          got_content=lambda: content(s))
            whole_parent = (kind.endswith("_front") and p == (0, rows if kind.startswith("parallel") else cols)) or \
                           (kind.endswith("from_end") and p == (rows if kind.startswith("parallel") else cols))
            ctx.case("sub", H, W, r, kind, p, nontrivial=not whole_parent, cls=["sub_" + kind] + rcls,
                     sample=lambda: {"kind": kind, "shape": [H, W], "region": list(r), "pixels": p,
                                     "expected_content": exp.tolist(), "got_region": list(as_tuple(s)) if ok else None})


# ------------------------------------------------------------------------------ validity
def run_valid(ctx, u):
    aa = ctx.aa
    B = u["B"]
    vals = list(range(-1, B + 2))
    canvas = ids(B + 1, B + 1)
    line = canvas[0]
    for y0 in vals:
        for y1 in vals:
            for x0 in vals:
                for x1 in vals:
                    t = (y0, y1, x0, x1)
                    if not ctx.begin("valid2d:%s" % (t,)):
                        continue
                    valid = min(t) >= 0 and y0 < y1 and x0 < x1
                    rej, what = rejected(lambda: aa.Region2D(region=t))
                    if valid:
                        ctx.check((not rej) and as_tuple(what) == t and (what.y0, what.y1, what.x0, what.x1) == t
                                  and np.array_equal(canvas[what.slice], canvas[y0:y1, x0:x1]) and what == t,
                                  "valid.region2d.accept", region=t, outcome=repr(what))
                    else:
                        ctx.check(rej, "valid.region2d.reject", region=t, outcome=repr(what))
                        if rej:
                            ctx.classes["rejected_by:" + what] += 1
                        # the same tuple handed to the rotation utility: an empty extent stays empty under every mirror, a
                        # negative coordinate stays negative for the corner that does not move anything
                        empty = y0 >= y1 or x0 >= x1
                        for c in CORNERS:
                            if empty or c == (1, 0):
                                rj, wh = rejected(lambda: ctx.lu.rotate_region_via_roe_corner_from(
                                    region=t, shape_native=(B + 1, B + 1), roe_corner=c))
                                ctx.check(rj, "valid.rotate_rejects_invalid", region=t, corner=c, outcome=repr(wh))
                    why = "valid" if valid else ("negative" if min(t) < 0 else ("empty_rows" if y0 >= y1 else "empty_cols"))
                    ctx.case("valid2d", t, cls=["tuple_" + why], sample=lambda: {"kind": "validity", "region": list(t), "valid": valid})
    # coordinates between -1 and 0 (a half-pixel offset such as -0.5, -0.25) are negative coordinates too
    if ctx.begin("valid:fractional_negative"):
        for frac in (-0.5, -0.25, -0.999, -1e-9):
            for pos in range(4):
                t = [0.0, float(B), 0.0, float(B)]
                t[pos] = frac
                if pos in (1, 3):
                    t[pos - 1] = frac - 0.0     # keep the extent non-empty: lower bound equal, upper bound positive
                    t[pos] = float(B)
                    t[pos - 1] = frac
                rej, what = rejected(lambda: aa.Region2D(region=tuple(t)))
                ctx.check(rej, "valid.region2d.reject", region=tuple(t), outcome=repr(what), why="a coordinate in (-1, 0) is negative")
            rej, what = rejected(lambda: aa.Region1D(region=(frac, float(B))))
            ctx.check(rej, "valid.region1d.reject", region=(frac, float(B)), outcome=repr(what), why="a coordinate in (-1, 0) is negative")
        ctx.case("valid", "fractional_negative", cls=["tuple_fractional_negative"], sample=None)
    for x0 in vals:
        for x1 in vals:
            t = (x0, x1)
            if not ctx.begin("valid1d:%s" % (t,)):
                continue
            valid = min(t) >= 0 and x0 < x1
            rej, what = rejected(lambda: aa.Region1D(region=t))
            if valid:
                ctx.check((not rej) and as_tuple(what) == t and (what.x0, what.x1) == t
                          and np.array_equal(line[what.slice], line[x0:x1]) and what == t,
                          "valid.region1d.accept", region=t, outcome=repr(what))
            else:
                ctx.check(rej, "valid.region1d.reject", region=t, outcome=repr(what))
            ctx.case("valid1d", t, cls=["tuple1d_" + ("valid" if valid else "invalid")], sample=None)


# ------------------------------------------------------------------------------ 1-D regions and Layout1D
def run_r1d(ctx, u):
    aa = ctx.aa
    L = u["L"]
    PAD = 2
    line = np.arange(1, L + PAD + 1, dtype=float) * 3.0 + 0.5
    arr = aa.Array1D.no_mask(values=line[:L].copy(), pixel_scales=0.7)

    def same(reg, expected):
        g = as_tuple(reg)
        return g is not None and 0 <= g[0] < g[1] <= L + PAD and np.array_equal(line[reg.slice], expected) \
            and np.array_equal(line[reg.x_slice], expected)

    for x0 in range(L):
        for x1 in range(x0 + 1, L + 1):
            r = (x0, x1)
            if not ctx.begin("r1d:%d:%s" % (L, r)):
                continue
            R = aa.Region1D(region=r)
            size = x1 - x0
            parent = line[x0:x1]
            after = line[x1:]
            ctx.check(same(R, parent) and int(R.total_pixels) == size, "r1d.slice", L=L, region=r)
            for p0 in range(size):
                for p1 in range(p0 + 1, size + 1):
                    ok, s = ctx.guarded("r1d.front", R.front_region_from, pixels=(p0, p1))
                    if ok:
                        ctx.check(same(s, parent[p0:p1]), "r1d.front", L=L, region=r, pixels=(p0, p1), got=as_tuple(s))
            for k in range(1, size + 1):
                ok, s = ctx.guarded("r1d.front_from_end", R.front_region_from, pixels_from_end=k)
                if ok:
                    ctx.check(same(s, parent[size - k:]), "r1d.front_from_end", L=L, region=r, pixels_from_end=k, got=as_tuple(s))
            for k in range(size + 1, min(size + PAD, x1) + 1):
                ok, s = ctx.guarded("r1d.front_from_end", R.front_region_from, pixels_from_end=k)
                if ok:
                    ctx.check(same(s, line[x1 - k:x1]), "r1d.front_from_end", L=L, region=r, pixels_from_end=k, got=as_tuple(s))
            room = L - x1 + 1
            for p0 in range(room):
                for p1 in range(p0 + 1, room + 1):
                    ok, s = ctx.guarded("r1d.trailing", R.trailing_region_from, pixels=(p0, p1))
                    if ok:
                        ctx.check(same(s, after[p0:p1]), "r1d.trailing", L=L, region=r, pixels=(p0, p1), got=as_tuple(s))
            for p in range(size + 1):
                for nm, fn in (("front", lambda: R.front_region_from(pixels=(p, p))), ("trailing", lambda: R.trailing_region_from(pixels=(p, p)))):
                    rej, what = rejected(fn)
                    ctx.check(rej, "sub.empty_rejected", L=L, region=r, call="1d:" + nm, pixels=(p, p), returned=lambda: as_tuple(what))
            rej, what = rejected(lambda: R.front_region_from(pixels_from_end=0))
            ctx.check(rej, "sub.empty_rejected", L=L, region=r, call="1d:front_from_end", pixels=0, returned=lambda: as_tuple(what))
            # masked 1-D arrays, stored slim (the default) or native: the region counts native pixels, so every unmasked pixel of the
            # region arrives in place with its value (what masked pixels carry is not claimed)
            for mk_i, m1 in enumerate((np.arange(L) % 3 == 1, np.arange(L) % 2 == 0)):
                if m1.all() or not m1.any():
                    continue
                for sn in (False, True):
                    am = aa.Array1D(values=line[:L].copy(), mask=aa.Mask1D(mask=m1.copy(), pixel_scales=(0.7,)), store_native=sn)
                    lay = aa.Layout1D(shape_1d=(L,), prescan=(0, 1), overscan=r)
                    ok, ex = ctx.guarded("layout1d.extract_overscan", lay.extract_overscan_array_1d_from, array=am)
                    if ok:
                        got = native_of(ex)
                        keep = ~m1[x0:x1]
                        ctx.check(got.shape == parent.shape and np.array_equal(got[keep], parent[keep]), "layout1d.extract_overscan", L=L, region=r,
                                  mask_1d=m1, stored_native=sn, expected_at_unmasked=parent[keep], got=got)
            # Layout1D: tuples become Region1D, the overscan extraction returns the labelled cells of the region
            for form in ("tuple", "Region1D"):
                lay = aa.Layout1D(shape_1d=(L,), prescan=(0, 1), overscan=(r if form == "tuple" else aa.Region1D(region=r)))
                ok, ex = ctx.guarded("layout1d.extract_overscan", lay.extract_overscan_array_1d_from, array=arr)
                if ok:
                    ctx.check(np.array_equal(native_of(ex), parent) and as_tuple(lay.overscan) == r, "layout1d.extract_overscan",
                              L=L, region=r, form=form, expected=parent, got=lambda: native_of(ex))
            ctx.case("r1d", L, r, nontrivial=(r != (0, L)), cls=["region_1d"],
                     sample=lambda: {"kind": "1-D region", "length": L, "region": list(r), "content": parent.tolist()})


def run_unit(ctx, u):
    {"rot": run_rot, "ext": run_ext, "sub": run_sub, "valid": run_valid, "r1d": run_r1d}[u["kind"]](ctx, u)
