from common import *
rng=np.random.default_rng(1)
# 1D
m=np.array([True,False,False,True,False])
mask=aa.Mask1D(mask=m,pixel_scales=(1.0,))
v=np.array([1.,2.,3.,4.,5.])
a=aa.Array1D(values=v,mask=mask,store_native=True)
print('1D native stored:',a.native.array, 'slim', a.slim.array)
a=aa.Array1D(values=v,mask=mask)
print('1D slim stored from native input:',a.array, a.native.array)
a=aa.Array1D(values=np.array([2.,3.,5.]),mask=mask)
print('1D slim in:',a.array, a.native.array)
g=aa.Grid1D(values=v,mask=mask,store_native=True); print('G1D', g.native.array, g.slim.array)
# 2D
bad=0
for t in range(300):
    H,W=rng.integers(1,6),rng.integers(1,6)
    m=rmask(rng,H,W)
    mask=aa.Mask2D(mask=m,pixel_scales=(1.0,2.0))
    nat=rng.normal(size=(H,W))
    exp_slim=nat[~m]
    exp_nat=np.where(m,0,nat)
    for sn in (False,True):
        for inp in (nat.copy(), exp_slim.copy()):
            A=aa.Array2D(values=inp,mask=mask,store_native=sn)
            if not (np.array_equal(A.slim.array,exp_slim) and np.array_equal(A.native.array,exp_nat)): bad+=1; print('bad',H,W,sn,inp.shape)
print('2D bad',bad)
