"""
Recording contracts on the *real* functions of the tree under test (icontract).

`attach(ctx, owner, name, post, snap=None)` replaces `owner.name` (module attribute or class
attribute) by `icontract.snapshot(...)(icontract.ensure(...)(original))`. The repository calls its
utilities as `module.func(...)`, so calls made internally anywhere in a workload go through the
contract. Conditions are *named functions* with an explicit `error=` (a lambda in call form would
surface the first violation as a SyntaxError - sandbox note) and take icontract's `_ARGS/_KWARGS`,
which are normalised with the original signature.

A post-condition `post(ctx, args: dict, result, old)` returns
    True  - held                      -> counted as an evaluation
    None  - arguments outside the contract's stated domain (mocks, lists, ...) -> counted as skipped
    (False, witness_dict) - violated  -> ctx.fire(...)
An exception raised *by the condition itself* is 'skipped (out of domain)', never a violation.
Contracts record and return True, so the workload continues; `ctx.raising` (replay) raises.
Every contract counts its evaluations: zero evaluations of a deciding contract => inconclusive.
"""
import functools
import inspect

import icontract


class PostBroken(Exception):
    pass


_installed = []


def attach(ctx, owner, name, post, snap=None, label=None):
    if not hasattr(owner, name):
        ctx.inconclusive.append("contract target %s.%s does not exist" % (getattr(owner, "__name__", owner), name))
        return None
    raw = owner.__dict__.get(name) if isinstance(owner, type) else None
    orig = getattr(owner, name)
    is_static = isinstance(raw, staticmethod)
    is_class = isinstance(raw, classmethod)
    if is_static or is_class:
        orig = raw.__func__
    label = label or "contract:%s.%s" % (getattr(owner, "__name__", str(owner)).split(".")[-1], name)
    try:
        sig = inspect.signature(orig)
    except (TypeError, ValueError):
        sig = None

    def bind(_ARGS, _KWARGS):
        if sig is None:
            return {"_args": _ARGS, **_KWARGS}
        b = sig.bind(*_ARGS, **_KWARGS)
        b.apply_defaults()
        return dict(b.arguments)

    def take_snapshot(_ARGS, _KWARGS):
        if snap is None:
            return None
        try:
            return snap(bind(_ARGS, _KWARGS))
        except Exception:
            return _SnapFailed

    def postcondition(_ARGS, _KWARGS, result, OLD):
        try:
            if OLD.verif_old is _SnapFailed:
                ctx.skipped[label + ":out_of_domain"] += 1
                return True
            verdict = post(ctx, bind(_ARGS, _KWARGS), result, OLD.verif_old)
        except Exception as e:  # the oracle could not be evaluated on these arguments
            ctx.skipped[label + ":out_of_domain"] += 1
            return True
        if verdict is None:
            ctx.skipped[label + ":out_of_domain"] += 1
            return True
        if verdict is True:
            ctx.monitors[label] += 1
            return True
        ok, witness = verdict if isinstance(verdict, tuple) else (bool(verdict), {})
        ctx.monitors[label] += 1
        if not ok:
            ctx.fire(label, **witness)
        return True

    wrapped = icontract.snapshot(take_snapshot, name="verif_old")(
        icontract.ensure(postcondition, error=PostBroken)(orig))
    functools.update_wrapper(wrapped, orig)
    wrapped.__verif_original__ = orig
    if is_static:
        setattr(owner, name, staticmethod(wrapped))
    elif is_class:
        setattr(owner, name, classmethod(wrapped))
    else:
        setattr(owner, name, wrapped)
    _installed.append((owner, name, raw if raw is not None else orig))
    ctx.monitors.setdefault(label, 0)
    return label


class _SnapFailedType:
    pass


_SnapFailed = _SnapFailedType()


def detach_all():
    while _installed:
        owner, name, orig = _installed.pop()
        setattr(owner, name, orig)
