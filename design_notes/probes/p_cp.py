from common import *
import logging; logging.disable(logging.CRITICAL)
import hashlib
from autoconf.tools import decorators as dec
CP=dec.CachedProperty
events=[]; computed={}
def fp(v):
    try:
        a=np.asarray(v.array if hasattr(v,'array') and not isinstance(v,np.ndarray) else v)
        if a.dtype!=object: return hashlib.sha1(a.tobytes()+str(a.shape).encode()).hexdigest()[:12]
    except Exception: pass
    return 'obj:'+type(v).__name__
def get(self,obj,cls):
    if obj is None: return self
    name=self.func.__name__; d=obj.__dict__
    if name not in d:
        d[name]=self.func(obj); computed[(id(obj),name)]=fp(d[name]); events.append((type(obj).__name__,name,'compute',computed[(id(obj),name)]))
    else:
        kind='hit' if (id(obj),name) in computed else 'inherited'
        events.append((type(obj).__name__,name,kind,fp(d[name]),computed.get((id(obj),name))))
    return d[name]
def set_(self,obj,value): obj.__dict__[self.func.__name__]=value
def del_(self,obj): del obj.__dict__[self.func.__name__]
CP.__get__=get; CP.__set__=set_; CP.__delete__=del_
g=aa.Grid2D.uniform(shape_native=(3,3),pixel_scales=1.0); g.is_uniform; h=g*g; h.is_uniform; g.is_uniform
from p04 import build
ds,mapper=build(9,9,(3,3),False,seed=1)
inv=aa.Inversion(dataset=ds,linear_obj_list=[mapper],settings=aa.SettingsInversion(use_w_tilde=False,use_positive_only_solver=False))
inv.curvature_matrix; inv.curvature_reg_matrix; inv.curvature_matrix; inv.reconstruction
mv=aa.MapperValued(mapper=mapper,values=np.ones(mapper.params),mesh_pixel_mask=np.arange(mapper.params)<2)
mapper.mapping_matrix; mv.mapped_reconstructed_image_from(); mapper.mapping_matrix
for e in events:
    if e[2]!='compute' and (e[2]=='inherited' or e[3]!=e[4]): print('SUSPECT',e)
print(len(events),'events')
