"""
File-system audit trail (C16): a `sys.addaudithook` recorder plus the trace checker over its log.

An audit hook cannot be removed once added, so exactly one hook is installed per process and it is a
*switchable recorder*: it does nothing unless a log is active (`with audit.recording() as log:`).
While a log is active every

    open            (only opens that can modify the file system: O_WRONLY / O_RDWR / O_CREAT / O_TRUNC /
                     O_APPEND in the flags, or a w/a/x/+ mode string when the flags are absent)
    os.remove       (also raised by os.unlink)
    os.mkdir        (os.makedirs raises one per created level)
    os.rename       (also raised by os.replace; source and destination are both recorded)
    os.rmdir, os.truncate, os.link, os.symlink, shutil.copyfile / move / rmtree

is appended as an `Event(kind, path, path2, flags, mode, seq)` with the path made absolute against the
working directory *at the time of the event* and symlinks resolved (`os.path.realpath`), so a bare file
name written while the cwd is the scratch directory is attributed to the scratch directory.
Read-only opens (imports, fits.open for reading) are not recorded but counted (`log.reads`).

The trace checker (`check_write_trace`, `check_refused_trace`, `check_readonly_trace`) decides one
recorded operation; it returns a list of (rule, ok, witness) so that the property module can feed each
rule through `ctx.check`. `self_test()` proves in the running process that the hook delivers events
(a dead hook must turn the run INCONCLUSIVE, never 'held').
"""
import collections
import contextlib
import os
import sys

Event = collections.namedtuple("Event", "kind path path2 flags mode seq")

_WRITE_FLAGS = os.O_WRONLY | os.O_RDWR | os.O_CREAT | os.O_TRUNC | os.O_APPEND
_KINDS = {"os.remove": "remove", "os.mkdir": "mkdir", "os.rename": "rename", "os.rmdir": "rmdir",
          "os.truncate": "truncate", "os.link": "link", "os.symlink": "symlink",
          "shutil.copyfile": "copyfile", "shutil.move": "move", "shutil.rmtree": "rmtree"}

_state = {"installed": False, "log": None}


class Log:
    def __init__(self):
        self.events = []
        self.reads = 0
        self.unresolved = 0

    def kinds(self):
        return collections.Counter(e.kind for e in self.events)

    def as_list(self):
        return [[e.kind, e.path, e.path2, e.flags, e.mode] for e in self.events]


def _abs(p):
    """Absolute, symlink-free form of a path argument of an audit event (None for fds / unknowns)."""
    if isinstance(p, int) or p is None:
        return None
    try:
        p = os.fspath(p)
        if isinstance(p, bytes):
            p = os.fsdecode(p)
        return os.path.realpath(os.path.join(os.getcwd(), p))
    except Exception:
        return None


def _is_write_open(mode, flags):
    if isinstance(flags, int):
        return bool(flags & _WRITE_FLAGS)
    if isinstance(mode, str):
        return any(c in mode for c in "wax+")
    return False


def _hook(event, args):
    log = _state["log"]
    if log is None:
        return
    try:
        if event == "open":
            path, mode, flags = (tuple(args) + (None, None, None))[:3]
            if not _is_write_open(mode, flags):
                log.reads += 1
                return
            ap = _abs(path)
            if ap is None:
                log.unresolved += 1
            log.events.append(Event("open_write", ap, None, flags if isinstance(flags, int) else None,
                                    mode if isinstance(mode, str) else None, len(log.events)))
        elif event in _KINDS:
            kind = _KINDS[event]
            a = tuple(args)
            p1 = _abs(a[0]) if a else None
            p2 = _abs(a[1]) if kind in ("rename", "link", "symlink", "copyfile", "move") and len(a) > 1 else None
            if p1 is None:
                log.unresolved += 1
            log.events.append(Event(kind, p1, p2, None, None, len(log.events)))
    except Exception:  # a recorder must never disturb the program it watches
        log.unresolved += 1


def install():
    if not _state["installed"]:
        sys.addaudithook(_hook)
        _state["installed"] = True


@contextlib.contextmanager
def recording():
    """Switch the recorder on for the body; nested recordings are not supported (the inner one wins)."""
    install()
    prev = _state["log"]
    log = Log()
    _state["log"] = log
    try:
        yield log
    finally:
        _state["log"] = prev


def self_test(directory):
    """Drive every required event kind inside `directory`; returns (ok, detail)."""
    d = os.path.realpath(directory)
    sub = os.path.join(d, "audit_selftest_dir")
    f = os.path.join(sub, "f.bin")
    g = os.path.join(sub, "g.bin")
    with recording() as log:
        os.makedirs(sub)
        with open(f, "wb") as fh:
            fh.write(b"x")
        with open(f, "rb") as fh:
            fh.read()
        os.rename(f, g)
        os.remove(g)
        os.rmdir(sub)
    got = [(e.kind, e.path, e.path2) for e in log.events]
    want = [("mkdir", sub, None), ("open_write", f, None), ("rename", f, g), ("remove", g, None), ("rmdir", sub, None)]
    with open(os.devnull, "wb"):   # recorder off again: this open must not reach the finished log
        pass
    ok = got == want and log.reads >= 1 and len(log.events) == len(want) and _state["log"] is None
    return ok, {"got": got, "want": want, "reads": log.reads}


# ------------------------------------------------------------------------------------ trace checker
def inside(path, root):
    root = os.path.realpath(root)
    return path is not None and (path == root or path.startswith(root + os.sep))


def rule_confined(log, root):
    """No write-open / remove / mkdir / rename / ... outside the scratch directory."""
    bad = [e for e in log.events if not inside(e.path, root) or (e.path2 is not None and not inside(e.path2, root))]
    return ("confined_to_scratch", not bad and log.unresolved == 0,
            {"root": os.path.realpath(root), "offending": [list(e) for e in bad[:5]], "unresolved": log.unresolved})


def check_write_trace(log, root, target, existed, overwrite, missing_dirs):
    """
    Decide the log of one *successful* write of `target` (absolute real path). `rule_confined` is separate: it
    applies to every recorded operation, successful or not.

    existed       the target existed before the call (then overwrite must have been requested)
    missing_dirs  ancestor directories of the target that did not exist before the call, parent first
    Returns [(rule, ok, witness)], rule 'saw_write' is a *reach* rule: False means the recorder did not
    see the write at all (dead hook / bypassed monitor), which must never be reported as 'held'.
    """
    out = []
    ev = log.events
    writes = [e for e in ev if e.kind == "open_write" and e.path == target]
    arrivals = [e for e in ev if e.kind in ("rename", "move", "copyfile", "link") and e.path2 == target]
    first = min([e.seq for e in writes + arrivals], default=None)
    out.append(("saw_write", first is not None, {"target": target, "events": log.as_list()[:12]}))
    if first is None:
        return out
    if existed:
        removed = [e for e in ev if e.seq < first and ((e.kind == "remove" and e.path == target) or
                                                       (e.kind in ("rename", "move") and e.path == target))]
        w0 = [e for e in writes if e.seq == first]
        trunc = bool(w0) and w0[0].flags is not None and bool(w0[0].flags & os.O_TRUNC) and not (w0[0].flags & os.O_APPEND)
        replaced = bool(arrivals) and min(e.seq for e in arrivals) == first and any(e.kind in ("rename", "move") for e in arrivals)
        appended = [e for e in writes if e.flags is not None and (e.flags & os.O_APPEND) and not removed]
        out.append(("remove_precedes_write", bool(removed or trunc or replaced) and not appended,
                    {"target": target, "overwrite": overwrite, "events": log.as_list()[:12]}))
    if missing_dirs:
        pos = {}
        for e in ev:
            if e.kind == "mkdir" and e.path not in pos:
                pos[e.path] = e.seq
        order = [pos.get(d) for d in missing_dirs]
        ok = all(p is not None and p < first for p in order) and order == sorted(order)
        out.append(("mkdir_for_missing_dirs", ok, {"missing_dirs": missing_dirs, "mkdir_seq": order,
                                                   "events": log.as_list()[:12]}))
    else:
        # nothing was missing: creating (or trying to create) directories elsewhere is covered by 'confined'
        pass
    return out


def check_refused_trace(log, root, target):
    """A write that had to be refused (target exists, overwrite not requested) must not touch the target."""
    touched = [e for e in log.events if e.path == target or e.path2 == target]
    return [("refused_write_untouched", not touched, {"target": target, "events": [list(e) for e in touched[:6]]})]


def check_readonly_trace(log):
    """Reading a .fits file / HDU must not modify the file system at all."""
    return [("read_is_readonly", not log.events and log.unresolved == 0, {"events": log.as_list()[:8]})]
