"""Seeded generators of autoarray objects (datasets, source-plane grids, meshes, mappers, linear objects)."""
import numpy as np

from harness import gen

_cache = {}


def func_list_class(aa):
    """Harness subclass of AbstractLinearObjFuncList with an explicit (random) mapping matrix."""
    if "Func" not in _cache:
        class VerifFuncList(aa.AbstractLinearObjFuncList):
            def __init__(self, grid, M, regularization=None, override=None):
                super().__init__(grid=grid, regularization=regularization)
                self._M = M
                self._override = override

            @property
            def operated_mapping_matrix_override(self):
                # a linear object may supply its PSF-operated matrix itself; here it is the correctly blurred matrix, so that the
                # object describes the same linear model with and without the override
                return self._override

            @property
            def params(self):
                return self._M.shape[1]

            @property
            def mapping_matrix(self):
                return self._M

        _cache["Func"] = VerifFuncList
    return _cache["Func"]


def inversion_mask(rng, ky, kx, max_unmasked=40, min_unmasked=4):
    """Mask whose kernel footprint stays in the frame; 4..max_unmasked unmasked pixels."""
    hy, hx = ky // 2, kx // 2
    for _ in range(50):
        ih, iw = int(rng.integers(2, 8)), int(rng.integers(2, 8))
        inner, fam = gen.random_mask(rng, ih, iw, family=str(rng.choice(
            ["bernoulli", "dense", "holes", "components", "bridge", "all_unmasked", "checker"])))
        n = int((~inner).sum())
        if min_unmasked <= n <= max_unmasked:
            break
    else:
        inner = np.zeros((3, 3), bool)
        ih, iw, fam = 3, 3, "all_unmasked"
    H, W = ih + 2 * hy, iw + 2 * hx
    pad = int(rng.random() < 0.3)
    m = np.ones((H + pad, W + 2 * pad), bool)
    m[hy:hy + ih, hx:hx + iw] = inner
    return m, fam


def imaging_case(aa, rng, kshapes=(1, 3, 5), kernel_kind=None, data_kind=None, sub_max=2, max_unmasked=36,
                 use_normalized_psf=None, over_sampling=True, noise_scale_range=(1e-3, 1e4), noise_covariance=False):
    ky, kx = int(rng.choice(kshapes)), int(rng.choice(kshapes))
    m, fam = inversion_mask(rng, ky, kx, max_unmasked=max_unmasked)
    ps, origin = gen.mild_scales_origin(rng)
    mask = aa.Mask2D(mask=m.copy(), pixel_scales=ps, origin=origin)
    k, kind = gen.kernel(rng, ky, kx, kind=kernel_kind)
    if use_normalized_psf is None:
        use_normalized_psf = bool(rng.random() < 0.3) and abs(k.sum()) > 0.3
    psf = aa.Kernel2D.no_mask(values=k.copy(), pixel_scales=ps)
    data_kind = data_kind or str(rng.choice(["positive", "zero_mean", "negative", "signed_large"]))
    H, W = m.shape
    if data_kind == "positive":
        d = rng.random((H, W)) * 3 + 0.2
    elif data_kind == "zero_mean":
        d = rng.normal(size=(H, W))
    elif data_kind == "negative":
        d = -rng.random((H, W)) * 2 - 0.1
    else:
        d = rng.normal(size=(H, W)) * 30
    # noise level spans raw-count to normalised units: absolute thresholds on noise-weighted terms become visible
    noise_scale = float(np.exp(rng.uniform(np.log(noise_scale_range[0]), np.log(noise_scale_range[1])))) if rng.random() < 0.4 else 1.0
    noise = rng.uniform(0.3, 3.0, size=(H, W)) * noise_scale
    if rng.random() < 0.12:
        # background-limited data: the noise map is uniform to a few parts per million (but not exactly)
        noise = float(rng.uniform(0.3, 3.0)) * (1.0 + 8e-6 * rng.random((H, W))) * noise_scale
    d = d * (noise_scale if rng.random() < 0.7 else 1.0)
    data = aa.Array2D(values=d.copy(), mask=mask)
    noise_map = aa.Array2D(values=noise.copy(), mask=mask)
    sub = int(rng.integers(1, sub_max + 1))
    sub_arg = sub
    kw = {}
    if over_sampling:
        if rng.random() < 0.35:
            # adaptive over sampling of the pixelization grid: one sub-size per image pixel (slim order)
            sub = rng.integers(1, sub_max + 2, size=int((~m).sum())).astype(int)
            # ... held in the platform integer or in a compact integer type (the harness keeps its own int64 copy in case["sub"])
            sdt = [np.int64, np.int64, np.int8, np.uint8, np.int16][int(np.sum(sub) + len(sub)) % 5]
            sub_arg = aa.Array2D(values=sub.astype(sdt), mask=mask)
        kw["over_sampling"] = aa.OverSamplingDataset(pixelization=aa.OverSamplingUniform(sub_size=sub_arg))
    cov = None
    n_un = int((~m).sum())
    if noise_covariance and (int(np.sum(sub)) + int(m.sum())) % 7 == 0 and n_un >= 2:
        # the dataset also carries a full noise covariance matrix whose diagonal is the noise map squared (correlated neighbours in
        # slim order); the inversion's N is the diagonal one whichever formalism runs. Drawn from its own stream (the shared one is
        # left as it was)
        r2 = np.random.default_rng([n_un, int(m.sum()), 4])
        sig = noise[~m]
        R = np.eye(n_un)
        rho = float(r2.uniform(0.2, 0.45))
        R[np.arange(n_un - 1), np.arange(1, n_un)] = rho
        R[np.arange(1, n_un), np.arange(n_un - 1)] = rho
        cov = sig[:, None] * R * sig[None, :]
        kw["noise_covariance_matrix"] = cov
    ds = aa.Imaging(data=data, noise_map=noise_map, psf=psf, use_normalized_psf=use_normalized_psf, **kw)
    k_used = k / k.sum() if use_normalized_psf else k
    return {"noise_covariance_matrix": cov, "ds": ds, "mask": mask, "m": m, "k": k, "k_used": k_used, "kernel_kind": kind, "mask_family": fam, "d": d, "noise": noise,
            "sub": sub, "sub_arg": sub_arg, "ps": ps, "origin": origin, "data_kind": data_kind, "normalized": use_normalized_psf, "noise_scale": noise_scale}


def distort(rng, g, strength=0.25):
    """Smooth source-plane distortion of an (n,2) grid + jitter."""
    kind = str(rng.choice(["shear", "sin", "radial", "mixed"]))
    g = np.asarray(g, float)
    c = g.mean(0)
    x = g - c
    out = g.copy()
    if kind in ("shear", "mixed"):
        A = np.eye(2) + strength * rng.normal(size=(2, 2))
        out = c + x @ A.T
    if kind in ("sin", "mixed"):
        out = out + strength * np.sin(2.0 * g[:, ::-1] + rng.uniform(0, 6))
    if kind == "radial":
        r = np.hypot(x[:, 0], x[:, 1])[:, None]
        out = c + x * (1.0 + strength * np.tanh(r))
    out = out + 0.03 * rng.normal(size=g.shape)
    return out, kind


def delaunay_vertices(rng, lo, hi, n, spread=1.0):
    """n vertices in general position inside (a scaled copy of) the box, minimum separation enforced."""
    ext = hi - lo
    c = (lo + hi) / 2
    sep = 0.12 * float(np.min(ext)) * spread / np.sqrt(n)
    pts = []
    tries = 0
    while len(pts) < n and tries < 5000:
        tries += 1
        p = c + (rng.random(2) - 0.5) * ext * spread
        if all(np.hypot(*(p - q)) > sep for q in pts):
            pts.append(p)
    return np.array(pts)


def mapper(aa, rng, mask, over_sampler, kind, reg, grid_sub=None, o=0, border_relocator=None, adapt_data=None):
    g = np.asarray(over_sampler.over_sampled_grid.array) if grid_sub is None else grid_sub
    src, dk = distort(rng, g)
    srcg = aa.Grid2DIrregular(values=src)
    if kind == "rect":
        shape = (int(rng.integers(3, 6)), int(rng.integers(3, 7)))
        mesh = aa.Mesh2DRectangular.overlay_grid(shape_native=shape, grid=srcg)
    else:
        lo, hi = src.min(0), src.max(0)
        nv = int(rng.integers(6, 15))
        v = delaunay_vertices(rng, lo, hi, nv, spread=float(rng.uniform(0.6, 1.15)))
        mesh = aa.Mesh2DDelaunay(values=v)
    mg = aa.MapperGrids(mask=mask, source_plane_data_grid=srcg, source_plane_mesh_grid=mesh, adapt_data=adapt_data)
    mp = aa.Mapper(mapper_grids=mg, over_sampler=over_sampler, regularization=reg, border_relocator=border_relocator)
    return mp, {"kind": kind, "distortion": dk}


def linear_objects(aa, rng, case, nobj=None, kinds=("rect", "del", "func"), allow_unregularized=True, reg_factory=None, overrides=False):
    ds = case["ds"]
    mask = case["mask"]
    n = int((~case["m"]).sum())
    osamp = ds.grids.pixelization.over_sampler
    Func = func_list_class(aa)
    nobj = nobj or int(rng.integers(1, 4))
    objs, desc = [], []
    for o in range(nobj):
        kind = str(rng.choice(list(kinds)))
        unreg = allow_unregularized and rng.random() < 0.25
        if kind == "func":
            p = int(rng.integers(1, 3))
            M, mk = gen.mapping_matrix(rng, n, p, kind=str(rng.choice(["fractional", "signed", "tiny", "signed_sparse", "cancelling"])))
            if not np.all(np.abs(M).sum(0) > 0):
                M[0, :] += 1.0
            reg = None if unreg else aa.reg.Zeroth(coefficient=float(rng.uniform(0.2, 2)))
            override = None
            ovk = False
            if overrides and rng.random() < 0.4:
                override = np.asarray(ds.convolver.convolve_mapping_matrix(mapping_matrix=M.copy()), float)
                ovk = "as_blurred"
                if rng.random() < 0.5:
                    # the documented purpose of the hook: light that the PSF blurs into the mask from outside it - the operated
                    # columns are then NOT the blurred mapping matrix; the object's columns of B are the override itself
                    override = override + 0.3 * rng.normal(size=override.shape) * (rng.random(override.shape) < 0.5)
                    ovk = "with_light_from_outside_the_mask"
            objs.append(Func(grid=ds.grids.uniform, M=M, regularization=reg, override=override))
            desc.append({"kind": "func", "matrix": mk, "params": p, "regularized": reg is not None, "operated_override": ovk})
            continue
        if unreg:
            reg = None
        elif reg_factory is not None:
            reg = reg_factory(rng)
        else:
            reg = aa.reg.Constant(coefficient=float(rng.uniform(0.1, 2.0)))
        mp, d = mapper(aa, rng, mask, osamp, kind, reg, o=o)
        objs.append(mp)
        d.update({"params": int(mp.params), "regularized": reg is not None})
        desc.append(d)
    return objs, desc


def reference_B(case, objs):
    """B = C_ref . hstack(M_obj): independent convolution matrix times the objects' own mapping matrices."""
    from harness import ref
    C = ref.conv_matrix(case["m"], case["k_used"])
    cols = []
    for o in objs:
        ov = getattr(o, "operated_mapping_matrix_override", None)
        cols.append(np.asarray(ov, float) if ov is not None else C @ np.asarray(o.mapping_matrix, float))
    return np.hstack(cols), C
