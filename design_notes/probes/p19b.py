from common import *
bad={}
def flag(k,info=None):
    bad.setdefault(k,[0,None]); bad[k][0]+=1
    if bad[k][1] is None: bad[k][1]=info
n=0
# validity
for H in range(1,5):
    for t in np.ndindex(6,6,6,6):
        r=tuple(int(v)-1 for v in t)
        valid = min(r)>=0 and r[0]<r[1] and r[2]<r[3]
        try: aa.Region2D(r); ok=True
        except aa.exc.RegionException: ok=False
        if ok!=valid: flag('validity2D',r)
        n+=1
    break
for t in np.ndindex(6,6):
    r=tuple(int(v)-1 for v in t); valid=min(r)>=0 and r[0]<r[1]
    try: aa.Region1D(r); ok=True
    except aa.exc.RegionException: ok=False
    if ok!=valid: flag('validity1D',r)
# sub regions
H,W=6,7; lab=np.arange(H*W).reshape(H,W)
regs=[(y0,y1,x0,x1) for y0 in range(H) for y1 in range(y0+1,H+1) for x0 in range(W) for x1 in range(x0+1,W+1)]
for r in regs[::3]:
    R=aa.Region2D(r); rows=r[1]-r[0]; cols=r[3]-r[2]
    for p0 in range(rows):
        for p1 in range(p0+1,rows+1):
            s=R.parallel_front_region_from(pixels=(p0,p1))
            if not np.array_equal(lab[s.slice],lab[r[0]+p0:r[0]+p1,r[2]:r[3]]): flag('par front',(r,p0,p1))
            n+=1
    for k in range(1,rows+1):
        s=R.parallel_front_region_from(pixels_from_end=k)
        if not np.array_equal(lab[s.slice],lab[r[1]-k:r[1],r[2]:r[3]]): flag('par front from end',(r,k))
    for p0 in range(cols):
        for p1 in range(p0+1,cols+1):
            s=R.serial_front_region_from(pixels=(p0,p1))
            if not np.array_equal(lab[s.slice],lab[r[0]:r[1],r[2]+p0:r[2]+p1]): flag('ser front',(r,p0,p1))
    for k in range(1,cols+1):
        s=R.serial_front_region_from(pixels_from_end=k)
        if not np.array_equal(lab[s.slice],lab[r[0]:r[1],r[3]-k:r[3]]): flag('ser front from end',(r,k))
    for p0 in range(0,3):
        for p1 in range(p0+1,4):
            s=R.parallel_trailing_region_from(pixels=(p0,p1))
            if tuple(s.region)!=(r[1]+p0,r[1]+p1,r[2],r[3]): flag('par trail')
            s=R.serial_trailing_region_from(pixels=(p0,p1))
            if tuple(s.region)!=(r[0],r[1],r[3]+p0,r[3]+p1): flag('ser trail')
R1=aa.Region1D((2,6))
for p0 in range(4):
    for p1 in range(p0+1,5):
        if tuple(R1.front_region_from(pixels=(p0,p1)).region)!=(2+p0,2+p1): flag('1d front')
        if tuple(R1.trailing_region_from(pixels=(p0,p1)).region)!=(6+p0,6+p1): flag('1d trail')
for k in range(1,5):
    if tuple(R1.front_region_from(pixels_from_end=k).region)!=(6-k,6): flag('1d from end')
# Layout2D
arr=aa.Array2D.no_mask(values=lab.astype(float),pixel_scales=1.0)
for c in [(0,0),(0,1),(1,0),(1,1)]:
    lay=aa.Layout2D.rotated_from_roe_corner(roe_corner=c,shape_native=(H,W),parallel_overscan=(1,3,2,5),serial_prescan=(0,6,0,1),serial_overscan=(0,4,5,7))
    from autoarray.layout import layout_util
    ra=layout_util.rotate_array_via_roe_corner_from(lab,c)
    for nm,orig in [('parallel_overscan',(1,3,2,5)),('serial_prescan',(0,6,0,1)),('serial_overscan',(0,4,5,7))]:
        reg=getattr(lay,nm)
        if not np.array_equal(ra[reg.slice],layout_util.rotate_array_via_roe_corner_from(lab[orig[0]:orig[1],orig[2]:orig[3]],c)): flag('layout rot',(c,nm))
    l2=lay.new_rotated_from(roe_corner=c)
    if tuple(l2.parallel_overscan.region)!=(1,3,2,5): flag('layout rot2',c)
    rarr=aa.Array2D.no_mask(values=ra.astype(float),pixel_scales=1.0)
    ex=lay.extract_parallel_overscan_array_2d_from(rarr).native.array
    if not np.array_equal(ex,ra[lay.parallel_overscan.slice]): flag('extract po')
    ex=lay.extract_serial_overscan_array_from(rarr).native.array
    if not np.array_equal(ex,ra[lay.serial_overscan.slice]): flag('extract so')
    w=(1,5,1,6); le=lay.layout_extracted_from(extraction_region=w)
    for nm in ['parallel_overscan','serial_prescan','serial_overscan']:
        o=getattr(lay,nm); e=getattr(le,nm)
        z=np.zeros((H,W),bool); z[o.slice]=True; win=z[w[0]:w[1],w[2]:w[3]]
        if e is None:
            if win.any(): flag('layout extract none')
        else:
            zz=np.zeros_like(win); zz[e.slice]=True
            if not np.array_equal(zz,win): flag('layout extract',(c,nm))
    hdr=aa.Header(original_roe_corner=c) if 'original_roe_corner' in aa.Header.__init__.__code__.co_varnames else None
    if hdr is not None:
        a2=aa.Array2D(values=ra.astype(float),mask=aa.Mask2D.all_false(shape_native=ra.shape,pixel_scales=1.0),header=hdr,store_native=True)
        if not np.array_equal(a2.original_orientation,lab): flag('orig orientation',c)
print(n)
for k,v in bad.items(): print(k,v)
print('done')
