"""
C05 - the reconstruction is the true (non-negative) least-squares optimum.

(a) solver level: fnnls_cholesky(ZTZ, ZTx, P_initial), reconstruction_positive_only_from and
    reconstruction_positive_negative_from on generated SPD systems (Gram matrices with controlled condition number,
    regularisation-like banded matrices with negative off-diagonals, sizes 1..30) with right-hand sides positive /
    zero-mean / negative / mostly-negative-one-positive, and P_initial = production rule, empty, all-true, random
    boolean, integer index array.
(b) inversion level: aa.Inversion on generated datasets (data positive / zero-mean / negative / noise dominated) for
    the settings grid use_positive_only_solver x positive_only_uses_p_initial x force_edge_pixels_to_zeros, both
    formalisms, under the test configuration and under the packaged production defaults (config/prod, settings None).
Oracle: the KKT certificate of  min 1/2 s^T A s - D^T s, s >= 0  computed from A = F+H and D *as reported by the
inversion* (their correctness is C04): s >= 0, |g_i| <= tau on s_i > 0, g_i >= -tau on s_i = 0, g = A s - D,
tau = 1e-9 (||A||_2 ||s|| + ||D||); unconstrained solver: normwise backward error <= 1e-10; forced-zero parameters
exactly zero and KKT on the reduced system; independent minimiser from scipy.optimize.nnls on the Cholesky factor when
cond(A) <= 1e8; per-object model data == B_obj s_obj and their sum == total.
sys.monitoring frame capture on fnnls_cholesky reports which solver paths ran (warm start, main loop never entered,
fix_constraint_cholesky calls, no_update break): a run in which the warm start was never taken is inconclusive.
validated against (scratch copies, suite green): reverting the warm-start repair, tolerance -> 1e-3, skipping the
choldeleteindexes update, returning s_chol instead of d, dropping the forced-zero reinsertion.
"""
import numpy as np

from harness import env, gen, gen_aa
from harness.monitors import frames

ID = "C05"
NO = 5
RULE = ("(a) seeded SPD systems (size 1..30, cond 10..1e8, Gram / banded-with-negative-off-diagonals / mixed) x right-hand-side "
        "families x 5 P_initial modes; (b) seeded imaging inversions (as C04) x solver settings grid x 2 formalisms x 2 configs. "
        "A case = one system or one (dataset, objects); distinct by hash of (A, D) resp. (mask, kernel, data, noise, B); "
        "non-trivial = the unconstrained solution has at least one negative entry (the constraint is active) or a parameter is forced to zero")
BOUNDS = {"quick": "1500 systems (8 % exactly symmetric twin systems, half in other units) x 5 warm-start modes + 3 solver entry points; 96 inversions x up to 14 settings (test and production configuration, explicit and defaulted)",
          "thorough": "60000 systems; 6000 inversions"}
EXHAUSTIVE = {"quick": False, "thorough": False}
ASSUMPTIONS = ["solutions are judged for scales >= 1e-7 (matrix scales 1e-6..1e14); optima of absolute size ~1e-14 hit the solver's absolute tolerance "
               "2.2204e-16*n - a listed known finding exercised by the fixed 'tiny' unit",
               "when the settings force *every* parameter to zero the reduced system is empty and the code raises InversionException; counted as out of domain",
               "KKT tolerance tau = 1e-9*(||A||2*||s||+||D||); backward error 1e-10 for the unconstrained solver",
               "uniqueness cross-check against scipy.optimize.nnls only when cond(A) <= 1e8, with (1e-6 + 1e-8*cond) relative to the solution size",
               "A and D are taken as reported by the inversion (decided by C04)",
               "check_reconstruction (all-identical-solution guard) is off in both configurations"]
QUICK_JOBS = 16
MIN_MONITORS = {"*": {"kkt.solver": 100, "kkt.solver.warm": 50, "backward.unconstrained": 10, "nnls.crosscheck": 20,
                      "kkt.inversion": 20, "kkt.inversion.prod_defaults": 4, "forced_zero.exact": 4, "forced_zero.via_image_pixels": 4, "model_data.per_object": 10, "system.F_plus_H": 20,
                      "model_data.sum": 10, "path:warm_start_taken": 10, "path:fix_constraint_called": 1, "kkt.solver.tiny_solution": 4,
                      "path:several_parameters_reach_the_bound_in_one_step": 10, "settings.explicit_value_wins_over_config": 20}}


def plan(tier, seed):
    ns = 1500 if tier == "quick" else 60000
    ni = 96 if tier == "quick" else 6000
    s1 = 100 if tier == "quick" else 500
    s2 = 3 if tier == "quick" else 15
    units = [{"kind": "sys", "start": s, "stop": min(ns, s + s1), "w": s1 * 0.05} for s in range(0, ns, s1)]
    units += [{"kind": "inv", "start": s, "stop": min(ni, s + s2), "w": s2} for s in range(0, ni, s2)]
    units.append({"kind": "tiny", "w": 1})
    return units


def setup(ctx):
    ctx.aa = env.boot("base")
    from autoarray.util import fnnls

    def on_return(loc, ret):
        P0 = loc.get("P_initial")
        warm = P0 is not None and getattr(P0, "shape", (0,))[0] != 0
        if warm:
            ctx.monitors["path:warm_start_taken"] += 1
            if loc.get("loop_count", 0) <= 1 and loc.get("loop_count2", 0) == 0:
                ctx.monitors["path:warm_start_accepted_without_iteration"] += 1
        else:
            ctx.monitors["path:cold_start"] += 1
        if loc.get("loop_count2", 0) > 0:
            ctx.monitors["path:fix_constraint_called"] += 1
        if loc.get("no_update", 0) >= 3:
            ctx.monitors["path:no_update_break"] += 1

    frames.capture_return(fnnls.fnnls_cholesky, on_return)
    frames.count_calls(fnnls.fix_constraint_cholesky, ctx.reach, "fnnls.fix_constraint_cholesky")
    frames.count_calls(fnnls.fnnls_cholesky, ctx.reach, "fnnls.fnnls_cholesky")
    from autoarray.util import cholesky_funcs
    frames.count_calls(cholesky_funcs.cholinsertlast, ctx.reach, "cholesky_funcs.cholinsertlast")
    frames.count_calls(cholesky_funcs.choldeleteindexes, ctx.reach, "cholesky_funcs.choldeleteindexes")

    def on_delete(loc, ret):
        try:
            if len(loc.get("indexes")) >= 2:
                ctx.monitors["path:several_parameters_reach_the_bound_in_one_step"] += 1
        except Exception:
            pass

    frames.capture_return(cholesky_funcs.choldeleteindexes, on_delete)


def teardown(ctx):
    frames.clear()


def _np(x):
    return np.asarray(x.array if hasattr(x, "array") and not isinstance(x, np.ndarray) else x)


# ------------------------------------------------------------------------------- oracles
def kkt(A, D, s):
    """Returns (ok, detail) for the KKT certificate of min 1/2 s'As - D's, s>=0."""
    s = np.asarray(s, float)
    if s.shape != D.shape or not np.isfinite(s).all():
        return False, {"why": "shape/finite", "s": s}
    g = A @ s - D
    tau = 1e-9 * (np.linalg.norm(A, 2) * np.linalg.norm(s) + np.linalg.norm(D)) + 1e-300
    eps = 1e-12 * (1.0 + np.abs(s).max())
    neg = s < -eps
    pos = s > eps
    bad_pos = pos & (np.abs(g) > tau)
    bad_zero = (~pos) & (g < -tau)
    ok = not (neg.any() or bad_pos.any() or bad_zero.any())
    return ok, {"negative_entries": int(neg.sum()), "gradient_nonzero_on_positive": int(bad_pos.sum()),
                "gradient_negative_on_zero": int(bad_zero.sum()), "tau": float(tau), "s": s, "g": g}


def backward_error(A, D, s):
    return float(np.linalg.norm(A @ s - D) / (np.linalg.norm(A, 2) * np.linalg.norm(s) + np.linalg.norm(D) + 1e-300))


def nnls_reference(A, D):
    """scipy's NNLS has absolute tolerances of its own: it is run on the problem normalised to unit scale."""
    from scipy.optimize import nnls
    a, d = float(np.abs(A).max()), float(np.abs(D).max())
    if a == 0 or d == 0:
        return np.zeros(len(D))
    L = np.linalg.cholesky(A / a)
    b = np.linalg.solve(L, D / d)
    s, _ = nnls(L.T, b, maxiter=50 * A.shape[0] + 200)
    return s * (d / a)


def twin_system(rng):
    """Exactly symmetric systems (dyadic entries): g mutually orthogonal "twin" parameters with identical diagonal, identical
    coupling to the others and identical data-vector entries enter the passive set one after the other and are then driven
    negative together by a strongly coupled parameter - several passive parameters reach the bound in the same step (the solver
    removes several rows/columns from its Cholesky factor at once). Generic random systems never produce such ties."""
    for _ in range(40):
        g = int(rng.integers(2, 5))
        k = int(rng.integers(0, 4))
        n = g + 1 + k
        a = float(rng.choice([1.0, 2.0, 4.0]))
        c = float(rng.choice([0.25, 0.5, 1.0]))
        dl = float(rng.choice([0.125, 0.25, 0.5]))
        t = float(rng.choice([0.5, 1.0, 2.0]))
        e = g * c * t / a + dl * (t / c) * float(rng.choice([1.5, 2.0, 4.0]))
        A = np.zeros((n, n))
        A[:g, :g] = a * np.eye(g)
        A[:g, g] = A[g, :g] = c
        A[g, g] = g * c * c / a + dl
        D = np.concatenate([np.full(g, t), [e]])
        if k:
            x = rng.integers(-2, 3, size=k) / 8.0
            A[:g, g + 1:] = x[None, :]
            A[g + 1:, :g] = x[:, None]
            A[g + 1:, g + 1:] = np.eye(k) * float(rng.choice([2.0, 4.0, 8.0]))
            D = np.concatenate([D, rng.integers(-4, 5, size=k) / 4.0])
        if e >= t:
            continue                    # the twins must enter the passive set before the parameter that expels them
        try:
            np.linalg.cholesky(A)
        except np.linalg.LinAlgError:
            continue
        perm = rng.permutation(n)
        sc = float(2.0 ** int(rng.integers(-20, 40))) if rng.random() < 0.4 else 1.0      # power-of-two units keep the ties exact
        return A[np.ix_(perm, perm)] * sc, D[perm] * sc, "twins_exact_ties" + ("*scaled" if sc != 1.0 else ""), "positive"
    return None


def spd_system(rng):
    if rng.random() < 0.08:
        tw = twin_system(rng)
        if tw is not None:
            return tw
    n = int(rng.integers(1, 31))
    fam = str(rng.choice(["gram", "gram_illcond", "banded", "banded_gram", "neg_offdiag"]))
    big = rng.random() < 0.06
    if big:
        # realistic sizes: more than 50 (up to ~130) parameters, most of them positive at the optimum, so that the solver's main
        # loop runs well past 50 passes from a cold start
        n = int(rng.integers(52, 131))
        fam = str(rng.choice(["gram", "banded", "banded_gram"]))
    if fam in ("gram", "gram_illcond"):
        m = n + int(rng.integers(0, 12))
        Z = rng.normal(size=(m, n))
        if fam == "gram_illcond":
            U, _, Vt = np.linalg.svd(Z, full_matrices=False)
            sv = np.logspace(0, -float(rng.uniform(1, 4)), n)
            Z = (U * sv) @ Vt
        A = Z.T @ Z + 1e-10 * np.trace(Z.T @ Z) / n * np.eye(n)
    elif fam == "banded":
        c = float(np.exp(rng.uniform(-2, 2)))
        A = np.zeros((n, n))
        for i in range(n - 1):
            A[i, i] += c
            A[i + 1, i + 1] += c
            A[i, i + 1] -= c
            A[i + 1, i] -= c
        A += np.diag(rng.random(n) * 0.5 + 1e-3)
    elif fam == "banded_gram":
        Z = rng.random((n + 3, n)) * (rng.random((n + 3, n)) < 0.4)
        A = Z.T @ Z
        c = float(np.exp(rng.uniform(-2, 1)))
        for i in range(n - 1):
            A[i, i] += c
            A[i + 1, i + 1] += c
            A[i, i + 1] -= c
            A[i + 1, i] -= c
        A += 1e-6 * np.eye(n)
    else:
        r = float(rng.uniform(0.5, 0.98))
        A = np.eye(n)
        for i in range(n):
            for j in range(n):
                if i != j:
                    A[i, j] = -r / max(1, n - 1) * (1 + 0.2 * np.cos(i + j))
        A = (A + A.T) / 2 + 1e-3 * np.eye(n)
    A = (A + A.T) / 2.0
    rk = str(rng.choice(["positive", "zero_mean", "negative", "mostly_negative", "mixed_scaled"]))
    if big:
        rk = "positive" if rng.random() < 0.7 else "zero_mean"
        fam += "*50+params"
    if rk == "positive":
        D = rng.random(n) + 0.05
    elif rk == "zero_mean":
        D = rng.normal(size=n)
    elif rk == "negative":
        D = -rng.random(n) - 0.05
    elif rk == "mostly_negative":
        D = -rng.random(n) - 0.1
        D[int(rng.integers(n))] = float(rng.uniform(0.05, 0.5))
    else:
        D = rng.normal(size=n) * np.exp(rng.uniform(-3, 3, size=n))
    # units: the problem is invariant under A -> a*A, D -> a*b*D (solution -> b*solution); curvature matrices scale with
    # 1/noise^2 (1e-8..1e14) and solutions with the flux unit. The solution scale stays >= 1e-7 here: far above the solver's
    # absolute coefficient tolerance 2.2e-16*n (that regime is the separate known finding, unit "tiny").
    if rng.random() < 0.5:
        a = float(10.0 ** rng.uniform(-6, 14))
        b = float(10.0 ** rng.uniform(-7, 3))
        A, D = A * a, D * (a * b)
        fam += "*scaled"
    return A, D, fam, rk


def run_system(ctx, i):
    aa = ctx.aa
    from autoarray.util.fnnls import fnnls_cholesky
    from autoarray.inversion.inversion import inversion_util
    rng = gen.rng_for(ctx.seed, NO, 1, i)
    if not ctx.begin("sys:%d" % i):
        return
    A, D, fam, rk = spd_system(rng)
    n = A.shape[0]
    try:
        np.linalg.cholesky(A)
    except np.linalg.LinAlgError:
        ctx.skipped["system_not_numerically_spd"] += 1
        return
    cond = float(np.linalg.cond(A))
    s_un = np.linalg.solve(A, D)
    W = dict(A=A, D=D, family=fam, rhs=rk, cond=cond)
    modes = {"production_rule": s_un > 0, "empty": np.zeros(0, dtype=int), "all_true": np.ones(n, bool),
             "random_bool": rng.random(n) < 0.5, "index_array": np.flatnonzero(rng.random(n) < 0.5)}
    ref = None
    if cond <= 1e8:
        try:
            ref = nnls_reference(A, D)
        except Exception:
            ref = None
    for mode, P0 in modes.items():
        if mode == "index_array" and P0.size == 0:
            continue
        try:
            s = fnnls_cholesky(A.copy(), D.copy(), P_initial=P0.copy())
        except Exception as e:
            ctx.check(cond > 1e8, "kkt.solver", mode=mode, exception=repr(e)[:200], **W)
            continue
        ok, det = kkt(A, D, s)
        name = "kkt.solver" if mode == "empty" else "kkt.solver.warm"
        ctx.check(ok, name, mode=mode, P_initial=P0, **det, **W)
        ctx.monitors["kkt.solver"] += 0 if mode == "empty" else 1
        if ref is not None and ok:
            # both solutions satisfy the KKT conditions to ~1e-9 (backward); their distance is bounded by cond * that
            sc = max(float(np.abs(ref).max()), float(np.abs(s).max()), 1e-300)
            ctx.check(float(np.abs(s - ref).max()) <= (1e-6 + 1e-8 * cond) * sc, "nnls.crosscheck", mode=mode, got=s, scipy_nnls=ref, **W)
    # the two public solver entry points of inversion_util
    for warm in (False, True):
        st = aa.SettingsInversion(use_positive_only_solver=True, positive_only_uses_p_initial=warm)
        try:
            s = inversion_util.reconstruction_positive_only_from(data_vector=D.copy(), curvature_reg_matrix=A.copy(), settings=st)
            ok, det = kkt(A, D, s)
            ctx.check(ok, "kkt.solver.warm" if warm else "kkt.solver", entry="reconstruction_positive_only_from", warm=warm, **det, **W)
        except aa.exc.InversionException as e:
            ctx.check(cond > 1e8, "kkt.solver", entry="reconstruction_positive_only_from", warm=warm,
                      exception="InversionException on a well-conditioned system", **W)
    try:
        s = inversion_util.reconstruction_positive_negative_from(data_vector=D.copy(), curvature_reg_matrix=A.copy(),
                                                                 mapper_param_range_list=[])
        be = backward_error(A, D, s)
        ctx.check(be <= 1e-10, "backward.unconstrained", backward_error=be, s=s, **W)
    except aa.exc.InversionException:
        ctx.skipped["unconstrained:InversionException(allowed)"] += 1
    active = bool((s_un < 0).any())
    ctx.case(A, D, nontrivial=active, cls=["sys:" + fam, "rhs:" + rk, "n<=5" if n <= 5 else ("n<=15" if n <= 15 else "n<=30"),
                                           "constraint_active" if active else "constraint_inactive",
                                           "cond>1e6" if cond > 1e6 else "cond<=1e6"],
             sample=lambda: {"A": A.tolist() if n <= 4 else "n=%d %s" % (n, fam), "D": D.tolist()[:8], "rhs": rk, "cond": cond,
                             "unconstrained_has_negative": active})


def run_inversion(ctx, i):
    aa = ctx.aa
    rng = gen.rng_for(ctx.seed, NO, 2, i)
    if not ctx.begin("inv:%d" % i):
        return
    case = gen_aa.imaging_case(aa, rng, kshapes=(1, 3), max_unmasked=30, noise_scale_range=(1e-7, 1e4))
    objs, desc = gen_aa.linear_objects(aa, rng, case, allow_unregularized=bool(rng.random() < 0.4), overrides=True)
    from harness.props.c04 import reference
    B, _, _, _ = reference(case, objs, 0.0)
    sizes = [int(np.asarray(o.mapping_matrix).shape[1]) for o in objs]
    offs = np.concatenate([[0], np.cumsum(sizes)])
    Wc = dict(mask=case["m"], kernel=case["k"], objects=desc, data_kind=case["data_kind"], noise_scale=case["noise_scale"])
    grid = [(False, False, True)] + [(True, w, f) for w in (False, True) for f in (False, True)]
    any_active = False
    n_img = int((~case["m"]).sum())
    zero_img = np.sort(rng.choice(n_img, size=max(1, n_img // 6), replace=False))
    for use_w in (False, True):
        for (pos, warm, force) in grid:
            st = aa.SettingsInversion(use_w_tilde=use_w, use_positive_only_solver=pos, positive_only_uses_p_initial=warm,
                                      force_edge_pixels_to_zeros=force, no_regularization_add_to_curvature_diag_value=1e-3)
            any_active |= check_inversion(ctx, case, objs, desc, st, B, offs, Wc, dict(w_tilde=use_w, positive=pos, warm=warm, force=force))
        # second forcing mechanism of the settings: source pixels that receive flux from the selected image pixels are forced too
        warm = bool(rng.integers(2))
        st = aa.SettingsInversion(use_w_tilde=use_w, use_positive_only_solver=True, positive_only_uses_p_initial=warm,
                                  force_edge_pixels_to_zeros=True, force_edge_image_pixels_to_zeros=True, image_pixels_source_zero=zero_img.copy(),
                                  no_regularization_add_to_curvature_diag_value=1e-3)
        any_active |= check_inversion(ctx, case, objs, desc, st, B, offs, Wc, dict(w_tilde=use_w, positive=True, warm=warm, force=True,
                                                                                     image_pixels_source_zero=zero_img))
    # production defaults: settings left to the packaged configuration (positive-only solver with warm start)
    env.push_config("prod")
    try:
        for use_w in (False, True):
            st = aa.SettingsInversion(use_w_tilde=use_w)
            ctx.check(st.use_positive_only_solver is True and st.positive_only_uses_p_initial is True, "config.prod_is_production_default",
                      got=(st.use_positive_only_solver, st.positive_only_uses_p_initial))
            any_active |= check_inversion(ctx, case, objs, desc, st, B, offs, Wc, dict(w_tilde=use_w, config="prod", positive=True, warm=True, force=True),
                                          monitor="kkt.inversion.prod_defaults")
            # under the same configuration an explicit setting wins over the configured default - in particular an explicit False
            st_u = aa.SettingsInversion(use_w_tilde=use_w, use_positive_only_solver=False, positive_only_uses_p_initial=False,
                                        force_edge_pixels_to_zeros=False)
            ctx.check(st_u.use_positive_only_solver is False and st_u.positive_only_uses_p_initial is False and st_u.force_edge_pixels_to_zeros is False,
                      "settings.explicit_value_wins_over_config", config="prod", requested=(False, False, False),
                      got=(st_u.use_positive_only_solver, st_u.positive_only_uses_p_initial, st_u.force_edge_pixels_to_zeros))
            check_inversion(ctx, case, objs, desc, st_u, B, offs, Wc, dict(w_tilde=use_w, config="prod", positive=False, warm=False, force=False))
            st_c = aa.SettingsInversion(use_w_tilde=use_w, use_positive_only_solver=True, positive_only_uses_p_initial=False,
                                        force_edge_pixels_to_zeros=False)
            warm_before = ctx.monitors["path:warm_start_taken"]
            check_inversion(ctx, case, objs, desc, st_c, B, offs, Wc, dict(w_tilde=use_w, config="prod", positive=True, warm=False, force=False),
                            monitor="kkt.inversion.prod_defaults")
            ctx.check(ctx.monitors["path:warm_start_taken"] == warm_before and st_c.positive_only_uses_p_initial is False,
                      "settings.explicit_value_wins_over_config", config="prod", requested="positive_only_uses_p_initial=False",
                      warm_starts_observed=ctx.monitors["path:warm_start_taken"] - warm_before)
    finally:
        env.push_config("base")
    k = case["k"]
    ctx.case("inv", case["m"], k, case["d"], case["noise"], B, nontrivial=any_active,
             cls=["inv", "data:%s" % case["data_kind"], "objs:" + "+".join(d["kind"] for d in desc)],
             sample=lambda: {"mask": case["m"].astype(int).tolist(), "kernel": k.tolist(), "objects": desc, "data_kind": case["data_kind"]})


def check_inversion(ctx, case, objs, desc, st, B, offs, Wc, tag, monitor="kkt.inversion"):
    """Returns True when the constraint (or a forced zero) was active for this inversion."""
    aa = ctx.aa
    ok, inv = ctx.guarded(monitor, lambda: aa.Inversion(dataset=case["ds"], linear_obj_list=objs, settings=st))
    if not ok:
        return False
    try:
        D = _np(inv.data_vector).copy()
        # the system the solution is judged against is assembled here: F as the inversion reports it, H block by block from every
        # object's OWN regularization (function lists may carry one too); what the inversion calls F+H must be that matrix
        F_ = _np(inv.curvature_matrix).copy()
        H_ = np.zeros_like(F_)
        for j, o in enumerate(objs):
            if o.regularization is not None:
                H_[offs[j]:offs[j + 1], offs[j]:offs[j + 1]] = _np(o.regularization.regularization_matrix_from(linear_obj=o)).astype(float)
        A = _np(inv.curvature_reg_matrix).copy()
        ctx.check(A.shape == F_.shape and float(np.abs(A - (F_ + H_)).max()) <= 1e-10 * max(float(np.abs(F_ + H_).max()), 1e-300), "system.F_plus_H",
                  settings=tag, got=A, expected=F_ + H_, **Wc)
        A = F_ + H_
        cond = float(np.linalg.cond(A))
    except Exception as e:
        ctx.check(False, monitor, settings=tag, exception=repr(e)[:300], **Wc)
        return False
    if not np.isfinite(cond) or cond > 1e13:
        # numerically singular F+H (e.g. an unregularised mapper whose 1e-3 diagonal is negligible next to F ~ 1/noise^2):
        # outside "all symmetric positive-definite (F+H)"; counted, not judged
        ctx.skipped["F+H numerically singular (cond > 1e13)"] += 1
        return False
    try:
        s = _np(inv.reconstruction).copy()
    except aa.exc.InversionException as e:
        if tag["positive"]:
            all_forced = len(set(int(v) for v in inv.mapper_edge_pixel_list)) == len(D)
            if tag["force"] and tag.get("image_pixels_source_zero") is not None and not all_forced:
                fz = np.zeros(len(D), bool)
                fz[np.asarray(inv.mapper_edge_pixel_list, dtype=int)] = True
                for o, d, lo in zip(objs, desc, offs[:-1]):
                    if d.get("kind") != "func":
                        Mo = np.asarray(o.mapping_matrix, float)
                        fz[lo:lo + Mo.shape[1]] |= (Mo[np.asarray(tag["image_pixels_source_zero"], int)] != 0).any(0)
                all_forced = bool(fz.all())
            if tag["force"] and all_forced:
                # every parameter is forced to zero (e.g. a Delaunay mesh whose vertices all lie on the hull): the reduced
                # system is empty and there is nothing to be optimal; the statement speaks about "the remaining ones"
                ctx.skipped["all_parameters_forced_to_zero:InversionException(empty reduced system)"] += 1
                return False
            ctx.check(cond > 1e8, monitor, settings=tag, exception="InversionException from the positive-only solver, cond=%.3g" % cond, **Wc)
        else:
            ctx.skipped["unconstrained:InversionException(allowed)"] += 1
        return False
    except Exception as e:
        ctx.check(False, monitor, settings=tag, exception=repr(e)[:300], **Wc)
        return False
    active = False
    if not tag["positive"]:
        be = backward_error(A, D, s)
        ctx.check(be <= 1e-10, "backward.unconstrained", settings=tag, backward_error=be, cond=cond, **Wc)
    else:
        forced = np.zeros(len(D), bool)
        if tag["force"]:
            ids = np.asarray(inv.mapper_edge_pixel_list, dtype=int)
            forced[ids] = True
            edge_forced = forced.copy()
            if tag.get("image_pixels_source_zero") is not None:
                # independent of mapper_zero_pixel_list: mapper parameters with a non-zero mapping from any selected image pixel
                for o, d, lo in zip(objs, desc, offs[:-1]):
                    if d.get("kind") != "func":
                        Mo = np.asarray(o.mapping_matrix, float)
                        forced[lo:lo + Mo.shape[1]] |= (Mo[np.asarray(tag["image_pixels_source_zero"], int)] != 0).any(0)
                ctx.monitors["forced_zero.via_image_pixels"] += 1
            # rectangular meshes: the forced set must be the boundary cells of the mesh (independent of the neighbour code)
            for o, d, lo in zip(objs, desc, offs[:-1]):
                if d.get("kind") == "rect":
                    sh = tuple(o.source_plane_mesh_grid.shape_native)
                    yy, xx = np.indices(sh)
                    boundary = ((yy == 0) | (yy == sh[0] - 1) | (xx == 0) | (xx == sh[1] - 1)).ravel()
                    got = edge_forced[lo:lo + boundary.size]
                    ctx.check(np.array_equal(got, boundary), "forced_zero.set_is_mesh_boundary", mesh_shape=sh, got=got, **Wc)
            ctx.check(bool(np.all(s[forced] == 0.0)), "forced_zero.exact", settings=tag, forced=np.flatnonzero(forced), s=s, **Wc)
            active |= bool(forced.any())
        free = ~forced
        if free.any():
            Ar, Dr = A[np.ix_(free, free)], D[free]
            okk, det = kkt(Ar, Dr, s[free])
            ctx.check(okk, monitor, settings=tag, cond=cond, **det, **Wc)
            try:
                active |= bool((np.linalg.solve(Ar, Dr) < 0).any())
            except np.linalg.LinAlgError:
                pass
            if okk and np.linalg.cond(Ar) <= 1e8:
                try:
                    ref = nnls_reference(Ar, Dr)
                    sc = max(float(np.abs(ref).max()), float(np.abs(s[free]).max()), 1e-300)
                    ctx.check(float(np.abs(s[free] - ref).max()) <= (1e-6 + 1e-8 * float(np.linalg.cond(Ar))) * sc, "nnls.crosscheck", settings=tag,
                              got=s[free], scipy_nnls=ref, **Wc)
                except Exception:
                    ctx.skipped["nnls_reference_failed"] += 1
    # per-object model data and their sum
    try:
        total = _np(inv.mapped_reconstructed_data).copy()
        dd = inv.mapped_reconstructed_data_dict
        rd = inv.reconstruction_dict
    except Exception as e:
        ctx.check(False, "model_data.per_object", settings=tag, exception=repr(e)[:300], **Wc)
        return active
    acc = np.zeros_like(total)
    for j, o in enumerate(objs):
        sj = s[offs[j]:offs[j + 1]]
        exp = B[:, offs[j]:offs[j + 1]] @ sj
        got = _np(dd[o])
        tol = 1e-9 * max(float((np.abs(B[:, offs[j]:offs[j + 1]]) @ np.abs(sj)).max()), 1e-300)
        ctx.check(got.shape == exp.shape and float(np.abs(got - exp).max()) <= tol, "model_data.per_object", settings=tag, obj=j,
                  got=got, expected=exp, **Wc)
        ctx.check(np.array_equal(_np(rd[o]), sj), "model_data.reconstruction_slice", settings=tag, obj=j)
        acc = acc + got
    tol = 1e-9 * max(float((np.abs(B) @ np.abs(s)).max()), 1e-300)
    ctx.check(float(np.abs(acc - total).max()) <= tol, "model_data.sum", settings=tag, got=total, sum_of_objects=acc, **Wc)
    return active


def run_tiny(ctx):
    """Known finding (known_findings.json, classifier c05_absolute_tolerance): the solver's coefficient / gradient tolerance is the
    absolute number 2.2204e-16*n, so an optimum whose entries are of that size (here ~1e-14: A ~ 1e6, D ~ 1e-8) is truncated
    to zero although it is the same problem, in other units, as one the solver gets right. The inputs are fixed (independent of
    VERIF_SEED) so that the finding is exercised in every run; everything above that regime is judged by the other units."""
    from autoarray.util.fnnls import fnnls_cholesky
    for i in range(12):
        if not ctx.begin("tiny:%d" % i):
            continue
        rng = gen.rng_for(0, NO, 9, i)
        n = int(rng.integers(3, 12))
        Z = rng.normal(size=(n + 5, n))
        A0 = Z.T @ Z + 1e-6 * np.eye(n)
        D0 = rng.normal(size=n)
        ref0 = nnls_reference(A0, D0)
        for (a, b, regime) in ((1.0, 1.0, "unit scale"), (1e6, 1e-14, "solution ~1e-14")):
            A, D = A0 * a, D0 * (a * b)
            abs_tol = 2.2204e-16 * n
            for mode, P0 in (("empty", np.zeros(0, dtype=int)), ("production_rule", np.linalg.solve(A, D) > 0)):
                try:
                    s = fnnls_cholesky(A.copy(), D.copy(), P_initial=P0)
                    ok, det = kkt(A, D, s)
                except Exception as e:
                    ok, det = False, {"exception": repr(e)[:200]}
                below = bool(float(ref0.max() * b) <= 1e3 * abs_tol)
                ctx.check(ok, "kkt.solver.tiny_solution" if below else "kkt.solver", mode=mode, regime=regime, n=n, reference_max=float(ref0.max() * b),
                          abs_tolerance=abs_tol, solution_scale_below_absolute_tolerance=below, returned_max=float(np.max(s)) if ok is not None and "s" in det else None,
                          A=A if n <= 4 else "n=%d" % n)
        ctx.case("tiny", A0, D0, nontrivial=True, cls=["tiny_solution_regime"], sample=None)


def run_unit(ctx, u):
    if u["kind"] == "tiny":
        return run_tiny(ctx)
    if u["kind"] == "sys":
        for i in range(u["start"], u["stop"]):
            run_system(ctx, i)
    else:
        for i in range(u["start"], u["stop"]):
            run_inversion(ctx, i)
