"""
C07 - regularization matrices are symmetric PSD with the stated quadratic form.

Per generated mesh (rectangular 3x3..7x6 incl. non-square, Delaunay 5..20 vertices) and every scheme of
{Constant, ConstantZeroth, Zeroth, AdaptiveBrightness, BrightnessZeroth, GaussianKernel, ExponentialKernel} (+ ConstantSplit,
AdaptiveBrightnessSplit on Delaunay meshes) with coefficients log-uniform in [0.01, 100], signal scales [0.2, 3], positive
adapt images with dynamic range up to 1e4:
  shape, symmetric           H is (params x params) and symmetric to 1e-10 * |H|max
  psd                        eigvalsh(H) >= -1e-10 * |H|max for every scheme
  pd                         min eigenvalue > 0 and np.linalg.cholesky succeeds for the schemes the statement names
                             (neighbour-difference: Constant, AdaptiveBrightness; split-cross: ConstantSplit,
                             AdaptiveBrightnessSplit; kernels: GaussianKernel, ExponentialKernel)
  quadratic.constant         x^T H x == c^2 sum_pairs (x_i - x_j)^2 + 1e-8 |x|^2 on random and adversarial x
  quadratic.adaptive         x^T H x == sum_pairs (w_i^2 + w_j^2)(x_i - x_j)^2 + 1e-8 |x|^2, w = the scheme's own weights
                             (pairs from an adjacency computed independently of the repository's neighbour code)
  blocks                     inversion.regularization_matrix is block diagonal in the order of the linear objects, all-zero
                             block for an object without regularization, _reduced drops exactly those rows/columns; permuting
                             the object list permutes the blocks
validated against (scratch copies, suite green): one-directional neighbour update (asymmetry), sign slip on the off-diagonal,
ridge dropped, weights w instead of w^2, blocks placed in reverse order when an object is unregularised.
"""
import itertools

import numpy as np

from harness import env, gen, gen_aa

ID = "C07"
NO = 7
RULE = ("seeded meshes (rectangular shapes 3x3..7x6, Delaunay vertex sets 5..20 in general position) x all nine schemes with "
        "log-uniform coefficients, signal scales and positive adapt images; a case = (mesh, scheme, parameters); distinct by hash of "
        "(mesh vertices/shape, scheme name, parameters); non-trivial = >= 4 parameters and the matrix is not diagonal (or is a "
        "zeroth scheme, which is diagonal by definition and counted trivial)")
BOUNDS = {"quick": "240 meshes x 7-9 schemes + 160 multi-object inversions + 24 large (up to 16x14) kernel meshes", "thorough": "12000 meshes x 7-9 schemes + 8000 inversions + 960 large kernel meshes"}
EXHAUSTIVE = {"quick": False, "thorough": False}
ASSUMPTIONS = ["kernel schemes: strict PD only when cond(covariance) <= 1e6; for 1e6 < cond <= 1e9 (large meshes, broad kernels) the claim is min eig >= -n*u*cond*lambda_max (PSD down to the rounding floor of the dense inverse); beyond 1e9 counted and skipped",
               "strict positive definiteness is decided numerically: min eigenvalue > 0 and Cholesky succeeds; cases with lambda_max*1e-16 "
               ">= 1e-9 (ridge below rounding) are counted and skipped for the PD sub-claim only"]
QUICK_JOBS = 12
PD = ("Constant", "AdaptiveBrightness", "ConstantSplit", "AdaptiveBrightnessSplit", "GaussianKernel", "ExponentialKernel")
MIN_MONITORS = {"*": {"symmetric": 50, "psd": 50, "pd": 30, "quadratic.constant": 10, "quadratic.adaptive": 10, "blocks": 10,
                      "blocks.permuted": 5, "blocks.reduced": 10, "kernel.translation_invariant": 5}}


def plan(tier, seed):
    n = 240 if tier == "quick" else 12000
    nb = 160 if tier == "quick" else 8000
    step = 4 if tier == "quick" else 20
    units = [{"kind": "mesh", "start": s, "stop": min(n, s + step), "w": step} for s in range(0, n, step)]
    units += [{"kind": "blocks", "start": s, "stop": min(nb, s + step), "w": step} for s in range(0, nb, step)]
    nl = 24 if tier == "quick" else 960
    units += [{"kind": "large", "start": s, "stop": s + 1, "w": 3} for s in range(nl)]
    nf = 40 if tier == "quick" else 800
    units += [{"kind": "funclist", "start": s, "stop": min(nf, s + 10), "w": 2} for s in range(0, nf, 10)]
    return units


def setup(ctx):
    ctx.aa = env.boot("base")


def _np(x):
    return np.asarray(x.array if hasattr(x, "array") and not isinstance(x, np.ndarray) else x)


def logu(rng, lo, hi):
    return float(np.exp(rng.uniform(np.log(lo), np.log(hi))))


def build_mapper(ctx, rng, kind, lattice=False, far=False, dup=False):
    aa = ctx.aa
    H, W = int(rng.integers(3, 7)), int(rng.integers(3, 7))
    m, fam = gen.random_mask(rng, H, W, family=str(rng.choice(["dense", "all_unmasked", "bernoulli", "holes"])))
    if (~m).sum() < 4:
        m[:] = False
    ps, origin = gen.mild_scales_origin(rng)
    mask = aa.Mask2D(mask=m.copy(), pixel_scales=ps, origin=origin)
    osamp = aa.OverSamplerUniform(mask=mask, sub_size=int(rng.integers(1, 3)))
    g = _np(osamp.over_sampled_grid).copy()
    src, dk = gen_aa.distort(rng, g)
    if far:
        # the same source plane far from the coordinate origin (1e3 .. 1e6 units away): every scheme depends on coordinate
        # differences only, so definiteness and the quadratic forms are unchanged
        src = src + np.array([1.0, -0.7]) * float(10.0 ** rng.uniform(3, 6))
    n = int((~m).sum())
    dyn = logu(rng, 1.0, 1e4)
    adapt = aa.Array2D(values=np.exp(rng.uniform(0, np.log(dyn), size=n)) * 0.05, mask=mask)
    if kind == "rect":
        shape = (int(rng.integers(3, 8)), int(rng.integers(3, 7)))
        mesh = aa.Mesh2DRectangular.overlay_grid(shape_native=shape, grid=aa.Grid2DIrregular(values=src))
        desc = {"kind": "rect", "shape": shape}
    else:
        if lattice:
            # vertices on a regular lattice (what an overlay image-mesh hands to the Delaunay mesh): every cell is a co-circular
            # quadruple, the triangulation is not unique and keeps one diagonal per cell
            ny, nx = int(rng.integers(2, 6)), int(rng.integers(3, 6))
            lo, hi = src.min(0), src.max(0)
            yy, xx = np.meshgrid(np.linspace(lo[0], hi[0], ny), np.linspace(lo[1], hi[1], nx), indexing="ij")
            V = np.stack([yy.ravel(), xx.ravel()], axis=1)
            V = V[rng.permutation(len(V))] if rng.random() < 0.5 else V
        else:
            V = gen_aa.delaunay_vertices(rng, src.min(0), src.max(0), int(rng.integers(5, 21)), spread=float(rng.uniform(0.8, 1.3)))
            if dup:
                # a vertex listed twice (two image-plane mesh points traced onto the same source position): the triangulation
                # leaves the repeat out, it has no neighbouring pairs
                ks = rng.choice(len(V), size=int(rng.integers(1, 3)), replace=False)
                V = np.vstack([V, V[ks]])
        mesh = aa.Mesh2DDelaunay(values=V)
        desc = {"kind": "del", "vertices": V, "lattice": bool(lattice), "repeated_vertex": bool(dup)}
    mg = aa.MapperGrids(mask=mask, source_plane_data_grid=aa.Grid2DIrregular(values=src), source_plane_mesh_grid=mesh, adapt_data=adapt)
    mp = aa.Mapper(mapper_grids=mg, over_sampler=osamp, regularization=None)
    return mp, desc, m


def adjacency(mp, desc):
    """Unordered neighbour pairs, independent of the repository's neighbour construction."""
    if desc["kind"] == "rect":
        Hm, Wm = desc["shape"]
        pairs = set()
        for a in range(Hm):
            for b in range(Wm):
                if a + 1 < Hm:
                    pairs.add((a * Wm + b, (a + 1) * Wm + b))
                if b + 1 < Wm:
                    pairs.add((a * Wm + b, a * Wm + b + 1))
        return pairs
    from scipy.spatial import Delaunay
    if desc.get("lattice"):
        # degenerate vertex set: several triangulations are Delaunay; the pairs are the edges of the one the mesh itself holds
        # and interpolates on (for generic sets below the harness computes the triangulation itself)
        simplices = np.asarray(mp.source_plane_mesh_grid.delaunay.simplices)
    else:
        simplices = Delaunay(np.asarray(desc["vertices"])).simplices
    pairs = set()
    for t in simplices:
        for a, b in ((0, 1), (0, 2), (1, 2)):
            pairs.add(tuple(sorted((int(t[a]), int(t[b])))))
    return pairs


def schemes(ctx, rng, kind):
    reg = ctx.aa.reg
    c = lambda: logu(rng, 0.01, 100.0)
    s = lambda: float(rng.uniform(0.2, 3.0))
    tie = rng.random() < 0.3          # inner and outer coefficient exactly equal (as in the constructor defaults 1.0 / 1.0)
    ci = c()
    co = ci if tie else c()
    if tie and rng.random() < 0.3:
        ci = co = 1.0
    out = [("Constant", reg.Constant(coefficient=c())), ("ConstantZeroth", reg.ConstantZeroth(coefficient_neighbor=c(), coefficient_zeroth=c())),
           ("Zeroth", reg.Zeroth(coefficient=c())),
           ("AdaptiveBrightness", reg.AdaptiveBrightness(inner_coefficient=ci, outer_coefficient=co, signal_scale=s())),
           ("BrightnessZeroth", reg.BrightnessZeroth(coefficient=c(), signal_scale=s())),
           ("GaussianKernel", reg.GaussianKernel(coefficient=c(), scale=None)), ("ExponentialKernel", reg.ExponentialKernel(coefficient=c(), scale=None))]
    if kind == "del":
        out += [("ConstantSplit", reg.ConstantSplit(coefficient=c())),
                ("AdaptiveBrightnessSplit", reg.AdaptiveBrightnessSplit(inner_coefficient=co, outer_coefficient=ci, signal_scale=s()))]
    return out


def check_matrix(ctx, name, r, mp, desc, rng, pairs, W):
    try:
        ok, Hm = ctx.guarded("matrix.construct", lambda: _np(r.regularization_matrix_from(linear_obj=mp)).astype(float))
    except Exception:
        raise
    if not ok:
        return None
    P = int(mp.params)
    ctx.check(Hm.shape == (P, P), "shape", scheme=name, got=Hm.shape, **W)
    if Hm.shape != (P, P) or not np.isfinite(Hm).all():
        ctx.check(np.isfinite(Hm).all(), "finite", scheme=name, **W)
        return None
    sc = float(np.abs(Hm).max())
    ctx.check(float(np.abs(Hm - Hm.T).max()) <= 1e-10 * sc, "symmetric", scheme=name, maxdiff=float(np.abs(Hm - Hm.T).max()), scale=sc, **W)
    ev = np.linalg.eigvalsh((Hm + Hm.T) / 2)
    ctx.check(ev.min() >= -1e-10 * sc, "psd", scheme=name, min_eig=float(ev.min()), scale=sc, **W)
    if name in PD:
        if ev.max() * 1e-16 >= 1e-9:
            ctx.skipped["pd:ridge_below_rounding"] += 1
        else:
            try:
                np.linalg.cholesky(Hm)
                chol = True
            except np.linalg.LinAlgError:
                chol = False
            ctx.check(ev.min() > 0 and chol, "pd", scheme=name, min_eig=float(ev.min()), cholesky=chol, scale=sc, **W)
    xs = [rng.normal(size=P), np.ones(P), np.eye(P)[int(rng.integers(P))], (-1.0) ** np.arange(P), rng.normal(size=P) * 1e3]
    if name == "Constant":
        c2 = float(r.coefficient) ** 2
        for x in xs:
            q = c2 * sum((x[i] - x[j]) ** 2 for i, j in pairs) + 1e-8 * float(x @ x)
            got = float(x @ Hm @ x)
            ctx.check(abs(got - q) <= 1e-9 * max(abs(q), c2 * float(x @ x) * 1e-3, 1e-300), "quadratic.constant", got=got, expected=q, x=x, coefficient=r.coefficient, **W)
    if name == "AdaptiveBrightness":
        okw, w = ctx.guarded("weights", lambda: _np(r.regularization_weights_from(linear_obj=mp)).astype(float))
        if okw:
            ctx.check(w.shape == (P,) and (w > 0).all(), "weights.positive", weights=w, **W)
            for x in xs:
                q = sum((w[i] ** 2 + w[j] ** 2) * (x[i] - x[j]) ** 2 for i, j in pairs) + 1e-8 * float(x @ x)
                got = float(x @ Hm @ x)
                ctx.check(abs(got - q) <= 1e-9 * max(abs(q), float((w ** 2).max()) * float(x @ x) * 1e-3, 1e-300), "quadratic.adaptive",
                          got=got, expected=q, x=x, weights=w, **W)
    return Hm


def kernel_scale(rng, mp, name):
    """Kernel scale such that cond(covariance) stays <= ~1e6 (checked, not assumed)."""
    V = _np(mp.source_plane_mesh_grid).astype(float)
    d = np.sqrt(((V[:, None, :] - V[None, :, :]) ** 2).sum(-1))
    dmin = float(np.min(d[d > 0]))
    return float(rng.uniform(0.3, 0.9)) * dmin, V, d


def run_mesh(ctx, i):
    rng = gen.rng_for(ctx.seed, NO, 1, i)
    kind = "rect" if i % 2 == 0 else "del"
    lattice = kind == "del" and i % 8 == 3
    far = (i % 8 in (1, 6))
    dup = kind == "del" and i % 8 == 5
    ok, res = ctx.guarded("mapper.construct", lambda: build_mapper(ctx, rng, kind, lattice, far, dup))
    if not ok:
        return
    mp, desc, m = res
    pairs = adjacency(mp, desc)
    for name, r in schemes(ctx, rng, kind):
        if not ctx.begin("mesh:%d:%s" % (i, name)):
            continue
        W = dict(mesh=desc, params=int(mp.params))
        params = {k: v for k, v in vars(r).items() if isinstance(v, (int, float))}
        if name in ("GaussianKernel", "ExponentialKernel"):
            sc, V, d = kernel_scale(rng, mp, name)
            r.scale = sc
            params["scale"] = sc
            cov = np.exp(-d ** 2 / (2 * sc ** 2)) if name == "GaussianKernel" else np.exp(-d / sc)
            if np.linalg.cond(cov + 1e-8 * np.eye(len(V))) > 1e6:
                ctx.skipped["kernel:cond(covariance)>1e6"] += 1
                continue
        W["scheme_params"] = params
        if name.endswith("Split"):
            # the split schemes need the Voronoi cell areas; scipy/qhull may refuse a vertex set (documented: any qhull failure is
            # turned into MeshException so that callers can discard the mesh) - such meshes are outside the domain
            try:
                mp.source_plane_mesh_grid.voronoi
            except ctx.aa.exc.MeshException:
                ctx.skipped["split_scheme:MeshException_from_qhull(mesh_discarded_by_design)"] += 1
                continue
        Hm = check_matrix(ctx, name, r, mp, desc, rng, pairs, W)
        if Hm is None:
            continue
        offdiag = bool(np.abs(Hm - np.diag(np.diag(Hm))).max() > 0)
        ctx.case(name, sorted(params.items()), _np(mp.source_plane_mesh_grid), nontrivial=(int(mp.params) >= 4 and offdiag),
                 cls=["scheme:" + name, "mesh:" + kind + ("_lattice_vertices" if desc.get("lattice") else "") + ("_repeated_vertex" if desc.get("repeated_vertex") else "")] + (["source_plane_far_from_origin"] if far else []) + (["nonsquare_mesh"] if kind == "rect" and desc["shape"][0] != desc["shape"][1] else []),
                 sample=lambda: {"scheme": name, "params": params, "mesh": desc["shape"] if kind == "rect" else "delaunay %d vertices" % len(desc["vertices"]),
                                 "min_eig": float(np.linalg.eigvalsh((Hm + Hm.T) / 2).min())})


def run_large_kernel(ctx, i):
    """Kernel schemes on meshes many correlation lengths across (up to 16x14 = 224 pixels), where a covariance that is not a
    positive-definite function (e.g. a truncated Gaussian) loses definiteness. The covariance is ill-conditioned there
    (cond up to ~2e10, bounded by the 1e-8 ridge), so the claim is the noise-floor-aware one: min eig(H) >= -n*u*cond(C)*lambda_max(H); the strict PD claim
    is kept for cond(C) <= 1e6."""
    aa = ctx.aa
    rng = gen.rng_for(ctx.seed, NO, 3, i)
    if not ctx.begin("large_kernel:%d" % i):
        return
    shape = (int(rng.integers(9, 17)), int(rng.integers(9, 15)))
    sp = float(rng.uniform(0.3, 1.2))
    yy, xx = np.mgrid[0:shape[0], 0:shape[1]]
    src = np.stack([yy.ravel() * sp * 1.07, xx.ravel() * sp], axis=1) + 0.01 * rng.normal(size=(shape[0] * shape[1], 2))
    mesh = aa.Mesh2DRectangular.overlay_grid(shape_native=shape, grid=aa.Grid2DIrregular(values=src))

    class Obj:
        pass
    lo = Obj()
    lo.source_plane_mesh_grid = mesh
    lo.params = shape[0] * shape[1]
    V = _np(mesh).astype(float)
    d = np.sqrt(((V[:, None, :] - V[None, :, :]) ** 2).sum(-1))
    spacing = float(np.min(d[d > 0]))
    for name in ("GaussianKernel", "ExponentialKernel"):
        f = float(rng.uniform(1.0, 1.6)) if name == "GaussianKernel" else float(rng.uniform(1.0, 4.0))
        if name == "GaussianKernel" and i % 3 == 2:
            # pixels packed much closer than the correlation length: the covariance is numerically singular without its 1e-8
            # ridge (with it cond(C) <= n/1e-8 ~ 2e10); the noise-floor-aware claims below still separate a lost ridge
            # (asymmetry / negative eigenvalues of order one) from rounding (~ n*u*cond)
            f = float(rng.uniform(1.6, 4.0))
        sc = f * spacing
        coef = logu(rng, 0.1, 10.0)
        r = getattr(aa.reg, name)(coefficient=coef, scale=sc)
        cov = (np.exp(-d ** 2 / (2 * sc ** 2)) if name == "GaussianKernel" else np.exp(-d / sc)) + 1e-8 * np.eye(len(V))
        cond = float(np.linalg.cond(cov))
        W = dict(mesh={"kind": "rect", "shape": shape}, scheme_params={"coefficient": coef, "scale": sc, "scale_in_pixel_spacings": f}, cond_covariance=cond)
        if cond > 1e11:
            ctx.skipped["kernel:cond(covariance)>1e11"] += 1
            continue
        ok, Hm = ctx.guarded("matrix.construct", lambda: _np(r.regularization_matrix_from(linear_obj=lo)).astype(float))
        if not ok:
            continue
        P = lo.params
        ctx.check(Hm.shape == (P, P) and np.isfinite(Hm).all(), "shape", scheme=name, got=Hm.shape, **W)
        if Hm.shape != (P, P) or not np.isfinite(Hm).all():
            continue
        scH = float(np.abs(Hm).max())
        floor = P * 2.2e-16 * cond
        ctx.check(float(np.abs(Hm - Hm.T).max()) <= max(1e-10, floor) * scH, "symmetric", scheme=name, maxdiff=float(np.abs(Hm - Hm.T).max()), scale=scH, **W)
        ev = np.linalg.eigvalsh((Hm + Hm.T) / 2)
        if cond <= 1e6:
            try:
                np.linalg.cholesky(Hm)
                chol = True
            except np.linalg.LinAlgError:
                chol = False
            ctx.check(ev.min() > 0 and chol, "pd", scheme=name, min_eig=float(ev.min()), cholesky=chol, **W)
        ctx.check(ev.min() >= -max(1e-10, floor) * float(ev.max()), "psd", scheme=name, min_eig=float(ev.min()), max_eig=float(ev.max()), noise_floor=floor, **W)
        # the kernel schemes depend on distances only: the same mesh 1e6 units away gives the same matrix, up to the rounding of the
        # coordinates (u * 1e6 relative to the spacing, amplified by cond(C)); a distance formula that cancels catastrophically at
        # large coordinates is 1e6 times worse
        if i % 2 == 0 and cond <= 1e7:
            off = np.array([1.0e6, -7.0e5])
            lo2 = Obj()
            lo2.source_plane_mesh_grid = aa.Mesh2DRectangular.overlay_grid(shape_native=shape, grid=aa.Grid2DIrregular(values=src + off))
            lo2.params = lo.params
            ok2, H2 = ctx.guarded("matrix.construct", lambda: _np(r.regularization_matrix_from(linear_obj=lo2)).astype(float))
            if ok2 and H2.shape == Hm.shape:
                rel = float(np.abs(H2 - Hm).max() / scH)
                ctx.check(rel <= 1e-7 * max(cond, 10.0), "kernel.translation_invariant", scheme=name, relative_difference=rel, allowed=1e-7 * max(cond, 10.0),
                          offset=off, **W)
        ctx.case("large", name, shape, sc, coef, V, nontrivial=True, cls=["scheme:" + name, "mesh:rect_large", "cond(C):1e%d" % int(np.floor(np.log10(cond)))],
                 sample=lambda: {"scheme": name, "mesh": shape, "scale_in_pixel_spacings": f, "cond_covariance": cond, "min_eig": float(ev.min())})


def run_funclist(ctx, i):
    """Linear function lists as the regularized object (their parameters neighbour one another in a chain k - k+1), from the
    smallest size - ONE parameter, no neighbour at all - upwards, for the schemes that need nothing but the neighbour structure."""
    aa = ctx.aa
    rng = gen.rng_for(ctx.seed, NO, 4, i)
    P = (1, 2, 3, 1, 5, 8)[i % 6]
    mask = aa.Mask2D.all_false(shape_native=(3, 4), pixel_scales=1.0)
    Func = gen_aa.func_list_class(aa)
    obj = Func(grid=aa.Grid2D.from_mask(mask=mask), M=rng.random((12, P)) + 0.1)
    pairs = {(k, k + 1) for k in range(P - 1)}
    desc = {"kind": "function_list", "params": P}
    reg = aa.reg
    for name, r in (("Constant", reg.Constant(coefficient=logu(rng, 0.01, 100.0))),
                    ("ConstantZeroth", reg.ConstantZeroth(coefficient_neighbor=logu(rng, 0.01, 100.0), coefficient_zeroth=logu(rng, 0.01, 100.0))),
                    ("Zeroth", reg.Zeroth(coefficient=logu(rng, 0.01, 100.0)))):
        if not ctx.begin("funclist:%d:%s" % (i, name)):
            continue
        W = dict(mesh=desc, params=P, scheme_params={k: v for k, v in vars(r).items() if isinstance(v, (int, float))})
        Hm = check_matrix(ctx, name, r, obj, desc, rng, pairs, W)
        if Hm is None:
            continue
        # the same object inside an inversion: its block is this matrix
        obj.regularization = r
        ctx.case("funclist", name, P, sorted(W["scheme_params"].items()), nontrivial=True, cls=["scheme:" + name, "object:function_list", "params:%d" % P],
                 sample=lambda: {"scheme": name, "object": "function list", "params": P, "min_eig": float(np.linalg.eigvalsh((Hm + Hm.T) / 2).min())})


def run_blocks(ctx, i):
    aa = ctx.aa
    rng = gen.rng_for(ctx.seed, NO, 2, i)
    if not ctx.begin("blocks:%d" % i):
        return
    case = gen_aa.imaging_case(aa, rng, kshapes=(1, 3), max_unmasked=25)

    def regf(r):
        return [aa.reg.Constant(coefficient=logu(r, 0.05, 20)), aa.reg.ConstantZeroth(coefficient_neighbor=logu(r, 0.05, 20), coefficient_zeroth=logu(r, 0.05, 20)),
                aa.reg.Zeroth(coefficient=logu(r, 0.05, 20))][int(r.integers(3))]

    shared = regf(rng) if i % 3 == 0 else None
    # every 3rd case: ONE regularization instance shared by all regularized mappers (a linked model component); each block is
    # still that scheme's matrix for the block's own mesh
    objs, desc = gen_aa.linear_objects(aa, rng, case, nobj=int(rng.integers(2, 4)), allow_unregularized=True,
                                       reg_factory=(lambda r: shared) if shared is not None else regf)
    W = dict(objects=desc, shared_regularization_instance=shared is not None)
    if shared is not None:
        ctx.classes["blocks:one_regularization_instance_shared_by_the_mappers"] += 1
    sizes = [int(o.params) for o in objs]
    offs = np.concatenate([[0], np.cumsum(sizes)])
    own = [None if o.regularization is None else _np(o.regularization.regularization_matrix_from(linear_obj=o)).astype(float) for o in objs]

    def expected(order):
        n = sum(sizes)
        E = np.zeros((n, n))
        c = 0
        for j in order:
            if own[j] is not None:
                E[c:c + sizes[j], c:c + sizes[j]] = own[j]
            c += sizes[j]
        return E

    st = aa.SettingsInversion(use_w_tilde=False, use_positive_only_solver=False, no_regularization_add_to_curvature_diag_value=1e-3)
    ident = list(range(len(objs)))
    orders = [ident] + ([list(p) for p in itertools.permutations(ident) if list(p) != ident][:2])
    for order in orders:
        ok, inv = ctx.guarded("blocks", lambda: aa.Inversion(dataset=case["ds"], linear_obj_list=[objs[j] for j in order], settings=st))
        if not ok:
            continue
        if not any(own[j] is not None for j in order):
            ctx.skipped["blocks:no_regularized_object"] += 1
            continue
        ok, Hm = ctx.guarded("blocks", lambda: _np(inv.regularization_matrix).astype(float))
        if not ok:
            continue
        E = expected(order)
        ctx.check(Hm.shape == E.shape and np.array_equal(Hm, E), "blocks" if order == ident else "blocks.permuted", order=order, got=Hm, expected=E, **W)
        keep = np.concatenate([np.arange(sum(sizes[q] for q in order[:k]), sum(sizes[q] for q in order[:k + 1])) for k, j in enumerate(order) if own[j] is not None]).astype(int)
        ok, Hr = ctx.guarded("blocks.reduced", lambda: _np(inv.regularization_matrix_reduced).astype(float))
        if ok:
            Er = E[np.ix_(keep, keep)]
            ctx.check(Hr.shape == Er.shape and np.array_equal(Hr, Er), "blocks.reduced", order=order, got=Hr, expected=Er, **W)
    # an inversion of ONE linear object, with and without a regularization: its regularization matrix is that object's own matrix,
    # or the all-zero block of its size
    for j in (0, len(objs) - 1):
        ok, Hs = ctx.guarded("blocks.single_object", lambda: _np(aa.Inversion(dataset=case["ds"], linear_obj_list=[objs[j]], settings=st).regularization_matrix).astype(float))
        if ok:
            Es = own[j] if own[j] is not None else np.zeros((sizes[j], sizes[j]))
            ctx.check(Hs.shape == Es.shape and np.array_equal(Hs, Es), "blocks.single_object", object=desc[j], got=Hs, expected=Es)
    # the regularization matrix handed on through the library's own preload producer (two fits of identical inputs): a later
    # inversion that takes it from there still reports the all-zero blocks and the object order
    if any(o is not None for o in own):
        class FitLike:
            def __init__(self, inv_):
                self.inversion = inv_
        try:
            i0 = aa.Inversion(dataset=case["ds"], linear_obj_list=objs, settings=st)
            i1 = aa.Inversion(dataset=case["ds"], linear_obj_list=objs, settings=st)
            pre = aa.Preloads()
            pre.set_regularization_matrix_and_term(FitLike(i0), FitLike(i1))
            filled = pre.regularization_matrix is not None
        except Exception as e:
            filled = False
            ctx.skipped["blocks.via_preload_producer:producer_raised_" + type(e).__name__] += 1
        if filled:
            ok, got = ctx.guarded("blocks.via_preload_producer", lambda: (lambda v: (_np(v.regularization_matrix).astype(float), _np(v.regularization_matrix_reduced).astype(float)))(
                aa.Inversion(dataset=case["ds"], linear_obj_list=objs, settings=st, preloads=pre)))
            if ok:
                E = expected(ident)
                keep = np.concatenate([np.arange(offs[j], offs[j + 1]) for j in ident if own[j] is not None]).astype(int)
                ctx.check(got[0].shape == E.shape and np.array_equal(got[0], E) and got[1].shape == (len(keep), len(keep)) and np.array_equal(got[1], E[np.ix_(keep, keep)]),
                          "blocks.via_preload_producer", got=got[0], expected=E, got_reduced_shape=got[1].shape, **W)
    ctx.case("blocks", [d["kind"] for d in desc], [d["regularized"] for d in desc], case["m"], *[o for o in own if o is not None],
             nontrivial=any(o is None for o in own) or len(objs) > 1,
             cls=["blocks:nobj=%d" % len(objs)] + (["blocks:has_unregularized"] if any(o is None for o in own) else []),
             sample=lambda: {"objects": desc, "sizes": sizes})


def run_unit(ctx, u):
    for i in range(u["start"], u["stop"]):
        {"mesh": run_mesh, "blocks": run_blocks, "large": run_large_kernel, "funclist": run_funclist}[u["kind"]](ctx, i)
