"""Writes evidence/<id>.json (EVIDENCE.schema.json) from what the monitors observed in this run."""
import json
import os

from harness import env

COMMON_ASSUMPTIONS = [
    "A1: numba is absent, so the un-jitted pure-Python path of every @numba_util.jit function is what was observed; a numba build could differ",
    "A2: NumPy, SciPy and astropy are trusted as libraries but never used as the only oracle for the quantity under test",
    "decides only the executions produced: bounded enumeration / seeded stratified generation, not a proof",
]


def write(mod, pid, tier, seed, m, wall, verdict, nviol, known_lines, inconclusive):
    cov = {
        "evaluations": int(m["evaluations"]),
        "distinct_nontrivial": int(len(m["distinct"])),
        "rule": getattr(mod, "RULE", ""),
        "samples": m["samples"] if m["samples"] else [{"note": "no sample recorded"}],
        "exhaustive": bool(getattr(mod, "EXHAUSTIVE", {}).get(tier, False)),
        "verdict": verdict,
        "monitor_evaluations": dict(sorted(m["monitors"].items())),
        "monitor_evaluations_total": int(sum(m["monitors"].values())),
        "monitors_fired": int(m["nfired"]),
        "fired_by_monitor": dict(sorted(m.get("fired_by_monitor", {}).items())),
        "input_classes_seen": dict(sorted(m["classes"].items())),
        "skipped_or_dont_care": dict(sorted(m["skipped"].items())),
        "anchor_reach": dict(sorted(m["reach"].items())),
        "known_findings_matched": known_lines,
        "inconclusive_reasons": [str(x)[:500] for x in inconclusive],
        "notes": m["notes"],
        "bounds": getattr(mod, "BOUNDS", {}).get(tier, ""),
        "repo": env.REPO,
    }
    ev = {
        "property_id": pid,
        "tier": tier,
        "seed": int(seed),
        "level": "exploration",
        "coverage": cov,
        "assumptions": COMMON_ASSUMPTIONS + list(getattr(mod, "ASSUMPTIONS", [])),
        "wall_s": round(float(wall), 2),
        "violations": int(nviol),
    }
    d = os.path.join(env.OUT, "evidence")
    os.makedirs(d, exist_ok=True)
    tmp = os.path.join(d, pid + ".json.tmp")
    with open(tmp, "w") as f:
        json.dump(ev, f, indent=1, sort_keys=False)
    os.replace(tmp, os.path.join(d, pid + ".json"))
