#!/bin/bash
# Re-confirms every kept seeded change against the current /repo HEAD and the current checks (scratch worktrees under /tmp/verif_mut,
# removed by seed_eval.py). usage: tools/seed_reeval_all.sh [parallelism] ; prints one line per seeded change.
P=${1:-3}
cd /verif
ls -d seeded/C??_? | sed 's#seeded/##' | xargs -P "$P" -I{} bash -c 'x={}; id=${x%_*}; l=${x#*_}; r=$(timeout 2400 /venv/bin/python tools/seed_eval.py $id $l 2>&1 | tail -2 | tr "\n" " " | cut -c1-300); echo "$x $r"'
