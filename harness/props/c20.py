"""
C20 - triangle up-sampling tiles exactly; neighbourhoods and selections are faithful.

Workload: seeded triangle sets in both representations -
  * CoordinateArrayTriangles on arbitrary integer coordinate sets (1..9 triangles; clustered so that edges/vertices are
    shared, scattered, negative coordinates; lattice parity (x+y)%2 all-even / all-odd / mixed), side lengths
    0.05..20, x/y offsets 0 / O(side) / O(100), flipped False and True, up-sampled repeatedly to depth 3 (every
    up-sampled level has flipped=True and a shifted y offset, so the neighbourhood / selection / containment laws are
    re-checked on every level),
  * the ArrayTriangles twin of every such set (indices/vertices of the coordinate representation) through the same
    laws, and ArrayTriangles.for_limits_and_scale / CoordinateArrayTriangles.for_limits_and_scale sets.
Oracle (own reference on the plain (n,3,2) vertex arrays, nothing of the repository's code):
  * midpoint subdivision: parent (a,b,c) -> (a,mab,mca),(b,mbc,mab),(c,mca,mbc),(mab,mbc,mca);
  * edge reflection: the *mirror image* of the opposite vertex in the line of each edge (not b+c-a);
  * triangles are compared as (multi)sets of sorted vertex triples after snapping coordinates that agree to
    1e-9*max(1,|v|max) onto common integer labels (joint clustering, so no rounding-boundary artefacts);
  * count x4, total area conserved (own shoelace and the objects' own `.area`, rtol 1e-9), every child a quarter of
    its parent, every original vertex still a vertex; for_indexes = the selected triangles (multiset);
    with_vertices(M v + t) = the affine image of the set; ArrayTriangles(indices, vertices) of a coordinate set = the
    same triangles; containing_indices(shape) reports every triangle whose own barycentric coordinates of the shape's
    reference point are all >= 1e-9 (one direction only, as the statement says) for Point / Circle / Square / Polygon.
Contracts (icontract) with the same references sit on ArrayTriangles.up_sample / neighborhood / for_indexes,
CoordinateArrayTriangles.up_sample / neighborhood / for_indexes and shape.Point.mask (reached by every shape through
super().mask), so internal calls are judged too.

Validated against (tools/mutant.py, 2026-10-03). DESIGN's four seeded breaks are all caught by the quick tier but are
NOT suite-green (the repository's literal-vertex tests on the (0,0)/(1,0) unit triangles kill them as well):
  m20a flipped-parity child offset [1,1]->[1,0]; m20b y_offset sign; m20c neighbour (0,-1)/(0,1) swapped;
  m20d np.unique without axis=0 in CoordinateArrayTriangles.neighborhood (raises -> reported as a violation, not as
  inconclusive: results are materialised inside ctx.guarded).
Suite-green mutants (699/699), each caught by the QUICK tier - each needs a state the suite never builds:
  m20e up_sample passes flipped=not self.flipped      (needs a flipped parent: second level / flipped=True input)
                                                      -> contract CoordinateArrayTriangles.up_sample, coord:upsample.*
  m20f neighborhood() drops flipped=self.flipped      (needs flipped=True)   -> coord:neighborhood.set + contract
  m20g for_indexes() drops y_offset                   (needs y_offset != 0)  -> coord:for_indexes.same_triangles + contract
  m20j up_sample y-shift -0.25*HEIGHT_FACTOR without *side_length (needs side_length != 1) -> coord:upsample.children
  m20k Square.mask without `| super().mask()`         (needs a square smaller than the triangle) -> *:contains.square
  m20m Polygon.mask without `| super().mask()`        (inner fan triangles read vertices as (y,x))  -> *:contains.polygon
Also caught, not suite-green: Circle.mask without the point term (m20l), flip parity via fmod(...)==1 (m20i, negative odd
sums), coordinate `.area` linear in side_length (m20p).
"""
import numpy as np

from harness import env, gen
from harness.monitors import contracts

ID = "C20"
NO = 20
RULE = ("seeded coordinate sets: n=1..9 integer (x,y) coordinates drawn clustered / scattered / single-parity, side length "
        "log-uniform 0.05..20 (every 6th set: 3e-6..1e-3), offsets from {0, N(0,side), U(-100,100)}, flipped in {False,True}; each set is checked at "
        "depth 0..3 of repeated up-sampling in both representations; plus for_limits_and_scale sets of both classes. A "
        "case = one generated set with all its levels; distinct = hash of (kind, coordinates, side, offsets, flipped | "
        "limits, scale); non-trivial = at least two triangles (single triangles are run but counted trivial)")
BOUNDS = {"quick": "480 coordinate sets x depth 0..3 x 2 representations + 96 for_limits_and_scale sets (depth 0..2) + 60 vertex-array sets given directly (integer / float typed); per level "
                   "3 reference points x 4 shape kinds",
          "thorough": "8000 coordinate sets x depth 0..3 x 2 representations + 1280 for_limits_and_scale sets (depth 0..2); per "
                      "level 6 (coordinate sets) / 3 reference points x 4 shape kinds"}
EXHAUSTIVE = {"quick": False, "thorough": False}
ASSUMPTIONS = [
    "'exactly tile' is decided against the midpoint subdivision (the documented construction); another partition into four "
    "quarter-area triangles would be reported",
    "all generated sets are equilateral (lattice / limits-and-scale constructions), for which the mirror image across an edge "
    "is the statement's edge-reflected neighbour",
    "coincident vertices: coordinates closer than 1e-9*max(1,|v|max) are the same vertex; areas rtol 1e-9",
    "containment is one-directional: triangles whose barycentric margin of the reference point is >= 1e-9 must be reported; "
    "points closer to an edge are don't-care; extra reported triangles are not a violation",
    "a shape's reference point is (shape.x, shape.y) read against vertex columns (0, 1), the convention of shape.mask",
    "JAX variants are out of scope (jax absent)",
]
QUICK_JOBS = 8
DEPTH = 3
MARGIN = 1e-9

_CONTRACTS = ["contract:ArrayTriangles.up_sample", "contract:ArrayTriangles.neighborhood", "contract:ArrayTriangles.for_indexes",
              "contract:CoordinateArrayTriangles.up_sample", "contract:CoordinateArrayTriangles.neighborhood",
              "contract:CoordinateArrayTriangles.for_indexes", "contract:Point.mask"]
_DIRECT = ["upsample.children", "upsample.count", "upsample.area", "upsample.quarter_area", "upsample.vertices_kept",
           "neighborhood.set", "for_indexes.same_triangles", "with_vertices.affine_image", "representations.agree",
           "area.matches_geometry", "contains.point", "contains.circle", "contains.square", "contains.polygon"]
MIN_MONITORS = {"*": dict({c: 1 for c in _CONTRACTS},
                          **{"%s:%s" % (rep, m): 1 for rep in ("coord", "array") for m in _DIRECT if m != "representations.agree"},
                          **{"coord:representations.agree": 1, "limits_array:upsample.children": 1,
                             "limits_coord:upsample.children": 1, "limits_array:neighborhood.set": 1,
                             "limits_coord:neighborhood.set": 1})}


def plan(tier, seed):
    n = 480 if tier == "quick" else 8000
    m = 96 if tier == "quick" else 1280
    units = []
    step = 10
    for s in range(0, n, step):
        units.append({"kind": "coord", "start": s, "stop": min(n, s + step), "w": step * 1.0})
    for s in range(0, m, 4):
        units.append({"kind": "limits", "start": s, "stop": min(m, s + 4), "w": 4 * 2.0})
    k = 60 if tier == "quick" else 1000
    for s in range(0, k, 10):
        units.append({"kind": "intarr", "start": s, "stop": min(k, s + 10), "w": 10.0})
    if tier == "thorough":
        units.append({"kind": "suite", "w": 10 ** 7})   # the repository's own tests with the contracts installed (DESIGN 1.5)
    return units


# ------------------------------------------------------------------------------ reference model (plain numpy on (n,3,2))
def tri(T):
    return np.asarray(T.triangles, dtype=float)


def areas(tr):
    a, b, c = tr[:, 0], tr[:, 1], tr[:, 2]
    u, v = b - a, c - a
    return 0.5 * np.abs(u[:, 0] * v[:, 1] - u[:, 1] * v[:, 0])


def rt_of(tr):
    """Relative tolerance for areas / barycentric margins of a set: 1e-9, or what the float64 vertex arrays themselves can resolve when
    the set lies far from the origin compared with its triangle size (coordinate rounding u*|v|max relative to the size)."""
    size = float(np.sqrt(max(float(areas(tr).mean()), 1e-300)))
    return max(1e-9, 1e3 * 2.2e-16 * float(np.max(np.abs(tr))) / size)


def ref_up(tr):
    """Midpoint subdivision of every parent (a,b,c): three corner children and the medial triangle."""
    a, b, c = tr[:, 0], tr[:, 1], tr[:, 2]
    mab, mbc, mca = (a + b) / 2.0, (b + c) / 2.0, (c + a) / 2.0
    kids = [np.stack([a, mab, mca], axis=1), np.stack([b, mbc, mab], axis=1), np.stack([c, mca, mbc], axis=1),
            np.stack([mab, mbc, mca], axis=1)]
    return np.concatenate(kids, axis=0)


def mirror(p, q, r):
    """Mirror images of the points p (n,2) in the lines through q and r (n,2)."""
    d = r - q
    t = ((p - q) * d).sum(axis=1) / (d * d).sum(axis=1)
    foot = q + t[:, None] * d
    return 2.0 * foot - p


def ref_nb(tr):
    """Every triangle together with its three edge-reflected neighbours (opposite vertex mirrored in the edge's line)."""
    a, b, c = tr[:, 0], tr[:, 1], tr[:, 2]
    return np.concatenate([tr, np.stack([mirror(a, b, c), b, c], axis=1), np.stack([a, mirror(b, c, a), c], axis=1),
                           np.stack([a, b, mirror(c, a, b)], axis=1)], axis=0)


def edge_reflection_defined(tr):
    """The statement's "edge-reflected neighbour" and the parallelogram completion b + c - a used by lattice code coincide only
    for triangles symmetric about every edge's perpendicular bisector (the equilateral lattice triangles of the quantifier).
    For arbitrary user-given triangles the law is not claimed."""
    a, b, c = tr[:, 0], tr[:, 1], tr[:, 2]
    size = float(np.sqrt(max(areas(tr).mean(), 1e-300)))
    d = max(np.abs(mirror(a, b, c) - (b + c - a)).max(), np.abs(mirror(b, c, a) - (c + a - b)).max(),
            np.abs(mirror(c, a, b) - (a + b - c)).max())
    return bool(d <= 1e-6 * size)


def vertex_keys(point_arrays, tol):
    """Jointly snap the coordinates of several (m,2) point arrays onto integer labels (values that agree to `tol` along
    an axis get the same label); returns one int64 key per point, per input array."""
    flat = np.concatenate(point_arrays, axis=0)
    ids = []
    for ax in (0, 1):
        v = flat[:, ax]
        order = np.argsort(v, kind="stable")
        grp = np.concatenate([[0], np.cumsum(np.diff(v[order]) > tol)]) if len(v) else np.zeros(0, dtype=np.int64)
        lab = np.empty(len(v), dtype=np.int64)
        lab[order] = grp
        ids.append(lab)
    key = ids[0] * (int(ids[1].max()) + 1 if len(flat) else 1) + ids[1]
    out, pos = [], 0
    for a in point_arrays:
        out.append(key[pos:pos + a.shape[0]])
        pos += a.shape[0]
    return out


def labels(arrays, tol):
    """Per (n,3,2) array: (n,3) sorted vertex-label triples, rows in lexicographic order."""
    keys = vertex_keys([a.reshape(-1, 2) for a in arrays], tol)
    out = []
    for a, k in zip(arrays, keys):
        k = np.sort(k.reshape(a.shape[0], 3), axis=1)
        out.append(k[np.lexsort((k[:, 2], k[:, 1], k[:, 0]))] if k.shape[0] else k)
    return out


def tol_of(*arrays):
    m = max([1.0] + [float(np.max(np.abs(a))) for a in arrays if a.size])
    return 1e-9 * m


def same_multiset(A, B):
    if A.shape[0] != B.shape[0]:
        return False
    la, lb = labels([A, B], tol_of(A, B))
    return bool(np.array_equal(la, lb))


def same_set(A, B):
    la, lb = labels([A, B], tol_of(A, B))
    ua, ub = np.unique(la, axis=0), np.unique(lb, axis=0)
    return ua.shape == ub.shape and bool(np.array_equal(ua, ub))


def bary(tr, p):
    """Own barycentric coordinates of point p for every triangle (n,3)."""
    a, b, c = tr[:, 0], tr[:, 1], tr[:, 2]
    det = (b[:, 0] - a[:, 0]) * (c[:, 1] - a[:, 1]) - (c[:, 0] - a[:, 0]) * (b[:, 1] - a[:, 1])
    with np.errstate(all="ignore"):
        wb = ((p[0] - a[:, 0]) * (c[:, 1] - a[:, 1]) - (c[:, 0] - a[:, 0]) * (p[1] - a[:, 1])) / det
        wc = ((b[:, 0] - a[:, 0]) * (p[1] - a[:, 1]) - (p[0] - a[:, 0]) * (b[:, 1] - a[:, 1])) / det
    return np.stack([1.0 - wb - wc, wb, wc], axis=1)


def vertices_kept(orig_tr, new_points):
    """Every vertex of the original triangles coincides (to tolerance) with one of `new_points` (m,2)."""
    ov = orig_tr.reshape(-1, 2)
    nv = np.asarray(new_points, dtype=float).reshape(-1, 2)
    if nv.shape[0] == 0:
        return ov.shape[0] == 0
    ko, kn = vertex_keys([ov, nv], tol_of(ov, nv))
    return bool(np.isin(ko, kn).all())


def quarter_children(parent_tr, child_tr):
    """Every child has a quarter of *its* parent's area: equilateral sets share one area, so compare the sorted areas."""
    pa, ca = np.sort(areas(parent_tr)), np.sort(areas(child_tr))
    if ca.shape[0] != 4 * pa.shape[0]:
        return False
    return bool(np.allclose(ca, np.repeat(pa / 4.0, 4), rtol=rt_of(parent_tr), atol=0.0))


# ------------------------------------------------------------------------------ contracts
def _finite(tr):
    return tr.ndim == 3 and tr.shape[1:] == (3, 2) and tr.shape[0] > 0 and np.isfinite(tr).all()


def post_up(ctx, a, result, old):
    tr = tri(a["self"])
    if not _finite(tr) or tr.shape[0] > 4000:
        return None
    got = tri(result)
    return (same_multiset(got, ref_up(tr)), {"parents": tr, "got_children": got})


def post_nb(ctx, a, result, old):
    tr = tri(a["self"])
    if not _finite(tr) or tr.shape[0] > 4000:
        return None
    if not edge_reflection_defined(tr):
        return None
    got = tri(result)
    return (same_set(got, ref_nb(tr)), {"triangles": tr, "got_neighbourhood": got})


def post_for_indexes(ctx, a, result, old):
    tr = tri(a["self"])
    idx = np.asarray(a["indexes"])
    if not _finite(tr) or idx.ndim != 1 or idx.size == 0 or idx.dtype.kind not in "iu":
        return None
    got = tri(result)
    return (same_multiset(got, tr[idx]), {"triangles": tr, "indexes": idx, "got": got})


def post_point_mask(ctx, a, result, old):
    sh, tr = a["self"], np.asarray(a["triangles"], dtype=float)
    if not _finite(tr):
        return None
    p = (float(sh.x), float(sh.y))
    if not np.isfinite(p).all():
        return None
    must = bary(tr, p).min(axis=1) >= max(MARGIN, rt_of(tr))
    res = np.asarray(result).astype(bool)
    ok = res.shape == must.shape and bool(res[must].all())
    return (ok, {"point": p, "shape": type(sh).__name__, "missed": lambda: tr[must & ~res][:4]})


def setup(ctx):
    ctx.aa = env.boot("base")
    from autoarray.structures.triangles.array import ArrayTriangles
    from autoarray.structures.triangles.coordinate_array import CoordinateArrayTriangles
    from autoarray.structures.triangles import shape as shape_mod
    ctx.AT, ctx.CT, ctx.sh = ArrayTriangles, CoordinateArrayTriangles, shape_mod
    install_contracts(ctx)


def install_contracts(ctx):
    """Also used by harness/suite_plugin.py (the repository's own tests drive the contracts in the thorough tier)."""
    from autoarray.structures.triangles.array import ArrayTriangles
    from autoarray.structures.triangles.coordinate_array import CoordinateArrayTriangles
    from autoarray.structures.triangles import shape as shape_mod
    for cls in (ArrayTriangles, CoordinateArrayTriangles):
        contracts.attach(ctx, cls, "up_sample", post_up)
        contracts.attach(ctx, cls, "neighborhood", post_nb)
        contracts.attach(ctx, cls, "for_indexes", post_for_indexes)
    contracts.attach(ctx, shape_mod.Point, "mask", post_point_mask)


def teardown(ctx):
    contracts.detach_all()


# ------------------------------------------------------------------------------ laws on one set
def weights(rng, kind):
    """Barycentric weights with every component >= 2*MARGIN (interior / close to an edge / close to a vertex)."""
    if kind == "interior":
        w = rng.dirichlet([2.0, 2.0, 2.0])
        w = np.maximum(w, 1e-3)
    elif kind == "near_edge":
        e = 2 * MARGIN * float(np.exp(rng.uniform(0, np.log(1e4))))
        u = rng.uniform(0.05, 0.95)
        w = np.array([e, (1 - e) * u, (1 - e) * (1 - u)])
    else:  # near_vertex
        e1 = 2 * MARGIN * float(np.exp(rng.uniform(0, np.log(1e4))))
        e2 = 2 * MARGIN * float(np.exp(rng.uniform(0, np.log(1e4))))
        w = np.array([e1, e2, 1 - e1 - e2])
    w = w / w.sum()
    return w[rng.permutation(3)]


def check_containment(ctx, pre, T, tr, rng, npoints):
    sh = ctx.sh
    n = tr.shape[0]
    size = float(np.sqrt(areas(tr).mean()))
    for j in range(npoints):
        k = int(rng.integers(n))
        kind = ("interior", "near_edge", "near_vertex")[j % 3]
        w = weights(rng, kind)
        p = (w[:, None] * tr[k]).sum(axis=0)
        shapes = []
        shapes.append(("point", sh.Point(float(p[0]), float(p[1]))))
        r = float(size * np.exp(rng.uniform(np.log(1e-9), np.log(3.0))))
        shapes.append(("circle", sh.Circle(float(p[0]), float(p[1]), radius=r)))
        hw, hh = float(size * np.exp(rng.uniform(np.log(1e-9), np.log(3.0)))), float(size * np.exp(rng.uniform(np.log(1e-9), np.log(3.0))))
        shapes.append(("square", sh.Square(top=float(p[1]) - hh, bottom=float(p[1]) + hh, left=float(p[0]) - hw, right=float(p[0]) + hw)))
        m = int(rng.integers(3, 7))
        d = rng.normal(size=(m, 2)) * size * float(np.exp(rng.uniform(np.log(1e-6), np.log(2.0))))
        d -= d.mean(axis=0)
        shapes.append(("polygon", sh.Polygon([(float(p[0] + dx), float(p[1] + dy)) for dx, dy in d])))
        # a triangle-shaped source region (vertices in the (x, y) order of every other shape): its reference point is the mean of its
        # vertices, as for the polygon with the same three vertices
        tv = [(float(p[0] + dx), float(p[1] + dy)) for dx, dy in (d[:3] - d[:3].mean(axis=0))]
        tshape = sh.Triangle(*tv)
        pshape = sh.Polygon(list(tv))
        tmean = (float(np.mean([q[0] for q in tv])), float(np.mean([q[1] for q in tv])))
        ctx.check(abs(float(tshape.x) - tmean[0]) <= 1e-12 * (1 + abs(tmean[0])) and abs(float(tshape.y) - tmean[1]) <= 1e-12 * (1 + abs(tmean[1]))
                  and abs(float(pshape.x) - float(tshape.x)) <= 1e-12 * (1 + abs(tmean[0])) and abs(float(pshape.y) - float(tshape.y)) <= 1e-12 * (1 + abs(tmean[1])),
                  pre + ":shape.reference_point_is_vertex_mean", vertices_xy=tv, vertex_mean=tmean, triangle_reference=(float(tshape.x), float(tshape.y)),
                  polygon_reference=(float(pshape.x), float(pshape.y)))
        shapes.append(("triangle", tshape))
        for name, shape in shapes:
            ref_pt = (float(shape.x), float(shape.y))       # what the shape itself calls its reference point
            marg = bary(tr, ref_pt).min(axis=1)
            margin_eff = max(MARGIN, rt_of(tr))
            must = np.flatnonzero(marg >= margin_eff)
            if marg[k] < margin_eff:
                ctx.skipped["reference_point_inside_the_1e-9_band"] += 1
            if must.size == 0:
                continue
            ok, got = ctx.guarded("%s:contains.%s" % (pre, name), T.containing_indices, shape)
            if not ok:
                continue
            got = np.asarray(got)
            good = got.ndim == 1 and (got.size == 0 or (got.min() >= 0 and got.max() < n)) and set(must.tolist()) <= set(got.tolist())
            ctx.check(good, "%s:contains.%s" % (pre, name), triangles=tr, reference_point=ref_pt, weight_class=kind,
                      must_contain=must, margins=marg[must], reported=got)
            ctx.classes["containment_" + kind] += 1
            if name == "point" and got.size and (marg[got] < -1e-6).any():
                ctx.skipped["point_reported_for_a_triangle_not_containing_it(not_claimed)"] += 1


def check_level(ctx, pre, T, rng, npoints, deep):
    """All single-set laws for T (either representation). Returns (triangles, up-sampled object or None)."""
    ok, tr = ctx.guarded(pre + ":triangles", lambda: tri(T))
    if not ok or not _finite(tr):
        if ok:
            ctx.check(False, pre + ":triangles", got=tr)
        return None, None
    n = tr.shape[0]
    A0 = float(areas(tr).sum())
    ok, v = ctx.guarded(pre + ":area.matches_geometry", lambda: (len(T), float(T.area)))
    if ok:
        gl, ga = v
        ctx.check(gl == n and ctx.close(ga, A0, rt_of(tr), scale=max(A0, 1e-300)), pre + ":area.matches_geometry",
                  triangles=tr, own_area=A0, got_area=ga, got_len=gl)
    # --- neighbourhood (results are materialised inside the guard: their triangles are computed lazily)
    if not edge_reflection_defined(tr):
        ctx.skipped["neighbourhood_of_non_equilateral_triangles(not_claimed)"] += 1
        ok = False
    else:
        ok, nbt = ctx.guarded(pre + ":neighborhood.set", lambda: tri(T.neighborhood()))
    if ok:
        ctx.check(same_set(nbt, ref_nb(tr)), pre + ":neighborhood.set", triangles=tr, expected=lambda: ref_nb(tr), got=nbt)
    # --- selection
    size = int(rng.integers(1, n + 1))
    idx = rng.choice(n, size=size, replace=False)
    if n > 1 and rng.random() < 0.3:
        idx = np.concatenate([idx, idx[:1]])         # a repeated index selects the triangle twice
    ok, v = ctx.guarded(pre + ":for_indexes.same_triangles", lambda: (lambda S: (tri(S), len(S)))(T.for_indexes(idx)))
    if ok:
        st, sl = v
        ctx.check(same_multiset(st, tr[idx]) and sl == len(idx), pre + ":for_indexes.same_triangles", triangles=tr, indexes=idx,
                  expected=tr[idx], got=st)
    # --- the same selection with some indices counted from the end (np.arange(-k, 0), wrap-around i-1 at i = 0): NumPy's meaning
    signed = np.where(rng.random(len(idx)) < 0.5, idx - n, idx)
    signed[0] = idx[0] - n
    ok, v = ctx.guarded(pre + ":for_indexes.same_triangles", lambda: (lambda S: (tri(S), len(S)))(T.for_indexes(signed)))
    if ok:
        st, sl = v
        ctx.check(same_multiset(st, tr[signed]) and sl == len(signed), pre + ":for_indexes.same_triangles", selector="indices counted from the end",
                  triangles=tr, indexes=signed, expected=tr[signed], got=st)
    # --- the same selection handed over as a boolean mask (what Shape.mask returns): the selected triangles, in order
    bm = np.zeros(n, dtype=bool)
    bm[idx] = True
    ok, v = ctx.guarded(pre + ":for_indexes.same_triangles", lambda: (lambda S: (tri(S), len(S)))(T.for_indexes(bm)))
    if ok:
        st, sl = v
        ctx.check(same_multiset(st, tr[bm]) and sl == int(bm.sum()), pre + ":for_indexes.same_triangles", selector="boolean mask", triangles=tr, mask=bm,
                  expected=tr[bm], got=st)
    # --- with_vertices: connectivity is kept, so an affine map of the vertices maps the triangles
    M = rng.normal(size=(2, 2)) + 2.0 * np.eye(2)
    t = rng.normal(size=2)
    ok, wt = ctx.guarded(pre + ":with_vertices.affine_image", lambda: tri(T.with_vertices(np.asarray(T.vertices, dtype=float) @ M.T + t)))
    if ok:
        ctx.check(same_multiset(wt, tr @ M.T + t), pre + ":with_vertices.affine_image", triangles=tr, M=M, t=t, got=wt)
    # --- containment
    check_containment(ctx, pre, T, tr, rng, npoints)
    # --- up-sampling
    if not deep:
        return tr, None
    ok, got = ctx.guarded(pre + ":upsample.children", lambda: (lambda U: (U, tri(U), len(U), float(U.area), np.asarray(U.vertices, dtype=float)))(T.up_sample()))
    if not ok:
        return tr, None
    up, ut, ul, ua, uv = got
    exp = ref_up(tr)
    ctx.check(same_multiset(ut, exp), pre + ":upsample.children", parents=tr, expected=exp, got=ut)
    ctx.check(ul == 4 * n and ut.shape[0] == 4 * n, pre + ":upsample.count", parents=n, got_len=ul, got_triangles=ut.shape[0])
    A1 = float(areas(ut).sum())
    ctx.check(ctx.close(A1, A0, rt_of(tr), scale=max(A0, 1e-300)) and ctx.close(ua, A0, rt_of(tr), scale=max(A0, 1e-300)),
              pre + ":upsample.area", own_before=A0, own_after=A1, area_after=ua)
    ctx.check(quarter_children(tr, ut), pre + ":upsample.quarter_area", parent_areas=lambda: areas(tr), child_areas=lambda: areas(ut))
    ctx.check(vertices_kept(tr, ut) and vertices_kept(tr, uv), pre + ":upsample.vertices_kept",
              parents=tr, got_vertices=uv)
    return tr, up


def safe(fn):
    try:
        return fn()
    except Exception as e:
        return repr(e)[:200]


def run_set(ctx, pre, C, twin, rng, depth, npoints):
    """C: the set under test; twin: build the ArrayTriangles twin of coordinate sets and compare representations."""
    level, T = 0, C
    while T is not None:
        tr, up = check_level(ctx, pre, T, rng, npoints, deep=level < depth)
        if tr is None:
            break
        if twin:
            ok, v = ctx.guarded("coord:representations.agree", lambda: (lambda A: (A, tri(A)))(
                ctx.AT(indices=np.asarray(T.indices), vertices=np.asarray(T.vertices))))
            if ok:
                A, at = v
                ctx.check(same_multiset(at, tr), "coord:representations.agree", level=level, coordinate_triangles=tr, array_triangles=at)
                # the vertex-array representation of the same set obeys the same laws and yields the same children
                _, aup = check_level(ctx, "array", A, rng, npoints, deep=level < depth)
                if up is not None and aup is not None:
                    ctx.check(same_multiset(tri(aup), tri(up)), "coord:representations.agree", level=level + 1, what="up_sample",
                              coordinate_children=lambda: tri(up), array_children=lambda: tri(aup))
        ctx.classes["%s_level_%d" % (pre, level)] += 1
        T, level = up, level + 1


# ------------------------------------------------------------------------------ generators
def coordinate_set(rng):
    n = int(rng.integers(1, 10))
    fam = ("cluster", "scatter", "even_only", "odd_only", "row", "far", "beyond_2^24")[int(rng.integers(7))]
    if fam == "cluster":
        c0 = rng.integers(-5, 6, size=2)
        pts = c0 + rng.integers(-2, 3, size=(n, 2))
    elif fam == "scatter":
        pts = rng.integers(-8, 9, size=(n, 2))
    elif fam in ("even_only", "odd_only"):
        pts = rng.integers(-6, 7, size=(n, 2))
        want = 0 if fam == "even_only" else 1
        pts[:, 0] += (pts.sum(axis=1) % 2 != want)
    elif fam == "row":
        x0, y0 = rng.integers(-6, 7, size=2)
        pts = np.stack([x0 + np.arange(n), np.full(n, y0)], axis=1)
    elif fam == "beyond_2^24":
        # lattice coordinates that single precision cannot hold exactly (a set far from the origin relative to its scale)
        base = np.array([int(rng.choice([-1, 1])) * (2 ** 24 + int(rng.integers(1, 2 ** 23))), int(rng.choice([-1, 1])) * (2 ** 24 + int(rng.integers(1, 2 ** 22)))])
        pts = base + rng.integers(-3, 4, size=(n, 2))
    else:
        pts = rng.integers(-60, 61, size=(n, 2))
    pts = np.unique(pts.astype(np.int64), axis=0)
    pts = pts[rng.permutation(len(pts))]
    return pts, fam


def run_coord(ctx, u):
    for i in range(u["start"], u["stop"]):
        if not ctx.begin("coord:%d" % i):
            continue
        rng = gen.rng_for(ctx.seed, NO, 1, i)
        pts, fam = coordinate_set(rng)
        side = float(np.exp(rng.uniform(np.log(0.05), np.log(20.0)))) if rng.random() < 0.8 else float(rng.choice([1.0, 0.5, 2.0]))
        om = int(rng.integers(3))
        fine = (i % 6 == 5)
        if fine:
            # fine lattices (side 3e-6 .. 1e-3): absolute tolerances hidden in containment / degeneracy tests show up here;
            # offsets stay of the order of the side so that coordinates are resolved far below the vertex tolerance
            side = float(np.exp(rng.uniform(np.log(3e-6), np.log(1e-3))))
            om = int(rng.integers(2))
        if om == 0:
            xo, yo = 0.0, 0.0
        elif om == 1:
            xo, yo = float(rng.normal() * side), float(rng.normal() * side)
        else:
            xo, yo = float(rng.uniform(-100, 100)), float(rng.uniform(-100, 100))
        flipped = bool(i % 2) if rng.random() < 0.9 else bool(rng.integers(2))
        # deep sets stay small: 9 * 4^3 = 576 triangles at most
        depth = DEPTH if len(pts) <= 9 else 2
        ok, C = ctx.guarded("coord:construct", ctx.CT, coordinates=pts.copy(), side_length=side, x_offset=xo, y_offset=yo, flipped=flipped)
        if not ok:
            continue
        run_set(ctx, "coord", C, True, rng, depth, npoints=3 if ctx.tier == "quick" else 6)
        par = (pts.sum(axis=1) % 2)
        cls = ["family_" + fam, "flipped" if flipped else "unflipped", ("offset_zero", "offset_side", "offset_large")[om], "side_fine" if fine else "side_regular",
               "parity_mixed" if 0 < par.sum() < len(par) else ("parity_odd_only" if par.all() else "parity_even_only")]
        if (pts < 0).any():
            cls.append("negative_coordinates")
        d = np.abs(pts[:, None, :] - pts[None, :, :])
        if ((d[:, :, 0] == 1) & (d[:, :, 1] == 0)).any():
            cls.append("has_edge_sharing_pair")
        ctx.case("coord", pts, side, xo, yo, flipped, nontrivial=len(pts) >= 2, cls=cls,
                 sample=lambda: {"kind": "coordinate set", "coordinates": pts.tolist(), "side_length": side, "x_offset": xo,
                                 "y_offset": yo, "flipped": flipped, "depth": depth, "first_triangle": safe(lambda: tri(C)[0].tolist())})


def run_limits(ctx, u):
    for i in range(u["start"], u["stop"]):
        if not ctx.begin("limits:%d" % i):
            continue
        rng = gen.rng_for(ctx.seed, NO, 2, i)
        scale = float(np.exp(rng.uniform(np.log(0.1), np.log(5.0))))
        ey, ex = float(rng.uniform(0.3, 3.5)) * scale, float(rng.uniform(0.3, 3.5)) * scale
        if rng.random() < 0.3:
            y0, x0 = 0.0, 0.0
        else:
            y0, x0 = float(rng.uniform(-20, 20)) * scale, float(rng.uniform(-20, 20)) * scale
        if i % 2 == 0:
            pre = "limits_array"
            ok, T = ctx.guarded(pre + ":construct", ctx.AT.for_limits_and_scale, y_min=y0, y_max=y0 + ey, x_min=x0, x_max=x0 + ex, scale=scale)
        else:
            pre = "limits_coord"
            ok, T = ctx.guarded(pre + ":construct", ctx.CT.for_limits_and_scale, x_min=x0, x_max=x0 + ex, y_min=y0, y_max=y0 + ey, scale=scale)
        if not ok:
            continue
        ok, n = ctx.guarded(pre + ":triangles", lambda: tri(T).shape[0])
        if not ok:
            continue
        if n == 0:
            ctx.skipped["for_limits_and_scale_produced_no_triangle"] += 1
            ctx.case("limits", i, pre, nontrivial=False, cls=[pre + "_empty"])
            continue
        depth = 2 if n <= 40 else 1
        run_set(ctx, pre, T, pre == "limits_coord", rng, depth, npoints=3)
        ctx.case("limits", pre, y0, x0, ey, ex, scale, nontrivial=n >= 2, cls=[pre, "limits_origin_zero" if (y0, x0) == (0.0, 0.0) else "limits_shifted"],
                 sample=lambda: {"kind": pre, "y_min": y0, "y_max": y0 + ey, "x_min": x0, "x_max": x0 + ex, "scale": scale,
                                 "triangles": n, "depth": depth})


def run_intarr(ctx, u):
    """ArrayTriangles built directly from vertex arrays as a user would pass them: integer-typed lattice points (odd and even
    edge extents, so that midpoints are half-integers) as well as their float twins."""
    for i in range(u["start"], u["stop"]):
        if not ctx.begin("intarr:%d" % i):
            continue
        rng = gen.rng_for(ctx.seed, NO, 3, i)
        nv = int(rng.integers(3, 9))
        V = np.unique(rng.integers(-9, 10, size=(nv, 2)), axis=0)
        tris = []
        for _ in range(40):
            if len(V) < 3 or len(tris) >= 5:
                break
            a, b, c = rng.choice(len(V), size=3, replace=False)
            area2 = (V[b, 0] - V[a, 0]) * (V[c, 1] - V[a, 1]) - (V[b, 1] - V[a, 1]) * (V[c, 0] - V[a, 0])
            if area2 != 0 and tuple(sorted((int(a), int(b), int(c)))) not in {tuple(sorted(t)) for t in tris}:
                tris.append((int(a), int(b), int(c)))
        if not tris:
            ctx.skipped["intarr:no_non_degenerate_triangle"] += 1
            continue
        idx = np.array(tris, dtype=int)
        as_int = (i % 3 != 2)
        verts = V.astype(np.int64) if as_int else V.astype(float)
        from_end = (i % 4 == 1)
        if from_end:
            # some vertex indices written from the end (wrap-around constructions: the last vertex as -1, a fan around a hub at -1):
            # the set is the triangles vertices[indices] in NumPy's meaning
            sel = rng.random(idx.shape) < 0.4
            sel[0, 0] = True
            idx = np.where(sel, idx - len(verts), idx)
        ok, A = ctx.guarded("array_direct:construct", ctx.AT, indices=idx.copy(), vertices=verts.copy())
        if not ok:
            continue
        own = np.asarray(verts, dtype=float)[idx]
        ctx.check(tri(A).shape == own.shape and np.array_equal(tri(A), own), "array_direct:triangles_are_vertices_at_indices", indices=idx, vertices=verts,
                  got=lambda: tri(A), expected=own)
        ok2, sel_set = ctx.guarded("array_direct:construct", A.for_indexes, np.arange(len(idx))[::-1].copy())
        if ok2:
            ctx.check(same_multiset(tri(sel_set), own), "array_direct:triangles_are_vertices_at_indices", what="for_indexes(all, reversed)", expected=own,
                      got=lambda: tri(sel_set))
        run_set(ctx, "array", A, False, rng, 2, npoints=3)
        ctx.case("intarr", V, idx, as_int, nontrivial=True, cls=["array_direct", "vertices_int_dtype" if as_int else "vertices_float_dtype"] + (["indices_written_from_the_end"] if from_end else []),
                 sample=lambda: {"kind": "vertex-array set", "vertices": V.tolist(), "indices": idx.tolist(), "dtype": str(verts.dtype)})


def run_unit(ctx, u):
    {"coord": run_coord, "limits": run_limits, "intarr": run_intarr}[u["kind"]](ctx, u)
