"""
Byte-level fingerprints of caller-owned inputs and of arbitrary result values.

`Tracker` is the C11 purity monitor. The harness registers every object it creates and hands to the library (arrays,
masks, settings / preloads objects, lists of them) with a label - they are *caller-owned*. `watch()` wraps public entry
points (constructors, classmethods, methods, properties, module functions) so that at the exit of every wrapped call all
registered fingerprints are re-computed; a change is attributed to the innermost wrapped callee that was running and is
reported once (the stored fingerprint is then updated so later calls are judged on their own).
"""
import functools
import hashlib
import inspect

import numpy as np


def leaves(v, depth=0, seen=None, own_attrs=True):
    """Yields (path, ndarray) for every numeric array reachable from v (lists/tuples/dicts, autoarray structures' buffers,
    one level of attributes of plain autoarray objects)."""
    seen = seen if seen is not None else set()
    if id(v) in seen or depth > 3:
        return
    seen.add(id(v))
    if isinstance(v, np.ndarray):
        if v.dtype != object:
            yield "", v
    elif isinstance(getattr(v, "__dict__", {}).get("_array", None), np.ndarray):
        yield "._array", v._array
    elif isinstance(v, (list, tuple)):
        for k, x in enumerate(v):
            for p, a in leaves(x, depth + 1, seen):
                yield "[%d]%s" % (k, p), a
    elif isinstance(v, dict):
        for k, x in v.items():
            for p, a in leaves(x, depth + 1, seen):
                yield "[%r]%s" % (k, p), a
    elif own_attrs and isinstance(getattr(v, "__dict__", None), dict) and type(v).__module__.split(".")[0] in ("autoarray", "harness"):
        for k, x in list(vars(v).items()):
            for p, a in leaves(x, depth + 1, seen, own_attrs=False):
                yield "." + k + p, a


def sha(a):
    a = np.ascontiguousarray(a)
    return hashlib.sha1(str(a.dtype).encode() + str(a.shape).encode() + a.tobytes()).hexdigest()[:16]


def value_fp(v, depth=0):
    """Canonical fingerprint string of a result value (exceptions are values too: 'EXC:<type>')."""
    if isinstance(v, (bool, int, str, type(None))):
        return repr(v)
    if isinstance(v, (float, complex, np.generic)):
        return repr(v)
    if isinstance(v, np.ndarray):
        if v.dtype == object:
            return "objarr[" + ",".join(value_fp(x, depth + 1) for x in v.ravel()[:50]) + "]" if depth < 3 else "objarr"
        return "nd:" + str(v.shape) + sha(v)
    if hasattr(v, "_array") and isinstance(getattr(v, "_array", None), np.ndarray):
        extra = ""
        m = getattr(v, "__dict__", {}).get("mask", None)
        if m is not None and hasattr(m, "_array") and m is not v:
            extra = "|mask:" + sha(m._array) + str(getattr(m, "pixel_scales", "")) + str(getattr(m, "origin", ""))
        elif hasattr(v, "pixel_scales") and "pixel_scales" in getattr(v, "__dict__", {}):
            extra = "|" + str(v.__dict__.get("pixel_scales")) + str(v.__dict__.get("origin"))
        return type(v).__name__ + ":" + value_fp(np.asarray(v._array)) + extra
    if isinstance(v, (list, tuple)):
        return ("[" + ",".join(value_fp(x, depth + 1) for x in v[:200]) + "]") if depth < 3 else "deep"
    if isinstance(v, dict):
        return ("{" + ",".join(value_fp(x, depth + 1) for x in v.values()) + "}") if depth < 3 else "deep"
    if inspect.isgenerator(v):
        return "generator"
    return "obj:" + type(v).__name__


def state_fp(obj):
    """Fingerprint of a plain object's __dict__ (settings, preloads, default-argument objects)."""
    if not hasattr(obj, "__dict__"):
        # containers and arrays used as default arguments (list, dict, set, ndarray): fingerprint of the value itself
        if isinstance(obj, dict):
            return hashlib.sha1(("dict:" + "|".join(repr(k) + "=" + value_fp(v) for k, v in sorted(obj.items(), key=lambda kv: repr(kv[0])))).encode()).hexdigest()[:16]
        if isinstance(obj, (list, set)):
            items = list(obj) if isinstance(obj, list) else sorted(obj, key=repr)
            return hashlib.sha1((type(obj).__name__ + ":%d:" % len(items) + "|".join(value_fp(v) for v in items)).encode()).hexdigest()[:16]
        return hashlib.sha1(("value:" + value_fp(obj)).encode()).hexdigest()[:16]
    parts = []
    for k, x in sorted(vars(obj).items()):
        parts.append(k + "=" + value_fp(x))
    return hashlib.sha1("|".join(parts).encode()).hexdigest()[:16]


class Tracker:
    def __init__(self, ctx, monitor="input_fingerprint"):
        self.ctx = ctx
        self.monitor = monitor
        self.owned = []          # (label, object, {path: sha})
        self.states = []         # (label, object, state_fp)
        self.stack = []
        self.context = {}
        self.checks = 0

    def own(self, label, obj):
        """Register a caller-owned object; returns it."""
        self.owned.append((label, obj, {p: sha(a) for p, a in leaves(obj)}))
        return obj

    def own_state(self, label, obj):
        self.states.append([label, obj, state_fp(obj)])
        return obj

    def clear(self):
        self.owned = []
        self.states = []

    def verify(self, callee):
        """Re-fingerprint everything owned; report and absorb changes."""
        self.checks += 1
        mutated = []
        for label, obj, fps in self.owned:
            for p, a in leaves(obj):
                h = sha(a)
                if p in fps and fps[p] != h:
                    mutated.append(label + p)
                    fps[p] = h
        for rec in self.states:
            h = state_fp(rec[1])
            if h != rec[2]:
                mutated.append(rec[0] + ".__dict__")
                rec[2] = h
        self.ctx.monitors[self.monitor] += 1
        if mutated:
            self.ctx.fire(self.monitor, callee=callee, mutated=sorted(set(m.split("._array")[0].split("[")[0] if False else m for m in mutated)),
                          call_stack=list(self.stack[-4:]), **self.context)
        return mutated

    # -------------------------------------------------------------------------- wrapping
    def watch(self, owner, name):
        raw = inspect.getattr_static(owner, name)
        oname = getattr(owner, "__name__", str(owner)).split(".")[-1]
        label = "%s.%s" % (oname, name)
        tracker = self

        def wrap(f):
            @functools.wraps(f)
            def w(*a, **k):
                tracker.stack.append(label)
                try:
                    return f(*a, **k)
                finally:
                    tracker.stack.pop()
                    if tracker.owned or tracker.states:
                        tracker.verify(label)
            w.__verif_original__ = f
            return w

        if isinstance(raw, classmethod):
            new = classmethod(wrap(raw.__func__))
        elif isinstance(raw, staticmethod):
            new = staticmethod(wrap(raw.__func__))
        elif isinstance(raw, property):
            new = property(wrap(raw.fget), raw.fset, raw.fdel)
        elif inspect.isfunction(raw):
            new = wrap(raw)
        else:
            return False
        setattr(owner, name, new)
        _installed.append((owner, name, raw))
        return True

    def watch_public(self, owner, skip=()):
        n = 0
        for name, a in list(vars(owner).items()):
            if (name.startswith("_") and name != "__init__") or name in skip:
                continue
            try:
                n += bool(self.watch(owner, name))
            except Exception:
                pass
        return n


_installed = []


def unwatch_all():
    while _installed:
        owner, name, raw = _installed.pop()
        try:
            setattr(owner, name, raw)
        except Exception:
            pass
