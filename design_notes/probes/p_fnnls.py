import numpy as np, sys
import os; sys.path.insert(0,os.environ.get('REPO','/repo'))
from autoarray.util.fnnls import fnnls_cholesky
from scipy.optimize import nnls
rng=np.random.default_rng(0)
def kkt(A,b,s,tol=1e-7):
    g=A@s-b
    sc=max(1,np.abs(b).max())
    ok = (s>=-1e-12).all() and (np.abs(g[s>1e-12])<tol*sc).all() and (g[s<=1e-12]>-tol*sc).all()
    return ok
bad={True:0,False:0}; exc={True:0,False:0}; N=0
for t in range(400):
    n=rng.integers(2,12); m=n+rng.integers(0,6)
    Z=rng.normal(size=(m,n)); A=Z.T@Z+1e-3*np.eye(n); x=rng.normal(size=m); b=Z.T@x
    for warm in (True,False):
        P0 = (np.linalg.solve(A,b)>0) if warm else np.zeros(0,dtype=int)
        try:
            s=fnnls_cholesky(A,b,P_initial=P0)
        except Exception as e:
            exc[warm]+=1; continue
        if not kkt(A,b,s): bad[warm]+=1
    N+=1
print(N,bad,exc)
