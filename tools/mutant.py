#!/usr/bin/env python3
"""
Scratch copies of the repository for validating monitors against deliberate breaks.
Never touches /repo's working tree or /verif/evidence.

  tools/mutant.py new TAG                 git worktree of /repo HEAD at /tmp/verif_mut/TAG
  tools/mutant.py sub TAG FILE OLD NEW    exact, CRLF-preserving single replacement inside the worktree
  tools/mutant.py apply TAG PATCH         git apply PATCH inside the worktree
  tools/mutant.py run TAG PROP [TIER]     run the check against the worktree (evidence/replay go to /tmp/verif_mut/TAG.out)
  tools/mutant.py suite TAG               run the repository's pinned suite there, compare with BASELINE stable_pass
  tools/mutant.py diff TAG                show the diff of the worktree
  tools/mutant.py rm TAG                  remove worktree + outputs
"""
import json, os, subprocess, sys, shutil
ROOT = "/tmp/verif_mut"

def wt(tag): return os.path.join(ROOT, tag)

def main():
    cmd, tag = sys.argv[1], sys.argv[2]
    os.makedirs(ROOT, exist_ok=True)
    if cmd == "new":
        subprocess.run(["git", "-C", "/repo", "worktree", "add", "--detach", "-f", wt(tag), "HEAD"], check=True, capture_output=True)
        print(wt(tag))
    elif cmd == "sub":
        path, old, new = os.path.join(wt(tag), sys.argv[3]), sys.argv[4], sys.argv[5]
        b = open(path, "rb").read()
        crlf = b.count(b"\r\n") > b.count(b"\n") / 2
        o, n = old.replace("\r\n", "\n"), new.replace("\r\n", "\n")
        if crlf: o, n = o.replace("\n", "\r\n"), n.replace("\n", "\r\n")
        c = b.count(o.encode())
        if c != 1: sys.exit("expected exactly 1 occurrence, found %d" % c)
        open(path, "wb").write(b.replace(o.encode(), n.encode()))
        print("replaced in", path)
    elif cmd == "apply":
        subprocess.run(["git", "-C", wt(tag), "apply", "--whitespace=nowarn", os.path.abspath(sys.argv[3])], check=True)
    elif cmd == "diff":
        subprocess.run(["git", "-C", wt(tag), "diff", "--ignore-cr-at-eol"])
    elif cmd == "run":
        prop, tier = sys.argv[3], (sys.argv[4] if len(sys.argv) > 4 else "quick")
        e = dict(os.environ, VERIF_REPO=wt(tag), VERIF_OUT=wt(tag) + ".out", PYTHONHASHSEED="0")
        r = subprocess.run(["/venv/bin/python", "-m", "harness.run", prop, "--tier", tier] + sys.argv[5:], cwd="/verif", env=e)
        sys.exit(r.returncode)
    elif cmd == "suite":
        xml = wt(tag) + ".junit.xml"
        e = dict(os.environ, PYTHONDONTWRITEBYTECODE="1")
        subprocess.run(["/venv/bin/python", "-m", "pytest", "-q", "-p", "no:cacheprovider", "--timeout=900", "--continue-on-collection-errors",
                        "--junitxml=" + xml], cwd=wt(tag), env=e, capture_output=True)
        import xml.etree.ElementTree as ET
        ok = set()
        for tc in ET.parse(xml).iter("testcase"):
            if not any(c.tag in ("failure", "error", "skipped") for c in tc):
                ok.add(tc.get("classname") + "::" + tc.get("name"))
        base = set(json.load(open("/root/.vp/BASELINE.json"))["stable_pass"])
        missing = sorted(base - ok)
        print("suite: %d pass, baseline %d, baseline tests now failing: %d %s" % (len(ok), len(base), len(missing), missing[:10]))
        os.remove(xml)
        sys.exit(1 if missing else 0)
    elif cmd == "rm":
        subprocess.run(["git", "-C", "/repo", "worktree", "remove", "--force", wt(tag)], capture_output=True)
        shutil.rmtree(wt(tag), ignore_errors=True); shutil.rmtree(wt(tag) + ".out", ignore_errors=True)
        subprocess.run(["git", "-C", "/repo", "worktree", "prune"])
        print("removed", tag)

main()
