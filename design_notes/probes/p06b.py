from common import *
import logging; logging.disable(logging.CRITICAL)
from p06 import setup
bad={}
def flag(k,info=None):
    bad.setdefault(k,[0,None]); bad[k][0]+=1
    if bad[k][1] is None: bad[k][1]=info
nsub=0; nout=0
for s in range(100,160):
    mask,osamp,src,mesh,mapper=setup(s,'del')
    psw=mapper.pix_sub_weights; P=np.array(src.array); V=np.array(mesh.array)
    simp={tuple(sorted(t)) for t in mapper.delaunay.simplices}
    ext=np.ptp(V,axis=0).max()
    for i in range(len(P)):
        sz=psw.sizes[i]; idx=psw.mappings[i,:sz]; w=psw.weights[i,:sz]; nsub+=1
        if sz==3:
            if tuple(sorted(idx)) not in simp: flag('not a simplex')
            if (w<-1e-12).any() or abs(w.sum()-1)>1e-9: flag('weights')
            if not np.allclose(w@V[idx],P[i],atol=1e-9*max(1,ext)): flag('reproduce',(s,i,w@V[idx],P[i]))
        elif sz==1:
            nout+=1
            # must be outside all simplices (brute force) and nearest vertex
            inside=False
            for t in mapper.delaunay.simplices:
                A=V[t]; T=np.array([A[0]-A[2],A[1]-A[2]]).T
                try: l=np.linalg.solve(T,P[i]-A[2])
                except np.linalg.LinAlgError: continue
                l3=1-l.sum()
                if l.min()>1e-9 and l3>1e-9: inside=True;break
            if inside: flag('inside but single',(s,i))
            dd=((V-P[i])**2).sum(1)
            if dd[idx[0]]>dd.min()+1e-12: flag('not nearest')
            if w[0]!=1: flag('single weight')
        else: flag('size',sz)
    mask,osamp,src,mesh,mapper=setup(s,'rect')
    psw=mapper.pix_sub_weights; P=np.array(src.array)
    Hm,Wm=mesh.shape_native; ext=mesh.geometry.extent; sy,sx=mesh.pixel_scales
    for i in range(len(P)):
        k=psw.mappings[i,0]; r,c=divmod(int(k),Wm)
        y1=ext[3]-r*sy; y0=y1-sy; x0=ext[0]+c*sx; x1=x0+sx
        if not (y0-1e-9<=P[i,0]<=y1+1e-9 and x0-1e-9<=P[i,1]<=x1+1e-9): flag('rect containment',(s,i,(y0,y1,x0,x1),P[i]))
print(nsub,nout)
for k,v in bad.items(): print(k,v)
print('done')
