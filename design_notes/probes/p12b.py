from common import *
import logging; logging.disable(logging.CRITICAL)
rng=np.random.default_rng(120)
bad={}
def flag(k,info=None):
    bad.setdefault(k,[0,None]); bad[k][0]+=1
    if bad[k][1] is None: bad[k][1]=info
for t in range(30):
    H,W=rng.integers(4,8),rng.integers(4,8); m=rmask(rng,H,W,p=0.4,ring=True)
    ps=(rng.uniform(0.3,1.2),rng.uniform(0.3,1.2)); o=tuple(rng.normal(size=2)); d=rng.normal(size=2)*rng.choice([1e-2,1,30])
    res=[]
    seedj=rng.integers(1e9)
    for org in (o,(o[0]+d[0],o[1]+d[1])):
        mask=aa.Mask2D(mask=m,pixel_scales=ps,origin=org); n=(~m).sum()
        rj=np.random.default_rng(seedj)
        sub=aa.Array2D(values=rj.integers(1,4,size=n),mask=mask)
        osamp=aa.OverSamplerUniform(mask=mask,sub_size=sub); g=osamp.over_sampled_grid.array
        rel=g-np.array(org)
        src=aa.Grid2DIrregular(values=np.array(org)+rel+0.2*np.sin(2*rel[:,::-1])+0.03*rj.normal(size=g.shape))
        out={}
        mesh=aa.Mesh2DRectangular.overlay_grid(shape_native=(3,4),grid=src)
        mp=aa.Mapper(mapper_grids=aa.MapperGrids(mask=mask,source_plane_data_grid=src,source_plane_mesh_grid=mesh),over_sampler=osamp,regularization=None)
        out['rect_M']=mp.mapping_matrix; out['rect_map']=mp.pix_sub_weights.mappings; out['rect_meshgrid']=np.array(mesh.array)
        lo=rel.min(0);hi=rel.max(0); pts=np.array(org)+lo+(hi-lo)*rj.random((7,2))
        dm=aa.Mesh2DDelaunay(values=pts)
        mp2=aa.Mapper(mapper_grids=aa.MapperGrids(mask=mask,source_plane_data_grid=src,source_plane_mesh_grid=dm),over_sampler=osamp,regularization=None)
        out['del_M']=mp2.mapping_matrix; out['del_map']=mp2.pix_sub_weights.mappings; out['del_w']=mp2.pix_sub_weights.weights
        q=np.array(org)+rel[:5]
        out['pix_idx']=np.array([mask.geometry.pixel_coordinates_2d_from(tuple(p)) for p in q])
        out['grid_idx']=mask.geometry.grid_pixel_indexes_2d_from(aa.Grid2DIrregular(values=q)).array if False else None
        br=aa.BorderRelocator(mask=mask,sub_size=sub); out['sub_border']=br.sub_border_slim; out['reloc']=br.relocated_grid_from(src).array
        res.append(out)
    a,b=res
    for k in a:
        if a[k] is None: continue
        if k in ('rect_meshgrid','reloc'):
            if not np.allclose(np.array(a[k])+d,b[k],atol=1e-9*max(1,np.abs(d).max())): flag(k,(t,np.abs(np.array(a[k])+d-b[k]).max()))
        elif np.asarray(a[k]).dtype.kind in 'iu':
            if not np.array_equal(a[k],b[k]): flag(k,(t,d))
        else:
            if not np.allclose(a[k],b[k],atol=1e-9): flag(k,(t,d,np.abs(np.array(a[k])-np.array(b[k])).max()))
for k,v in bad.items(): print(k,v)
print('done')
