"""
C15 - preloaded and cached intermediate results never change inversion outputs.

Metamorphic monitor over whole computations: for a generated (dataset, linear objects, settings) the outputs of a fresh
inversion (no preloads) are the baseline. Slot values are taken from a *separate identical computation* (a twin dataset built
from the same arrays and a second fresh inversion), then for every subset of the five public slots
{w_tilde, curvature_matrix, regularization_matrix, log_det_regularization_matrix_term, operated_mapping_matrix}
(all 32 subsets thorough, 8 representative quick) one Preloads object is shared by k = 3 successive inversions:
  preload.transparent        D, F, H, reconstruction, mapped data, regularization term and both log-det terms equal the
                             fresh computation (1e-9 relative to the norm of the reference)
  preload.reuse_identical    the k-th reuse is bit-identical to the first
  preload.curvature_unchanged   bytes of preloads.curvature_matrix before/after every inversion (and after reading
                             curvature_reg_matrix / reconstruction, which add H into a curvature buffer)
  preload.slots_unchanged    fingerprints of every other array held by the Preloads object (a change is a violation too:
                             it would alter later outcomes that consult the slot)
  slot.consulted:<slot>      sys.monitoring call counters show that the computation the slot replaces did not run
                             (otherwise the transparency comparison would be vacuous) - required per slot
  formalism.values           the factory's choice (settings.use_w_tilde, preloads.use_w_tilde) changes no value
  noise_map.mismatch_raises  a preloaded w_tilde built for another noise map is rejected (check_noise_map)
validated against (scratch copies, suite green): removing the defensive copy of the preloaded curvature matrix in either
formalism, consulting preloads.regularization_matrix but still adding the computed H, ignoring the preloaded log-det.
"""
import hashlib
import itertools

import numpy as np

from harness import env, gen, gen_aa
from harness.monitors import frames

ID = "C15"
NO = 15
SLOTS = ("w_tilde", "curvature_matrix", "regularization_matrix", "log_det_regularization_matrix_term", "operated_mapping_matrix")
RULE = ("seeded inversion inputs (as C04: non-square / signed PSFs, 1..3 objects mixing rectangular / Delaunay mappers and function "
        "lists, regularised or not) x both formalisms x subsets of the five public preload slots x 3 successive inversions sharing one "
        "Preloads object. A case = (input, formalism, slot subset); distinct by hash of (mask, kernel, data, noise, mapping matrices, "
        "formalism, subset); non-trivial = non-empty subset")
BOUNDS = {"quick": "32 inputs x 2 formalisms x 8 slot subsets x 3 reuses", "thorough": "640 inputs x 2 formalisms x all 32 subsets x 3 reuses"}
EXHAUSTIVE = {"quick": False, "thorough": False}
ASSUMPTIONS = ["outputs compared with max|a-b| <= 1e-9*max|ref| (scalars: 1e-9 relative, log-determinants with the conditioning-aware tolerance of C08)",
               "slot values come from a second, separate computation on a twin dataset built from the same arrays"]
QUICK_JOBS = 12
MIN_MONITORS = {"*": dict({"slot.consulted:" + s: 1 for s in SLOTS}, **{"preload.transparent": 20, "preload.reuse_identical": 20,
                                                                        "preload.curvature_unchanged": 10, "preload.slots_unchanged": 10,
                                                                        "formalism.values": 4, "noise_map.mismatch_raises": 2})}
QUICK_SUBSETS = [(), ("w_tilde",), ("curvature_matrix",), ("regularization_matrix", "log_det_regularization_matrix_term"),
                 ("operated_mapping_matrix",), ("log_det_regularization_matrix_term",), ("curvature_matrix", "regularization_matrix"), SLOTS]


def plan(tier, seed):
    n = 32 if tier == "quick" else 640
    return [{"kind": "inp", "start": s, "stop": s + 1, "w": 1} for s in range(n)]


def _np(x):
    return np.asarray(x.array if hasattr(x, "array") and not isinstance(x, np.ndarray) else x)


def fp(x):
    a = np.ascontiguousarray(_np(x))
    return hashlib.sha1(str(a.dtype).encode() + str(a.shape).encode() + a.tobytes()).hexdigest()[:16]


def setup(ctx):
    aa = ctx.aa = env.boot("base")
    from autoarray.inversion.inversion import inversion_util
    from autoarray.inversion.inversion.imaging import inversion_imaging_util
    from autoarray.inversion.regularization import regularization_util
    from scipy.linalg import block_diag  # noqa
    c = ctx.calls = __import__("collections").Counter()
    frames.count_calls(inversion_util.curvature_matrix_via_mapping_matrix_from, c, "F.mapping")
    frames.count_calls(inversion_imaging_util.curvature_matrix_via_w_tilde_curvature_preload_imaging_from, c, "F.w_tilde")
    frames.count_calls(inversion_imaging_util.w_tilde_curvature_preload_imaging_from, c, "w_tilde.build")
    frames.count_calls(aa.Convolver.convolve_mapping_matrix, c, "operated")
    frames.count_calls(regularization_util.constant_regularization_matrix_from, c, "H.constant")
    frames.count_calls(regularization_util.zeroth_regularization_matrix_from, c, "H.zeroth")
    frames.count_calls(inversion_imaging_util.data_vector_via_blurred_mapping_matrix_from, c, "D.mapping")


def teardown(ctx):
    frames.clear()


def relclose(a, b, rt=1e-9):
    a, b = np.asarray(a, float), np.asarray(b, float)
    if a.shape != b.shape or not np.isfinite(a).all():
        return False
    if a.size == 0:
        return True
    return bool(np.max(np.abs(a - b)) <= rt * max(float(np.max(np.abs(b))), 1e-300))


def outputs(aa, inv):
    """Reads the outputs in the order a fit would; returns dict or the InversionException."""
    q = {}
    q["D"] = _np(inv.data_vector).copy()
    q["F"] = _np(inv.curvature_matrix).copy()
    q["H"] = _np(inv.regularization_matrix).copy()
    q["s"] = _np(inv.reconstruction).copy()
    q["mapped"] = _np(inv.mapped_reconstructed_data).copy()
    q["reg_term"] = float(inv.regularization_term)
    q["logdet_c"] = float(inv.log_det_curvature_reg_matrix_term)
    q["logdet_h"] = float(inv.log_det_regularization_matrix_term)
    q["F_after"] = _np(inv.curvature_matrix).copy()
    return q


def succeeds_without_preloads(aa, twin, objs, st):
    """The same inversion on a fresh identical dataset, nothing preloaded: does it produce its outputs?"""
    try:
        outputs(aa, aa.Inversion(dataset=twin(), linear_obj_list=objs, settings=st))
        return True
    except Exception:
        return False


def same(ctx, q, ref, tolc, tolh, positive=False):
    """Names of the outputs of q that differ from ref. D, F, H are compared entry-wise. The solution and what is computed from it
    (s, mapped data, regularization term) are compared entry-wise when the reference system is well conditioned (cond <= 1e7: a
    one-ulp difference in F or D then moves s by far less than 1e-7); otherwise a last-bit difference in F is amplified by the
    condition number (seen: cond 1.7e14, F equal to 1.6e-19, s different by 9e-7) and the solution is judged by what defines it:
    it must solve the reference system to working accuracy (unconstrained solver), or agree to the amplified rounding level."""
    bad = []
    for k in ("D", "F", "H", "F_after"):
        if not relclose(q[k], ref[k], 1e-9):
            bad.append(k)
    # the curvature matrix read again after the solve is the curvature matrix (recomputed or kept, never "restored" from F+H)
    if "F" not in bad and "F_after" not in bad and not relclose(q["F_after"], q["F"], 1e-13):
        bad.append("F_read_after_the_solve_differs_from_F_read_before")
    A = ref["F"] + ref["H"]
    cond = float(np.linalg.cond(A)) if np.isfinite(A).all() else float("inf")
    if cond <= 1e7:
        ctx.classes["solution_compared:entrywise"] += 1
        rt = 1e-7
    else:
        ctx.classes["solution_compared:by_residual_or_amplified_rounding(cond>1e7)"] += 1
        rt = max(1e-7, 1e-13 * cond)
        if not positive and q["s"].shape == ref["s"].shape and "D" not in bad and "F" not in bad and "H" not in bad:
            r = A @ q["s"] - ref["D"]
            scale = float((np.abs(A) @ np.abs(q["s"]) + np.abs(ref["D"])).max())
            r0 = A @ ref["s"] - ref["D"]
            if not float(np.abs(r).max()) <= max(1e-9 * scale, 10.0 * float(np.abs(r0).max())):
                bad.append("s")
    for k in ("s", "mapped"):
        if k not in bad and not relclose(q[k], ref[k], rt):
            bad.append(k)
    if abs(q["reg_term"] - ref["reg_term"]) > rt * max(1.0, abs(ref["reg_term"])):
        bad.append("reg_term")
    if abs(q["logdet_c"] - ref["logdet_c"]) > tolc:
        bad.append("logdet_c")
    if abs(q["logdet_h"] - ref["logdet_h"]) > tolh:
        bad.append("logdet_h")
    return bad


def preload_fps(pre):
    out = {}
    for k, v in vars(pre).items():
        if isinstance(v, np.ndarray):
            out[k] = fp(v)
        elif hasattr(v, "curvature_preload"):
            out[k] = fp(v.curvature_preload) + fp(v.indexes) + fp(v.lengths)
        elif isinstance(v, float):
            out[k] = repr(v)
    return out


def run_input(ctx, i):
    aa = ctx.aa
    rng = gen.rng_for(ctx.seed, NO, i)
    case = gen_aa.imaging_case(aa, rng, kshapes=(1, 3, 5), max_unmasked=25)

    def regf(r):
        return [aa.reg.Constant(coefficient=float(r.uniform(0.2, 2.0))), aa.reg.Zeroth(coefficient=float(r.uniform(0.3, 2.0)))][int(r.integers(2))]

    only_functions = (i % 4 == 3)     # inversions of function lists alone (always the mapping formalism, single regularization fast path)

    def make_objs(rng):
        if only_functions:
            objs, desc = gen_aa.linear_objects(aa, rng, case, nobj=1 if i % 8 == 3 else 2, kinds=("func",), allow_unregularized=False)
            for o_, d_ in zip(objs[1:], desc[1:]):
                if rng.random() < 0.5:
                    o_.regularization = None
                    d_["regularized"] = False
        else:
            objs, desc = gen_aa.linear_objects(aa, rng, case, allow_unregularized=True, reg_factory=regf, overrides=True)
        if not only_functions and not any(d["kind"] != "func" for d in desc):            # the w-tilde formalism needs at least one mapper
            mp, d = gen_aa.mapper(aa, rng, case["mask"], case["ds"].grids.pixelization.over_sampler, "rect", aa.reg.Constant(coefficient=1.0))
            d.update({"params": int(mp.params), "regularized": True})
            objs.append(mp)
            desc.append(d)
        if not any(d["regularized"] for d in desc):
            for o, d in zip(objs, desc):
                if d["kind"] != "func":
                    o.regularization = aa.reg.Constant(coefficient=0.7)
                    d["regularized"] = True
                    break
        if not only_functions and i % 8 == 5:
            # one strongly regularized plane on its own (coefficient 2e3 .. 6e4: H is 1e6 .. 1e9 times larger than F) - whatever is
            # added to F and taken away again leaves its mark at this ratio
            mp1, d1 = gen_aa.mapper(aa, rng, case["mask"], case["ds"].grids.pixelization.over_sampler, "rect" if i % 16 == 5 else "del",
                                    aa.reg.Constant(coefficient=float(10.0 ** rng.uniform(3.3, 4.8))))
            d1.update({"params": int(mp1.params), "regularized": True, "strongly_regularized": True})
            objs, desc = [mp1], [d1]
        if not only_functions and i % 6 == 2:
            # a fixed, always-present mix: a plain function list FOLLOWED by one of the same size that supplies its own operated matrix
            # (the order and the sizes matter for everything that pairs lists by position)
            Func = gen_aa.func_list_class(aa)
            n_ = int((~case["m"]).sum())
            pfun = int(rng.integers(1, 3))
            Ma, _ = gen.mapping_matrix(rng, n_, pfun, kind="fractional")
            Mb, _ = gen.mapping_matrix(rng, n_, pfun, kind="signed")
            Ma[0, :] += 1.0
            Mb[0, :] += 1.0
            ovb = np.asarray(case["ds"].convolver.convolve_mapping_matrix(mapping_matrix=Mb.copy()), float) + 0.3 * rng.normal(size=Mb.shape)
            extra = [Func(grid=case["ds"].grids.uniform, M=Ma, regularization=aa.reg.Zeroth(coefficient=0.8)),
                     Func(grid=case["ds"].grids.uniform, M=Mb, regularization=aa.reg.Zeroth(coefficient=1.1), override=ovb)]
            objs = extra + objs
            desc = [{"kind": "func", "matrix": "fractional", "params": pfun, "regularized": True, "operated_override": False},
                    {"kind": "func", "matrix": "signed", "params": pfun, "regularized": True, "operated_override": "with_light_from_outside_the_mask"}] + desc
        return objs, desc

    import copy as _copy
    rng_at_objects = _copy.deepcopy(rng)
    objs, desc = make_objs(rng)
    ds = case["ds"]

    def twin():
        return aa.Imaging(data=aa.Array2D(values=case["d"].copy(), mask=case["mask"]), noise_map=aa.Array2D(values=case["noise"].copy(), mask=case["mask"]),
                          psf=aa.Kernel2D.no_mask(values=case["k"].copy(), pixel_scales=case["ps"]), use_normalized_psf=case["normalized"],
                          over_sampling=aa.OverSamplingDataset(pixelization=aa.OverSamplingUniform(sub_size=case["sub_arg"])))

    positive = bool(rng.random() < 0.25)
    subsets = QUICK_SUBSETS if ctx.tier == "quick" else [c for r in range(6) for c in itertools.combinations(SLOTS, r)]
    W0 = dict(mask=case["m"], kernel=case["k"], objects=desc, positive_only=positive)
    per_formalism = {}
    for use_w in (False, True):
        st = aa.SettingsInversion(use_w_tilde=use_w, use_positive_only_solver=positive, no_regularization_add_to_curvature_diag_value=1e-3)
        tagf = "w_tilde" if use_w else "mapping"
        try:
            ref = outputs(aa, aa.Inversion(dataset=twin(), linear_obj_list=objs, settings=st))
            src_ds = twin()
            src = aa.Inversion(dataset=src_ds, linear_obj_list=objs, settings=st)
            cand = {"curvature_matrix": _np(src.curvature_matrix).copy(), "regularization_matrix": _np(src.regularization_matrix).copy(),
                    "log_det_regularization_matrix_term": float(src.log_det_regularization_matrix_term),
                    "operated_mapping_matrix": _np(src.operated_mapping_matrix).copy(), "w_tilde": src_ds.w_tilde}
            # the two mapper-part slots of the w-tilde formalism (mapper entries of D, mapper diagonal blocks of F; the entries of
            # function lists / other objects are filled in by the inversion): meaningful whenever there is a mapper
            extra_subsets = []
            if use_w and not only_functions:
                dvm, cmd = src._data_vector_mapper, src._curvature_matrix_mapper_diag
                if dvm is not None and cmd is not None:
                    cand["data_vector_mapper"] = _np(dvm).copy()
                    cand["curvature_matrix_mapper_diag"] = _np(cmd).copy()
                    extra_subsets = [("data_vector_mapper",), ("curvature_matrix_mapper_diag",), ("data_vector_mapper", "curvature_matrix_mapper_diag", "w_tilde")]
        except aa.exc.InversionException:
            ctx.skipped["baseline:InversionException"] += 1
            continue
        except Exception as e:
            # a well-formed input whose fresh inversion raises anything but the documented InversionException
            ctx.check(False, "formalism.values", via="fresh %s inversion raised" % tagf, exception=repr(e)[:300], **W0)
            continue
        per_formalism[tagf] = ref
        reg_idx = np.concatenate([np.arange(a, b) for (a, b), d in zip(_ranges(objs), desc) if d["regularized"]]).astype(int)
        A = (ref["F"] + ref["H"])[np.ix_(reg_idx, reg_idx)]
        Hr = ref["H"][np.ix_(reg_idx, reg_idx)]
        tolc = 1e-9 * abs(ref["logdet_c"]) + 1e-14 * len(reg_idx) * float(np.linalg.cond(A)) + 1e-12
        tolh = 1e-9 * abs(ref["logdet_h"]) + 1e-14 * len(reg_idx) * float(np.linalg.cond(Hr)) + 1e-12
        fresh_delta = None
        for subset in list(subsets) + extra_subsets:
            key = "inp:%d:%s:%s" % (i, tagf, "+".join(subset) or "none")
            if not ctx.begin(key):
                continue
            if "w_tilde" in subset and not use_w:
                # the slot is only meaningful for the w-tilde formalism; with the mapping formalism it must simply be ignored
                pass
            W = dict(formalism=tagf, slots=list(subset), **W0)
            pre = aa.Preloads(**{k: cand[k] for k in subset})
            fps0 = preload_fps(pre)
            first = None
            if not subset:
                fresh_delta = None
            for rep in range(3):
                dsx = twin()          # a fresh dataset object: nothing cached on it, so every shortcut must come from the preloads
                before = dict(ctx.calls)
                try:
                    inv = aa.Inversion(dataset=dsx, linear_obj_list=objs, settings=st, preloads=pre)
                    q = outputs(aa, inv)
                except Exception as e:
                    ctx.check(False, "preload.transparent", rep=rep, exception=repr(e)[:300], **W)
                    break
                delta = {k: ctx.calls[k] - before.get(k, 0) for k in ctx.calls}
                if not subset and rep == 0:
                    fresh_delta = delta
                bad = same(ctx, q, ref, tolc, tolh, positive)
                ctx.check(not bad, "preload.transparent", rep=rep, differing=bad, got={k: q.get(k) for k in bad[:2]}, expected={k: ref.get(k) for k in bad[:2]}, **W)
                if first is None:
                    first = q
                else:
                    diff = [k for k in q if (fp(q[k]) if isinstance(q[k], np.ndarray) else q[k]) != (fp(first[k]) if isinstance(first[k], np.ndarray) else first[k])]
                    ctx.check(not diff, "preload.reuse_identical", rep=rep, differing=diff, **W)
                fps1 = preload_fps(pre)
                if "curvature_matrix" in subset:
                    ctx.check(fps1["curvature_matrix"] == fps0["curvature_matrix"] and fp(cand["curvature_matrix"]) == fps0["curvature_matrix"],
                              "preload.curvature_unchanged", rep=rep, **W)
                changed = [k for k in fps0 if k != "curvature_matrix" and fps1.get(k) != fps0[k]]
                if subset:
                    ctx.check(not changed, "preload.slots_unchanged", rep=rep, changed=changed, **W)
                # did the slots short-circuit the computation they replace?
                if "curvature_matrix" in subset and delta.get("F.mapping", 0) == 0 and delta.get("F.w_tilde", 0) == 0:
                    ctx.monitors["slot.consulted:curvature_matrix"] += 1
                if "operated_mapping_matrix" in subset and not use_w and fresh_delta is not None and delta.get("operated", 0) < fresh_delta.get("operated", 0):
                    ctx.monitors["slot.consulted:operated_mapping_matrix"] += 1
                if "regularization_matrix" in subset and delta.get("H.constant", 0) == 0 and delta.get("H.zeroth", 0) == 0:
                    ctx.monitors["slot.consulted:regularization_matrix"] += 1
                if "w_tilde" in subset and use_w and not only_functions and delta.get("w_tilde.build", 0) == 0:
                    ctx.monitors["slot.consulted:w_tilde"] += 1
                if "log_det_regularization_matrix_term" in subset and q["logdet_h"] == cand["log_det_regularization_matrix_term"]:
                    ctx.monitors["slot.consulted:log_det_regularization_matrix_term"] += 1
            ctx.case(case["m"], case["k"], case["d"], case["noise"], ref["F"], tagf, subset, nontrivial=bool(subset),
                     cls=["formalism:" + tagf, "subset_size:%d" % len(subset)] + ["slot:" + s_ for s_ in subset] + (["positive_only"] if positive else []),
                     sample=lambda: {"objects": desc, "formalism": tagf, "slots": list(subset), "reuses": 3})
    # the slots filled by the library's own producers (Preloads.set_* from two fits of identical inputs) instead of by hand
    class FitLike:
        def __init__(self, inv, ds_):
            self.inversion, self.dataset, self.noise_map = inv, ds_, ds_.noise_map

    for use_w in (False, True):
        tagf = "w_tilde" if use_w else "mapping"
        if tagf not in per_formalism:
            continue
        ref = per_formalism[tagf]
        st = aa.SettingsInversion(use_w_tilde=use_w, use_positive_only_solver=positive, no_regularization_add_to_curvature_diag_value=1e-3)
        reg_idx = np.concatenate([np.arange(a, b) for (a, b), d in zip(_ranges(objs), desc) if d["regularized"]]).astype(int)
        A_ = (ref["F"] + ref["H"])[np.ix_(reg_idx, reg_idx)]
        Hr_ = ref["H"][np.ix_(reg_idx, reg_idx)]
        tolc = 1e-9 * abs(ref["logdet_c"]) + 1e-14 * len(reg_idx) * float(np.linalg.cond(A_)) + 1e-12
        tolh = 1e-9 * abs(ref["logdet_h"]) + 1e-14 * len(reg_idx) * float(np.linalg.cond(Hr_)) + 1e-12
        for prod in ("set_w_tilde_imaging", "set_linear_func_inversion_dicts", "set_curvature_matrix", "set_regularization_matrix_and_term",
                     "set_operated_mapping_matrix_with_preloads"):
            if not ctx.begin("inp:%d:%s:producer:%s" % (i, tagf, prod)):
                continue
            W = dict(formalism=tagf, filled_by="Preloads." + prod, **W0)
            try:
                ds0, ds1 = twin(), twin()
                f0 = FitLike(aa.Inversion(dataset=ds0, linear_obj_list=objs, settings=st), ds0)
                f1 = FitLike(aa.Inversion(dataset=ds1, linear_obj_list=objs, settings=st), ds1)
                pre = aa.Preloads()
                getattr(pre, prod)(f0, f1)
            except aa.exc.InversionException:
                ctx.skipped["producer:InversionException"] += 1
                continue
            except Exception as e:
                # the producer itself failed, so nothing was supplied: outside the statement (observation recorded in DESIGN 7.5:
                # Preloads.set_curvature_matrix raises IndexError in the mapping formalism when an unregularized object precedes a mapper)
                ctx.skipped["producer_raised:%s:%s(nothing supplied, not judged)" % (prod, type(e).__name__)] += 1
                continue
            filled = sorted(k for k, v in vars(pre).items() if v is not None and v is not False and not (isinstance(v, (list, dict)) and not v))
            for rep in range(2):
                try:
                    q = outputs(aa, aa.Inversion(dataset=twin(), linear_obj_list=objs, settings=st, preloads=pre))
                except aa.exc.InversionException as e:
                    # tables / matrices produced by the library from fits of identical inputs must not make the inversion fail
                    # where the same inversion without preloads succeeds (judged only if it does succeed again)
                    if succeeds_without_preloads(aa, twin, objs, st):
                        ctx.check(False, "preload.transparent", rep=rep, exception=repr(e)[:300], without_preloads="succeeds", slots_filled=filled, **W)
                    else:
                        ctx.skipped["producer:InversionException"] += 1
                    break
                except Exception as e:
                    ctx.check(False, "preload.transparent", rep=rep, exception=repr(e)[:300], slots_filled=filled, **W)
                    break
                bad = same(ctx, q, ref, tolc, tolh, positive)
                ctx.check(not bad, "preload.transparent", rep=rep, differing=bad, slots_filled=filled, got={k: q.get(k) for k in bad[:2]}, expected={k: ref.get(k) for k in bad[:2]}, **W)
            ctx.case(case["m"], case["k"], case["d"], tagf, prod, nontrivial=bool(filled), cls=["formalism:" + tagf, "producer:" + prod] + ["producer_filled:" + k for k in filled],
                     sample=lambda: {"objects": desc, "formalism": tagf, "producer": prod, "slots_filled": filled})
    # the three dictionary slots (operated mapping matrices per function list / per mapper, data-vector terms per function list),
    # taken from an inversion of EQUAL BUT SEPARATELY CONSTRUCTED linear objects (a later fit re-creates its mappers and profiles):
    # the dictionaries are keyed by the objects they were computed from and must be matched to the objects of the new inversion
    if not only_functions and any(d["kind"] == "func" for d in desc):
        objs_other, _ = make_objs(_copy.deepcopy(rng_at_objects))
        for use_w in (False, True):
            tagf = "w_tilde" if use_w else "mapping"
            if tagf not in per_formalism:
                continue
            ref = per_formalism[tagf]
            st = aa.SettingsInversion(use_w_tilde=use_w, use_positive_only_solver=positive, no_regularization_add_to_curvature_diag_value=1e-3)
            reg_idx = np.concatenate([np.arange(a, b) for (a, b), d in zip(_ranges(objs), desc) if d["regularized"]]).astype(int)
            A_ = (ref["F"] + ref["H"])[np.ix_(reg_idx, reg_idx)]
            Hr_ = ref["H"][np.ix_(reg_idx, reg_idx)]
            tolc = 1e-9 * abs(ref["logdet_c"]) + 1e-14 * len(reg_idx) * float(np.linalg.cond(A_)) + 1e-12
            tolh = 1e-9 * abs(ref["logdet_h"]) + 1e-14 * len(reg_idx) * float(np.linalg.cond(Hr_)) + 1e-12
            try:
                src = aa.Inversion(dataset=twin(), linear_obj_list=objs_other, settings=st)
                dicts = {}
                for nm in ("linear_func_operated_mapping_matrix_dict", "data_linear_func_matrix_dict", "mapper_operated_mapping_matrix_dict"):
                    try:
                        v = getattr(src, nm)
                    except (NotImplementedError, AttributeError):
                        continue
                    if isinstance(v, dict) and len(v):
                        dicts[nm] = v
            except aa.exc.InversionException:
                ctx.skipped["dict_slots:InversionException"] += 1
                continue
            names = sorted(dicts)
            for subset in [c for r in range(1, len(names) + 1) for c in itertools.combinations(names, r)]:
                if not ctx.begin("inp:%d:%s:dicts:%s" % (i, tagf, "+".join(subset))):
                    continue
                W = dict(formalism=tagf, dictionary_slots=list(subset), keyed_by="equal objects constructed separately", **W0)
                pre = aa.Preloads(**{k: dicts[k] for k in subset})
                for rep in range(2):
                    try:
                        q = outputs(aa, aa.Inversion(dataset=twin(), linear_obj_list=objs, settings=st, preloads=pre))
                    except aa.exc.InversionException as e:
                        if succeeds_without_preloads(aa, twin, objs, st):
                            ctx.check(False, "preload.transparent", rep=rep, exception=repr(e)[:300], without_preloads="succeeds", slots=list(subset), **W0)
                        else:
                            ctx.skipped["dict_slots:InversionException"] += 1
                        break
                    except Exception as e:
                        ctx.check(False, "preload.transparent", rep=rep, exception=repr(e)[:300], **W)
                        break
                    bad = same(ctx, q, ref, tolc, tolh, positive)
                    ctx.check(not bad, "preload.transparent", rep=rep, differing=bad, got={k: q.get(k) for k in bad[:2]}, expected={k: ref.get(k) for k in bad[:2]}, **W)
                ctx.case(case["m"], case["k"], case["d"], tagf, subset, "dicts", nontrivial=True,
                         cls=["formalism:" + tagf] + ["dict_slot:" + k for k in subset],
                         sample=lambda: {"objects": desc, "formalism": tagf, "dictionary_slots": list(subset)})
    # the w-tilde tables of a dataset used in between by an inversion of OTHER data (a model image subtracted, handed over through
    # DatasetInterface with the dataset's own tables): a later inversion of the identical dataset that takes the same tables as a
    # preload - or no preload at all on that dataset object - still gives the fresh outputs
    if "w_tilde" in per_formalism and i % 3 == 0 and not only_functions:
        ref = per_formalism["w_tilde"]
        st = aa.SettingsInversion(use_w_tilde=True, use_positive_only_solver=positive, no_regularization_add_to_curvature_diag_value=1e-3)
        if ctx.begin("inp:%d:w_tilde:tables_used_by_other_data_in_between" % i):
            try:
                ds_t = twin()
                wt = ds_t.w_tilde
                n_ = int((~case["m"]).sum())
                other = aa.Array2D(values=case["d"][~case["m"]] - (0.2 + rng.random(n_)) * float(np.abs(case["d"]).max()), mask=case["mask"])
                di = aa.DatasetInterface(data=other, noise_map=ds_t.noise_map, grids=ds_t.grids, convolver=ds_t.convolver, w_tilde=wt)
                _ = _np(aa.Inversion(dataset=di, linear_obj_list=objs, settings=st).data_vector)
                reg_idx = np.concatenate([np.arange(a, b) for (a, b), d in zip(_ranges(objs), desc) if d["regularized"]]).astype(int)
                A_ = (ref["F"] + ref["H"])[np.ix_(reg_idx, reg_idx)]
                Hr_ = ref["H"][np.ix_(reg_idx, reg_idx)]
                tolc = 1e-9 * abs(ref["logdet_c"]) + 1e-14 * len(reg_idx) * float(np.linalg.cond(A_)) + 1e-12
                tolh = 1e-9 * abs(ref["logdet_h"]) + 1e-14 * len(reg_idx) * float(np.linalg.cond(Hr_)) + 1e-12
                for how, make in (("same dataset object, no preloads", lambda: aa.Inversion(dataset=ds_t, linear_obj_list=objs, settings=st)),
                                  ("fresh identical dataset, Preloads(w_tilde=the shared tables)", lambda: aa.Inversion(dataset=twin(), linear_obj_list=objs, settings=st, preloads=aa.Preloads(w_tilde=wt)))):
                    q = outputs(aa, make())
                    bad = same(ctx, q, ref, tolc, tolh, positive)
                    ctx.check(not bad, "preload.transparent", how=how, history="the same w-tilde tables were used by an inversion of other data before", differing=bad,
                              got={k: q.get(k) for k in bad[:2]}, expected={k: ref.get(k) for k in bad[:2]}, formalism="w_tilde", **W0)
            except aa.exc.InversionException as e:
                if succeeds_without_preloads(aa, twin, objs, st):
                    ctx.check(False, "preload.transparent", how="w-tilde tables used by other data in between", exception=repr(e)[:300], without_preloads="succeeds", **W0)
                else:
                    ctx.skipped["tables_in_between:InversionException"] += 1
            except Exception as e:
                ctx.check(False, "preload.transparent", how="w-tilde tables used by other data in between", exception=repr(e)[:300], **W0)
            ctx.case(case["m"], case["k"], "tables_in_between", nontrivial=True, cls=["formalism:w_tilde", "w_tilde_tables_shared_with_other_data"], sample=None)
    # mappers built through the public pipeline (mesh.mapper_grids_from with a border relocator) for TWO source planes, with the
    # Preloads filled by the library's grid / mapper producers from two earlier identical fits: same outputs as without preloads
    if i % 4 == 1 and not only_functions:
        mask_ = case["mask"]
        osamp_ = ds.grids.pixelization.over_sampler
        g_ = np.array(_np(osamp_.over_sampled_grid), dtype=float)
        planes = []
        for pl in range(2):
            src_, _dk = gen_aa.distort(rng, g_)
            src_ = src_ * float(rng.uniform(0.6, 1.6)) + rng.normal(size=2) * 0.3
            planes.append((aa.mesh.Rectangular(shape=(int(rng.integers(3, 5)), int(rng.integers(3, 5)))), src_))
        try:
            br_ = aa.BorderRelocator(mask=mask_, sub_size=aa.Array2D(values=np.asarray(_np(osamp_.sub_size)).astype(int), mask=mask_) if np.ndim(_np(osamp_.sub_size)) else int(osamp_.sub_size))
        except Exception:
            br_ = None
        regs_ = [aa.reg.Constant(coefficient=float(rng.uniform(0.3, 2.0))) for _ in planes]

        def pipeline(pre_, use_w_):
            st_ = aa.SettingsInversion(use_w_tilde=use_w_, use_positive_only_solver=False, no_regularization_add_to_curvature_diag_value=1e-3)
            mps = []
            for (mesh_, src_), rg in zip(planes, regs_):
                kw = {} if pre_ is None else {"preloads": pre_}
                mg_ = mesh_.mapper_grids_from(mask=mask_, source_plane_data_grid=aa.Grid2DIrregular(values=src_.copy()), border_relocator=br_, **kw)
                mps.append(aa.Mapper(mapper_grids=mg_, over_sampler=osamp_, regularization=rg))
            kw = {} if pre_ is None else {"preloads": pre_}
            return aa.Inversion(dataset=twin(), linear_obj_list=mps, settings=st_, **kw)

        class FitLike2:
            def __init__(self, inv_):
                self.inversion = inv_
        if br_ is not None:
            for use_w in (False, True):
                tagf = "w_tilde" if use_w else "mapping"
                if not ctx.begin("inp:%d:%s:pipeline_two_planes" % (i, tagf)):
                    continue
                try:
                    refp = outputs(aa, pipeline(None, use_w))
                    pre_ = aa.Preloads()
                    f0_, f1_ = FitLike2(pipeline(None, use_w)), FitLike2(pipeline(None, use_w))
                    for prod in ("set_relocated_grid", "set_mapper_list"):
                        try:
                            getattr(pre_, prod)(f0_, f1_)
                        except Exception as e:
                            ctx.skipped["pipeline_producer_raised:%s:%s" % (prod, type(e).__name__)] += 1
                    q = outputs(aa, pipeline(pre_, use_w))
                except aa.exc.InversionException:
                    ctx.skipped["pipeline:InversionException"] += 1
                    continue
                except Exception as e:
                    ctx.check(False, "preload.transparent", how="pipeline with library-filled grid preloads", exception=repr(e)[:300], formalism=tagf, **W0)
                    continue
                regi = np.arange(len(refp["s"]))
                A_ = refp["F"] + refp["H"]
                tolc = 1e-9 * abs(refp["logdet_c"]) + 1e-14 * len(regi) * float(np.linalg.cond(A_)) + 1e-12
                tolh = 1e-9 * abs(refp["logdet_h"]) + 1e-14 * len(regi) * float(np.linalg.cond(refp["H"])) + 1e-12
                bad = same(ctx, q, refp, tolc, tolh, False)
                filled = sorted(k for k, v in vars(pre_).items() if v is not None and v is not False and not (isinstance(v, (list, dict)) and not v))
                ctx.check(not bad, "preload.transparent", how="two source planes through mesh.mapper_grids_from, Preloads filled by set_relocated_grid / set_mapper_list",
                          differing=bad, slots_filled=filled, formalism=tagf, **W0)
                ctx.case(case["m"], case["k"], tagf, "pipeline", nontrivial=True, cls=["formalism:" + tagf, "pipeline_two_source_planes"], sample=None)
    # the factory's choice changes only performance: values equal across formalisms, and preloads.use_w_tilde selects the same classes
    if len(per_formalism) == 2 and ctx.begin("inp:%d:formalisms" % i):
        a, b = per_formalism["mapping"], per_formalism["w_tilde"]
        condA = float(np.linalg.cond(a["F"] + a["H"]))
        bad = [k for k in ("D", "F", "H") if not relclose(b[k], a[k], 1e-8)]
        if condA <= 1e8:
            bad += [k for k in ("s", "mapped") if not relclose(b[k], a[k], 1e-6)]
        ctx.check(not bad, "formalism.values", differing=bad, **W0)
        st = aa.SettingsInversion(use_w_tilde=True, use_positive_only_solver=positive, no_regularization_add_to_curvature_diag_value=1e-3)
        for flag, expect in ((False, "InversionImagingMapping"), (True, "InversionImagingMapping" if only_functions else "InversionImagingWTilde")):
            inv = aa.Inversion(dataset=twin(), linear_obj_list=objs, settings=st, preloads=aa.Preloads(use_w_tilde=flag))
            ctx.check(type(inv).__name__ == expect, "formalism.selected_by_preloads", flag=flag, got=type(inv).__name__)
            try:
                q = outputs(aa, inv)
                ctx.check(not [k for k in ("D", "F", "H") if not relclose(q[k], a[k], 1e-8)], "formalism.values", via="preloads.use_w_tilde=%s" % flag, **W0)
            except aa.exc.InversionException:
                ctx.skipped["formalism:InversionException"] += 1
        # every combination of the two switches yields a working inversion with the same values (the remaining ones: the settings
        # ask for the mapping formalism while the preloads carry a flag)
        st_m = aa.SettingsInversion(use_w_tilde=False, use_positive_only_solver=positive, no_regularization_add_to_curvature_diag_value=1e-3)
        for flag in (None, False, True):
            via = "settings.use_w_tilde=False, preloads.use_w_tilde=%s" % flag
            try:
                q = outputs(aa, aa.Inversion(dataset=twin(), linear_obj_list=objs, settings=st_m, preloads=aa.Preloads(use_w_tilde=flag)))
                ctx.check(not [k for k in ("D", "F", "H") if not relclose(q[k], a[k], 1e-8)], "formalism.values", via=via, **W0)
            except aa.exc.InversionException:
                ctx.skipped["formalism:InversionException"] += 1
            except Exception as e:
                ctx.check(False, "formalism.values", via=via, exception=repr(e)[:300], **W0)
        # mismatching noise map must be rejected
        other = case["noise"].copy()
        other[~case["m"]] = other[~case["m"]] * 1.5
        ds_other = aa.Imaging(data=aa.Array2D(values=case["d"].copy(), mask=case["mask"]), noise_map=aa.Array2D(values=other, mask=case["mask"]),
                              psf=aa.Kernel2D.no_mask(values=case["k"].copy(), pixel_scales=case["ps"]), use_normalized_psf=case["normalized"],
                              over_sampling=aa.OverSamplingDataset(pixelization=aa.OverSamplingUniform(sub_size=case["sub_arg"])))
        try:
            aa.Inversion(dataset=ds_other, linear_obj_list=objs, settings=st, preloads=aa.Preloads(w_tilde=twin().w_tilde))
            raised = "nothing"
        except aa.exc.InversionException:
            raised = "InversionException"
        except Exception as e:
            raised = repr(e)[:100]
        if only_functions:
            ctx.skipped["noise_map.mismatch:function_lists_only(mapping formalism, w_tilde preload not consulted)"] += 1
        else:
            ctx.check(raised == "InversionException", "noise_map.mismatch_raises", raised=raised, **W0)
        ctx.case("formalisms", case["m"], case["k"], case["d"], nontrivial=True, cls=["formalism_comparison"], sample=None)


def _ranges(objs):
    c = 0
    out = []
    for o in objs:
        p = int(np.asarray(o.mapping_matrix).shape[1])
        out.append((c, c + p))
        c += p
    return out


def run_unit(ctx, u):
    for i in range(u["start"], u["stop"]):
        run_input(ctx, i)
