#!/bin/bash
# Fast re-check of every kept seeded change against the current checks: patch applied in a scratch worktree under /tmp/verif_mut, the
# quick tier of its property's check run against it (no demonstration, no repository suite - those are confirmed by tools/seed_eval.py).
# usage: tools/seed_fastcheck.sh [parallelism] [glob]     prints "<seed> exit=<code> <fired monitors>"; exit 1 = caught
P=${1:-5}
G=${2:-C??_?}
cd /verif
ls -d seeded/$G | sed 's#seeded/##' | xargs -P "$P" -I{} bash -c '
x={}; id=${x%_*}; wt=/tmp/verif_mut/f_$x; out=/tmp/verif_mut/f_$x.out
git -C /repo worktree add --detach $wt HEAD -q 2>/dev/null
if ! git -C $wt apply --whitespace=nowarn /verif/seeded/$x/patch.diff 2>/dev/null; then echo "$x PATCH_DOES_NOT_APPLY"; else
r=$(cd /verif && VERIF_REPO=$wt VERIF_OUT=$out VERIF_JOBS=4 PYTHONHASHSEED=0 timeout 1500 /venv/bin/python -m harness.run $id --tier quick 2>&1 | grep -v "^KNOWN" | grep "fired monitors\|verdict=\|INCONCLUSIVE" | head -2 | tr "\n" " " | cut -c1-200)
echo "$x $r"; fi
git -C /repo worktree remove --force $wt 2>/dev/null; rm -rf $out'
