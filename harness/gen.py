"""Seeded generators shared by the property workloads (numpy only; no autoarray import here)."""
import itertools

import numpy as np


def rng_for(seed, prop_no, *idx):
    return np.random.default_rng([int(seed), int(prop_no)] + [int(i) for i in idx])


# ----------------------------------------------------------------------------- masks
def shapes_upto(cells, min_side=1):
    """All (H, W) with H*W <= cells."""
    return [(h, w) for h in range(min_side, cells + 1) for w in range(min_side, cells + 1) if h * w <= cells]


def all_masks(H, W, start=0, stop=None):
    """Every boolean mask (True = masked) of the shape with at least one unmasked pixel, as bit patterns."""
    n = H * W
    total = (1 << n) - 1  # pattern with all bits set (= fully masked) excluded
    stop = total if stop is None else min(stop, total)
    for bits in range(start, stop):
        yield np.array([(bits >> k) & 1 for k in range(n)], dtype=bool).reshape(H, W)


MASK_FAMILIES = ("bernoulli", "sparse", "dense", "last_col_isolated", "last_row_isolated", "full_rows",
                 "single", "all_unmasked", "checker", "holes", "components", "ring_masked", "bridge")


def random_mask(rng, H, W, family=None):
    """Hostile mask families; always >= 1 unmasked pixel. True = masked."""
    family = family or MASK_FAMILIES[int(rng.integers(len(MASK_FAMILIES)))]
    m = np.ones((H, W), bool)
    if family == "bernoulli":
        m = rng.random((H, W)) < 0.5
    elif family == "sparse":
        m = rng.random((H, W)) < 0.85
    elif family == "dense":
        m = rng.random((H, W)) < 0.15
    elif family == "last_col_isolated":
        m = rng.random((H, W)) < 0.7
        m[:, -1] = True
        m[rng.integers(H), -1] = False
        if W > 1:
            m[:, -2] = True
    elif family == "last_row_isolated":
        m = rng.random((H, W)) < 0.7
        m[-1, :] = True
        m[-1, rng.integers(W)] = False
        if H > 1:
            m[-2, :] = True
    elif family == "full_rows":
        m = rng.random((H, W)) < 0.6
        for r in rng.choice(H, size=max(1, H // 3), replace=False):
            m[r, :] = False
    elif family == "single":
        m[rng.integers(H), rng.integers(W)] = False
    elif family == "all_unmasked":
        m[:] = False
    elif family == "checker":
        yy, xx = np.indices((H, W))
        m = ((yy + xx + int(rng.integers(2))) % 2).astype(bool)
    elif family == "holes":
        m[:] = False
        k = max(1, (H * W) // 6)
        m.ravel()[rng.choice(H * W, size=k, replace=False)] = True
        m[0, :] = m[-1, :] = True
        m[:, 0] = m[:, -1] = True
    elif family == "components":
        for _ in range(int(rng.integers(2, 5))):
            y0, x0 = rng.integers(H), rng.integers(W)
            y1, x1 = min(H, y0 + int(rng.integers(1, 4))), min(W, x0 + int(rng.integers(1, 4)))
            m[y0:y1, x0:x1] = False
    elif family == "ring_masked":
        m = rng.random((H, W)) < 0.45
        m[0, :] = m[-1, :] = True
        m[:, 0] = m[:, -1] = True
    elif family == "bridge":
        m[:] = True
        r = int(rng.integers(H))
        m[r, :] = False
        c = int(rng.integers(W))
        m[:, c] = False
        m[rng.random((H, W)) < 0.1] = False
    if m.all():
        m[rng.integers(H), rng.integers(W)] = False
    return m, family


def interior_mask(rng, H, W, my, mx, p=0.5, family=None):
    """Mask whose unmasked pixels stay at least (my, mx) pixels away from the frame (kernel footprint inside)."""
    m = np.ones((H, W), bool)
    ih, iw = H - 2 * my, W - 2 * mx
    assert ih >= 1 and iw >= 1
    inner, fam = random_mask(rng, ih, iw, family)
    m[my:H - my, mx:W - mx] = inner
    return m, fam


def scales_origin(rng, aniso=True, big_origin=False):
    if aniso:
        s = (float(np.exp(rng.uniform(np.log(0.05), np.log(20)))), float(np.exp(rng.uniform(np.log(0.05), np.log(20)))))
    else:
        v = float(np.exp(rng.uniform(np.log(0.05), np.log(20))))
        s = (v, v)
    if rng.random() < 0.15:
        o = (0.0, 0.0)
    else:
        k = 100.0 if big_origin else 3.0
        o = (float(rng.uniform(-k, k) * s[0]), float(rng.uniform(-k, k) * s[1]))
    return s, o


def mild_scales_origin(rng):
    s = (float(rng.uniform(0.3, 1.5)), float(rng.uniform(0.3, 1.5)))
    o = (0.0, 0.0) if rng.random() < 0.2 else (float(rng.normal()), float(rng.normal()))
    return s, o


# ----------------------------------------------------------------------------- kernels
KERNEL_KINDS = ("positive", "signed", "asymmetric", "sparse", "spike")


def kernel(rng, ky, kx, kind=None):
    kind = kind or KERNEL_KINDS[int(rng.integers(len(KERNEL_KINDS)))]
    if kind == "positive":
        k = rng.random((ky, kx)) + 0.05
    elif kind == "signed":
        k = rng.normal(size=(ky, kx))
    elif kind == "asymmetric":
        k = np.arange(1.0, ky * kx + 1).reshape(ky, kx) ** 1.3 + rng.random((ky, kx))
    elif kind == "sparse":
        k = rng.normal(size=(ky, kx)) * (rng.random((ky, kx)) < 0.4)
        if not k.any():
            k[rng.integers(ky), rng.integers(kx)] = 1.0
    elif kind == "spike":
        k = np.zeros((ky, kx))
        k[rng.integers(ky), rng.integers(kx)] = float(rng.uniform(0.5, 2.0))
    return k, kind


def unique_values(rng, n, negative=False):
    """Values that identify the cell they came from (1 + index + fractional noise)."""
    v = 1.0 + np.arange(n) + rng.random(n) * 0.5
    return -v if negative else v


def mapping_matrix(rng, n, p, kind=None):
    """Random mapping matrices incl. tiny magnitudes (sparsity-threshold mutants), signs and exact zeros."""
    kind = kind or ("binary", "fractional", "tiny", "signed", "signed_sparse", "cancelling")[int(rng.integers(6))]
    if kind == "binary":
        M = (rng.random((n, p)) < 0.4).astype(float)
    elif kind == "fractional":
        M = rng.random((n, p)) * (rng.random((n, p)) < 0.7)
    elif kind == "tiny":
        M = np.exp(rng.uniform(np.log(1e-6), 0.0, size=(n, p))) * (rng.random((n, p)) < 0.8)
    elif kind == "signed":
        M = rng.normal(size=(n, p))
    elif kind == "cancelling":
        # columns whose entries cancel exactly (+v / -v pairs, 2/-1/-1 ...): sum(column) == 0.0 although the column is not empty
        M = np.zeros((n, p))
        for c in range(p):
            if n >= 2:
                rows = rng.choice(n, size=min(n, int(rng.integers(2, 5))), replace=False)
                v = float(rng.choice([1.0, 0.5, 2.0, 0.25]))
                if len(rows) == 2:
                    M[rows[0], c], M[rows[1], c] = v, -v
                elif len(rows) == 3:
                    M[rows[0], c], M[rows[1], c], M[rows[2], c] = 2 * v, -v, -v
                else:
                    M[rows[0], c], M[rows[1], c], M[rows[2], c], M[rows[3], c] = v, v, -v, -v
            else:
                M[0, c] = 1.0
    else:
        M = rng.normal(size=(n, p)) * np.exp(rng.uniform(np.log(1e-6), 0.0, size=(n, p))) * (rng.random((n, p)) < 0.6)
    return M, kind
