from common import *
import logging; logging.disable(logging.CRITICAL)
rng=np.random.default_rng(7)
def setup(seed,kind):
    rng=np.random.default_rng(seed)
    H,W=rng.integers(3,7),rng.integers(3,7)
    m=rmask(rng,H,W,p=0.4)
    if (~m).sum()<3: m[:]=False
    mask=aa.Mask2D(mask=m,pixel_scales=(rng.uniform(0.3,1.5),rng.uniform(0.3,1.5)),origin=tuple(rng.normal(size=2)))
    n=(~m).sum()
    sub=aa.Array2D(values=rng.integers(1,4,size=n),mask=mask)
    osamp=aa.OverSamplerUniform(mask=mask,sub_size=sub)
    g=osamp.over_sampled_grid.array
    # distortion
    src=g+0.3*np.sin(2*g[:,::-1])+0.05*rng.normal(size=g.shape)
    src=aa.Grid2DIrregular(values=src)
    if kind=='rect':
        shape=(rng.integers(3,6),rng.integers(3,6))
        mesh=aa.Mesh2DRectangular.overlay_grid(shape_native=shape,grid=src)
    else:
        nv=rng.integers(4,12)
        lo=src.array.min(0); hi=src.array.max(0)
        pts=lo+(hi-lo)*rng.random((nv,2))*rng.uniform(0.5,1.2)
        mesh=aa.Mesh2DDelaunay(values=pts)
    mg=aa.MapperGrids(mask=mask,source_plane_data_grid=src,source_plane_mesh_grid=mesh)
    mapper=aa.Mapper(mapper_grids=mg,over_sampler=osamp,regularization=aa.reg.Constant(1.0))
    return mask,osamp,src,mesh,mapper
bad=dict(rowsum=0,neg=0,unique=0,neigh=0,exc=0); N=0
for kind in ('rect','del'):
  for s in range(60):
    try:
        mask,osamp,src,mesh,mapper=setup(s,kind)
        M=mapper.mapping_matrix
        if not np.allclose(M.sum(1),1,atol=1e-9): bad['rowsum']+=1
        if (M<-1e-12).any(): bad['neg']+=1
        um=mapper.unique_mappings
        D=np.zeros_like(M)
        for i in range(M.shape[0]):
            for k in range(um.pix_lengths[i]):
                D[i,um.data_to_pix_unique[i,k]]+=um.data_weights[i,k]
        if not np.allclose(D,M,atol=1e-12): bad['unique']+=1
        nb=mapper.neighbors; 
        adj=set()
        for i in range(nb.shape[0]):
            for j in nb[i,:nb.sizes[i]]: adj.add((i,int(j)))
        if any((j,i) not in adj for i,j in adj): bad['neigh']+=1
        N+=1
    except Exception as e:
        bad['exc']+=1; print(kind,s,repr(e)[:200])
print(N,bad)
