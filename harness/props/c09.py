"""
C09 - over-sampling partitions pixels uniformly and bins by exact per-pixel means; decorated user functions
return exactly the binned result; the iterative scheme follows the stated stopping rule.

Technique: runtime monitoring with reference-model oracles. The real OverSamplerUniform / OverSamplerIterate /
@over_sample code of the tree under test is executed on seeded hostile inputs; next to it run
  * the closed formula of the statement for the sub-pixel centres (`ref_subgrid`, written from the statement:
    pixel centre from C02's formula, sub-pixel (a, b) at  top - (a+1/2) s_y/sub ,  left + (b+1/2) s_x/sub,
    pixel by pixel in slim order, rows top-to-bottom, columns left-to-right),
  * plain per-pixel means (`ref_bin`) and
  * a ~20-line pixel-by-pixel model of the iterate stopping rule (`ref_iterate`).
The user function is a *probe*: a harness profile object logs every grid its method receives, so the oracle sees
what the decorator really evaluated (plain evaluation for sub-size 1, the sub-size map that the config-driven
adaptive scheme actually picked - the choice itself is not part of the statement).

Known finding D6 (not repaired, see known_findings.json `iterate-all-zero-centre-shortcut`): when the function is
exactly 0 at every pixel centre OverSamplerIterate returns zeros although the rule gives the last-level mean. The
unit "d6" contains three such cases in both tiers (one literal: 3x3 mask, one unmasked pixel, f = 1 off-centre);
they fire `iterate.rule` with all_centre_values_zero / result_all_zero / reference_all_zero so that only this
mechanism is classified; every other disagreement of `iterate.rule` stays a violation.

VALIDATED against deliberate breaks on scratch worktrees (tools/mutant.py; every one was caught by the QUICK tier;
"suite green" = the repository's 699 baseline tests still pass, i.e. only this check notices):
  suite green, caught:
   * x-major ordering inside a pixel for sub-sizes > 4 only (grid_2d_slim_over_sampled_via_mask_from)   -> grid.formula
   * binned_array_2d_from uses sub_fraction[min(index, 30)] (wrong pixel's fraction beyond 31 pixels)   -> binned.mean
   * threshold ratio not inverted unless > 2 (ratio taken larger/smaller: a value that halves "agrees") -> iterate.rule
   * absolute tolerance ignored whenever a fractional accuracy is set                                   -> iterate.rule
   * absolute tolerance compared with the signed difference (only increasing refinements notice)        -> iterate.rule
   * previous level never advanced (every level compared with the pixel-centre values)                  -> iterate.rule
   * all-zero shortcut widened to "some centre value is zero" (must NOT be excused as D6)               -> iterate.rule
   * decorator treats every per-pixel Array2D sub-size map as sub-size 1 (plain evaluation)             -> decorator.sub.*
  killed by the suite as well, caught here too:
   * x-major ordering for every sub-size; sub_fraction[index - 1]; ratio never inverted; x sub-step taken from the
     y pixel scale (anisotropic scales only); first schedule entry skipped (sub_steps[1:])
  With "known": [] the D6 cases print VIOLATION (monitor iterate.rule); with the entry they print the one KNOWN-FINDING line.
"""
import numpy as np

from harness import env, gen, ref

ID = "C09"
NO = 9
RULE = ("a case = (mask, anisotropic pixel scales, origin) + either a sub-size map (uniform 1..8 / per pixel 1..8 / "
        "all-ones array / adaptive map chosen by the config scheme for a harness profile class and centre) with a "
        "seeded user function, or an iterate configuration (function, fractional accuracy, absolute tolerance, "
        "schedule). Masks: hostile families of gen.random_mask up to 7x8. Functions: constants (0, +, -), affine, "
        "Gaussians, Fourier sums with sign changes, clipped Fourier sums (exact zeros), cusped radial profiles, "
        "negative profiles, profiles forced to exactly 0 at a strict subset of pixel centres. distinct = distinct "
        "(kind, mask bits, scales, origin, sub map | function parameters, thresholds, schedule); non-trivial = some "
        "sub-size > 1 (uniform/adaptive cases) resp. the reference result differs from the pixel-centre values in "
        "at least one pixel (iterate cases)")
BOUNDS = {"quick": "masks up to 7x8; 4080 cases = 1530 uniform-map + 510 adaptive-scheme + 2040 iterate cases "
                   "(schedules [2,4] [2,4,8] [3,5] [4]; accuracies 0.5/0.99/0.9999; tolerances None/1e-3/1e-1) + 3 D6 cases",
          "thorough": "masks up to 7x8; 150000 cases = 56250 uniform-map + 18750 adaptive-scheme + 75000 iterate cases "
                      "(additionally schedule [2,4,8,16]) + 3 D6 cases"}
EXHAUSTIVE = {"quick": False, "thorough": False}
ASSUMPTIONS = [
    "sub-pixel coordinates compared with the closed formula to 1e-12*max(1,|coordinate|_inf); binned values to "
    "1e-12 (unique-valued data, affine functions) resp. 1e-10 (user functions) of max(largest |sub-value|, 1e-2 * the "
    "function's amplitude bound); iterate results to 1e-9 of the same scale (next to a zero crossing a value is only "
    "defined up to |grad f| * coordinate rounding)",
    "iterate: a pixel whose agreement ratio lies within 1e-9 of the requested accuracy or whose absolute difference "
    "lies within 1e-9 (relative) of the tolerance at some level is a tie: counted as don't-care, not compared",
    "sub-size maps are integer typed, plus float-typed maps as OverSamplingUniform.from_radial_bins / from_adaptive_scheme "
    "build them (monitor index.float_typed_map; they raised TypeError before the repair recorded in known_findings.json)",
    "the plain evaluation path of @over_sample calls func(obj=..., grid=...): the directly decorated probe method "
    "therefore names its first parameter `obj` (every structure-decorator wrapper does)",
    "the adaptive sub-size *choice* is not part of the statement: the oracle reads the map from the grid the probe received",
]
QUICK_JOBS = 8
# A float-typed per-pixel map (what OverSamplingUniform.from_radial_bins / from_adaptive_scheme build) made
# slim_for_sub_slim / sub_pixel_areas / sub_mask_native_for_sub_mask_slim raise TypeError. It was found by this module while
# it was being built, repaired in /repo ("fix:" commit, known_findings.json -> fixed) and is judged since then.
JUDGE_FLOAT_TYPED_MAPS = True
MIN_MONITORS = {"*": {"grid.formula": 20, "grid.count": 20, "index.slim_for_sub_slim": 20, "index.float_typed_map": 5, "iterate.rule.sequence_on_one_sampler": 10, "areas.each": 20,
                      "areas.sum": 20, "binned.mean": 20, "binned.affine": 20, "binned.constant": 20,
                      "sampler.array_via_func": 20, "decorator.plain.one_call_with_centres": 5,
                      "decorator.plain.result": 5, "decorator.sub.probe_grid": 20, "decorator.sub.binned": 20,
                      "decorator.container": 5, "decorator.adaptive.map_readable": 10,
                      "decorator.adaptive.probe_grid": 10, "decorator.adaptive.binned": 10, "iterate.rule": 50, "iterate.result_container": 50}}

SUB_MAX = 8
FRACS = (0.5, 0.99, 0.9999)
TOLS = (None, 1e-3, 1e-1, 0.0)
SCHEDULES = ([2, 4], [2, 4, 8], [3, 5], [4], [1, 2, 4], [1, 4], [4, 2, 8], [8, 4])   # the schedule is followed in the order given
SCHEDULES_THOROUGH = SCHEDULES + ([2, 4, 8, 16],)
TIE = 1e-9


# every unit interleaves the three case kinds (so every worker - and the evidence samples - see all of them);
# global case number g -> (kind, per-kind index)
CYCLE = ("uniform", "iterate", "uniform", "iterate", "adaptive", "iterate", "uniform", "iterate")
TOTAL = {"quick": 4080, "thorough": 150000}


def kind_index(g):
    c, pos = divmod(g, len(CYCLE))
    kind = CYCLE[pos]
    return kind, c * CYCLE.count(kind) + CYCLE[:pos].count(kind)


def plan(tier, seed):
    n, ch = TOTAL[tier], (48 if tier == "quick" else 240)
    units = [{"kind": "d6", "w": 5}]
    for s in range(0, n, ch):
        units.append({"kind": "mix", "start": s, "stop": min(n, s + ch), "w": min(n, s + ch) - s})
    return units


# ------------------------------------------------------------------------------ reference models
def ref_subgrid(m, scales, origin, sub):
    """Statement formula. `sub`: one sub-size per unmasked pixel in slim (row-major) order. Returns (sum sub^2, 2)."""
    H, W = m.shape
    out = []
    for k, (i, j) in enumerate(np.argwhere(~m)):
        s = int(sub[k])
        cy = origin[0] + ((H - 1) / 2.0 - i) * scales[0]
        cx = origin[1] + (j - (W - 1) / 2.0) * scales[1]
        a = np.arange(s)
        ys = cy + scales[0] / 2.0 - (a + 0.5) * scales[0] / s      # rows of the partition, top to bottom
        xs = cx - scales[1] / 2.0 + (a + 0.5) * scales[1] / s      # columns, left to right
        out.append(np.stack([np.repeat(ys, s), np.tile(xs, s)], axis=-1))
    return np.concatenate(out) if out else np.zeros((0, 2))


def ref_bin(values, sub):
    """Arithmetic mean of each pixel's own sub-values."""
    values = np.asarray(values, dtype=float)
    out, p = [], 0
    for s in sub:
        n = int(s) ** 2
        out.append(values[p:p + n].sum() / n)
        p += n
    return np.array(out)


def ref_iterate(f, m, scales, origin, steps, frac, tol, exact=False):
    """
    The stopping rule of the statement, pixel by pixel: the binned value at the first sub-size of the schedule whose
    agreement with the previous level (ratio smaller/larger, defined only when the previous value is positive) meets
    `frac` and, if set, |difference| <= tol; otherwise the value at the last sub-size. Level 0 is the pixel centre.
    Returns (values, stopping sub-size per pixel, tie flags, centre values, per-pixel path classes, largest |f| seen).
    """
    vals, levels, ties, cents, paths, fmax = [], [], [], [], [], [0.0]
    for k in range(int((~m).sum())):
        one = np.ones_like(m)
        one[tuple(np.argwhere(~m)[k])] = False

        def level(s):
            v = np.asarray(f(ref_subgrid(one, scales, origin, [s])), dtype=float)
            fmax[0] = max(fmax[0], float(np.max(np.abs(v))))
            return float(v.sum() / v.size)
        prev = level(1)
        cents.append(prev)
        chosen, stop, tie, path = None, steps[-1], False, set()
        for s in steps[:-1]:
            cur = level(s)
            ok = False
            if prev > 0:
                ratio = min(prev, cur) / max(prev, cur)
                ok = ratio >= frac
                # exact=True: every level value is an exact dyadic number (0/k-valued function, power-of-two sub-sizes), so a ratio
                # equal to the threshold is not a rounding accident and "meets the accuracy" (>=) is decidable
                tie = tie or (abs(ratio - frac) <= TIE and not (exact and ratio == frac))
                if ok and tol is not None and abs(prev - cur) > tol:
                    path.add("fraction_met_abs_tol_not")
            else:
                path.add("previous_not_positive")
            if tol is not None:
                d = abs(prev - cur)
                tie = tie or abs(d - tol) <= TIE * max(1.0, tol)
                if not ok and d <= tol:
                    path.add("abs_tol_met_fraction_not")
                ok = ok and d <= tol
            if ok:
                chosen, stop = cur, s
                break
            prev = cur
        if chosen is None:
            chosen = level(steps[-1])
            path.add("reached_last_level")
        vals.append(chosen)
        levels.append(stop)
        ties.append(tie)
        paths.append(path)
    return np.array(vals), levels, np.array(ties, dtype=bool), np.array(cents), paths, fmax[0]


def infer_sub_map(pts, m, scales, origin):
    """Read the per-pixel sub-sizes off a received over-sampled grid: consecutive points inside pixel k's square."""
    cen = ref.slim_centres(m, scales, origin)
    sub, p = [], 0
    hy, hx = scales[0] / 2.0 * (1 - 1e-9), scales[1] / 2.0 * (1 - 1e-9)
    for k in range(len(cen)):
        c = 0
        while p < len(pts) and abs(pts[p, 0] - cen[k, 0]) < hy and abs(pts[p, 1] - cen[k, 1]) < hx:
            p += 1
            c += 1
        s = int(round(np.sqrt(c)))
        if c == 0 or s * s != c:
            return None
        sub.append(s)
    return sub if p == len(pts) else None


# ------------------------------------------------------------------------------ user-function library
FUNC_KINDS = ("const", "affine", "gauss", "fourier", "clipped", "cusp", "negative", "zero_at_some_centres", "step_int", "mask_bool")


def make_func(rng, m, scales, origin, kind=None, zero_all_centres=False):
    """
    Pointwise f: (N,2) array of (y,x) -> (N,). Returns (f, json-able description). description["mag"] bounds |f| over
    the frame: comparisons use max(largest |f| actually seen, 1e-2*mag) as the scale, because next to a zero crossing
    of f the value itself is only defined up to |grad f| * (rounding of the coordinates) ~ 1e-14*mag.
    """
    kind = kind or FUNC_KINDS[int(rng.integers(len(FUNC_KINDS)))]
    H, W = m.shape
    amp = float(np.exp(rng.uniform(np.log(1e-3), np.log(1e3))))
    u0, v0 = float(rng.uniform(-H / 2.0, H / 2.0)), float(rng.uniform(-W / 2.0, W / 2.0))
    d = {"kind": kind, "amp": amp}

    def uv(g):
        g = np.asarray(g, dtype=float).reshape(-1, 2)
        return (g[:, 0] - origin[0]) / scales[0], (g[:, 1] - origin[1]) / scales[1]

    def fourier_params():
        K = int(rng.integers(1, 4))
        ky, kx = rng.uniform(-4.0, 4.0, K), rng.uniform(-4.0, 4.0, K)
        a, ph = rng.normal(size=K), rng.uniform(0, 2 * np.pi, K)
        off = float(rng.choice([0.0, 0.3, 4.0]))
        d.update(ky=ky.tolist(), kx=kx.tolist(), a=a.tolist(), phase=ph.tolist(), offset=off,
                 mag=amp * (abs(off) + float(np.sum(np.abs(a)))))
        return lambda u, v: amp * (off + sum(a[i] * np.sin(ky[i] * u + kx[i] * v + ph[i]) for i in range(K)))

    if kind == "const":
        c = float(rng.choice([0.0, amp, amp, -amp]))
        d["c"] = c
        d["mag"] = abs(c)
        base = lambda u, v: np.full(u.shape, c)
    elif kind == "affine":
        a, b, c = float(rng.normal()), float(rng.normal()), float(rng.choice([0.0, 1.0, 5.0, -1.0]))
        d.update(a=a, b=b, c=c, mag=amp * (abs(c) + abs(a) * H + abs(b) * W))
        base = lambda u, v: amp * (c + a * u + b * v)
    elif kind in ("gauss", "zero_at_some_centres"):
        sig = float(rng.uniform(0.25, 1.5))
        floor = float(rng.choice([0.0, 1e-3, 0.2]))
        d.update(u0=u0, v0=v0, sigma=sig, floor=floor, mag=amp * (1.0 + floor))
        base = lambda u, v: amp * (floor + np.exp(-((u - u0) ** 2 + (v - v0) ** 2) / (2 * sig ** 2)))
    elif kind == "fourier":
        g = fourier_params()
        base = g
    elif kind == "clipped":
        g = fourier_params()
        base = lambda u, v: np.maximum(g(u, v), 0.0)
    elif kind == "cusp":
        eps, gam = float(rng.uniform(0.02, 0.3)), float(rng.choice([0.5, 1.0, 2.0]))
        d.update(u0=u0, v0=v0, eps=eps, gamma=gam, mag=amp / eps ** gam)
        base = lambda u, v: amp / (np.sqrt((u - u0) ** 2 + (v - v0) ** 2) + eps) ** gam
    elif kind == "negative":
        sig = float(rng.uniform(0.4, 1.5))
        d.update(u0=u0, v0=v0, sigma=sig, mag=1.1 * amp)
        base = lambda u, v: -amp * (0.1 + np.exp(-((u - u0) ** 2 + (v - v0) ** 2) / (2 * sig ** 2)))
    elif kind in ("step_int", "mask_bool"):
        # piecewise-constant user functions that return an INTEGER-typed (0 / k) or BOOLEAN array (top-hat, indicator of a region):
        # the binned value is the fraction of the pixel's sub-points inside the region (times k). The level set is kept at least
        # 1e-6 (relative) away from every sub-point of every partition 1..16 of this mask, so no value depends on rounding.
        g = fourier_params()
        smooth_mag = d["mag"]
        pts = np.concatenate([ref_subgrid(m, scales, origin, np.full(int((~m).sum()), sb)) for sb in range(1, 17)])
        pu, pv = (pts[:, 0] - origin[0]) / scales[0], (pts[:, 1] - origin[1]) / scales[1]
        gv = g(pu, pv)
        thr = None
        for _ in range(200):
            cand = float(rng.uniform(np.min(gv), np.max(gv))) if np.max(gv) > np.min(gv) else float(np.min(gv)) - smooth_mag
            if np.min(np.abs(gv - cand)) > 1e-6 * smooth_mag:
                thr = cand
                break
        if thr is None:
            thr = float(np.max(gv)) + smooth_mag
        kint = int(rng.choice([1, 2, 5]))
        d.update(threshold=thr, returns=("int64 array with values 0/%d" % kint) if kind == "step_int" else "bool array", mag=float(kint if kind == "step_int" else 1))
        if kind == "step_int":
            base = lambda u, v: np.where(g(u, v) > thr, kint, 0).astype(np.int64)
        else:
            base = lambda u, v: g(u, v) > thr
    else:
        raise ValueError(kind)

    zero_at = None
    if kind == "zero_at_some_centres" or zero_all_centres:
        cen = ref.slim_centres(m, scales, origin)
        n = len(cen)
        if zero_all_centres:
            pick = np.arange(n)
        elif n >= 2:
            pick = np.sort(rng.choice(n, size=int(rng.integers(1, n)), replace=False))
        else:
            pick = np.zeros(0, dtype=int)
        zero_at = cen[pick]
        d["zero_at_centres_of_slim_pixels"] = pick.tolist()
    rad = 1e-7 * min(scales)

    def f(g):
        g = np.asarray(g, dtype=float).reshape(-1, 2)
        u, v = uv(g)
        out = np.asarray(base(u, v)) if kind in ("step_int", "mask_bool") else np.asarray(base(u, v), dtype=float)
        if zero_at is not None and len(zero_at):
            near = (np.abs(g[:, None, 0] - zero_at[None, :, 0]) < rad) & (np.abs(g[:, None, 1] - zero_at[None, :, 1]) < rad)
            out = np.where(near.any(axis=1), 0.0, out)
        return out

    return f, d


# ------------------------------------------------------------------------------ probes (harness profile classes)
def make_profiles(aa):
    """Profile classes whose names are registered in config/base/grids.yaml (over_sampling lists)."""
    def build(name):
        class P:
            def __init__(self, f, centre=(0.0, 0.0)):
                self.f = f
                self.centre = centre
                self.log = []

            ret = "ndarray"

            def _eval(self, grid):
                self.log.append((type(grid).__name__, np.array(np.asarray(grid), dtype=float).reshape(-1, 2).copy(), grid))
                v = self.f(np.asarray(grid))
                if self.ret == "list":           # a user function written as a comprehension returns a plain list (or tuple) of values
                    return np.asarray(v).tolist()
                if self.ret == "tuple":
                    return tuple(np.asarray(v).tolist())
                return v

            @aa.over_sample
            def raw(obj, grid, *args, **kwargs):          # noqa: N805 (see ASSUMPTIONS: first parameter named obj)
                return obj._eval(grid)

            @aa.over_sample
            @aa.grid_dec.to_array
            def stacked(self, grid, *args, **kwargs):
                return self._eval(grid)

        P.__name__ = P.__qualname__ = name
        return P

    return {n: build(n) for n in ("VerifC09Ones", "VerifC09Adapt", "VerifC09Adapt2")}


def undecorated(obj, grid, *args, **kwargs):
    return obj._eval(grid)


def _np(x):
    return np.asarray(x.array if hasattr(x, "array") and not isinstance(x, np.ndarray) else x)


def setup(ctx):
    ctx.aa = env.boot("base")
    ctx.profiles = make_profiles(ctx.aa)


def teardown(ctx):
    pass


# ------------------------------------------------------------------------------ helpers
def geometry(r, max_h=7, max_w=8, family=None):
    if r.random() < 0.5:        # half of the cases on the larger frames (more pixels per mask, more mixed stopping levels)
        H, W = int(r.integers(4, max_h + 1)), int(r.integers(4, max_w + 1))
    else:
        H, W = int(r.integers(1, max_h + 1)), int(r.integers(1, max_w + 1))
    m, fam = gen.random_mask(r, H, W, family)
    scales, origin = gen.scales_origin(r, aniso=True)
    return m, fam, scales, origin


def mask_classes(m, fam, scales, origin):
    c = ["mask:" + fam]
    if m.shape[0] != m.shape[1]:
        c.append("non_square")
    if (~m).sum() == 1:
        c.append("single_unmasked")
    if abs(scales[0] - scales[1]) > 1e-12:
        c.append("anisotropic_scales")
    if origin != (0.0, 0.0):
        c.append("shifted_origin")
    return c


def func_scale(fd, values):
    return max(float(np.max(np.abs(values))) if np.size(values) else 0.0, 1e-2 * float(fd.get("mag", 0.0))) or 1.0


def cscale(x):
    return max(1.0, float(np.max(np.abs(x)))) if np.size(x) else 1.0


def is_array2d_on(aa, res, m):
    return isinstance(res, aa.Array2D) and np.array_equal(np.asarray(res.mask).astype(bool), m) and _np(res.slim).shape == (int((~m).sum()),)


def sub_map(r, n, i):
    """(kind, per-pixel int array, constructor argument builder)."""
    k = i % 6
    if k in (0, 1):
        s = 1 + (i // 6) % SUB_MAX
        return "uniform_int", np.full(n, s, dtype=int), s
    if k in (2, 3):
        a = r.integers(1, SUB_MAX + 1, size=n)
        if k == 3 and (i // 6) % 2 == 1:
            # the map as a user may hold it: a compact integer type (sub sizes are small numbers)
            dt = [np.int8, np.uint8, np.int16, np.int32][(i // 12) % 4]
            return "per_pixel:" + np.dtype(dt).name, a.astype(dt), None
        return "per_pixel", a.astype(int), None
    if k == 4:
        lo, hi = sorted(int(v) for v in r.choice(np.arange(1, SUB_MAX + 1), size=2, replace=False))
        a = np.where(r.random(n) < 0.5, lo, hi)
        return "two_level", a.astype(int), None
    return "ones_array", np.ones(n, dtype=int), None


# ------------------------------------------------------------------------------ uniform sub-size maps
def check_uniform(ctx, i):
    aa = ctx.aa
    if not ctx.begin("uniform:%d" % i):
        return
    r = gen.rng_for(ctx.seed, NO, 1, i)
    m, fam, scales, origin = geometry(r)
    n = int((~m).sum())
    skind, sub, as_int = sub_map(r, n, i)
    mask = aa.Mask2D(mask=m.copy(), pixel_scales=scales, origin=origin)
    arg = lambda: as_int if as_int is not None else aa.Array2D(values=sub.copy(), mask=mask)
    W = dict(mask=m, pixel_scales=scales, origin=origin, sub_size=sub, sub_kind=skind)
    total = int((sub ** 2).sum())
    exp_grid = ref_subgrid(m, scales, origin, sub)
    cen = ref.slim_centres(m, scales, origin)

    ok, osr = ctx.guarded("sampler.construct", lambda: aa.OverSamplerUniform(mask=mask, sub_size=arg()))
    if not ok:
        return
    # --- over-sampled grid: count, formula, ordering
    ok, g = ctx.guarded("grid.exception", lambda: np.asarray(_np(osr.over_sampled_grid), dtype=float))
    if ok:
        ctx.check(g.shape == (total, 2), "grid.count", expected=(total, 2), got=g.shape, **W)
        if g.shape == (total, 2):
            def order_hint():
                same_set = ctx.close(g[np.lexsort((g[:, 1], g[:, 0]))], exp_grid[np.lexsort((exp_grid[:, 1], exp_grid[:, 0]))], 1e-12)
                return "same point set, different order" if same_set else "different point set"
            ctx.check(ctx.close(g, exp_grid, 1e-12), "grid.formula", expected=exp_grid, got=g, hint=order_hint, **W)
    # --- a per-pixel map that arrives as an Array2D living on ANOTHER frame (the map of a grid that was shifted with subtracted_from,
    #     a map computed on one grid and reused on another): the sub-pixels are those of the SAMPLER's mask
    if as_int is None and i % 3 == 0:
        other = aa.Mask2D(mask=m.copy(), pixel_scales=scales, origin=(origin[0] + 0.37 * scales[0], origin[1] - 1.21 * scales[1]))
        ok2, g2 = ctx.guarded("grid.exception", lambda: np.asarray(_np(aa.OverSamplerUniform(mask=mask, sub_size=aa.Array2D(values=sub.copy(), mask=other)).over_sampled_grid), dtype=float))
        if ok2:
            ctx.check(g2.shape == exp_grid.shape and ctx.close(g2, exp_grid, 1e-12), "grid.formula", sub_size_map_lives_on="a mask with another origin",
                      expected=exp_grid, got=g2, **W)
    # --- index tables
    ok, sfs = ctx.guarded("index.exception", lambda: np.asarray(osr.slim_for_sub_slim))
    if ok:
        exp = np.repeat(np.arange(n), sub ** 2)
        ctx.check(sfs.shape == exp.shape and np.array_equal(sfs, exp), "index.slim_for_sub_slim", expected=exp, got=sfs, **W)
    if as_int is not None:
        ok, nat = ctx.guarded("index.exception", lambda: np.asarray(osr.sub_mask_native_for_sub_mask_slim))
        if ok:
            s = as_int
            a = np.arange(s)
            exp = np.concatenate([np.stack([np.repeat(i_ * s + a, s), np.tile(j_ * s + a, s)], -1) for (i_, j_) in np.argwhere(~m)])
            ctx.check(nat.shape == exp.shape and np.array_equal(nat, exp), "index.sub_native_for_sub_slim", expected=exp, got=nat, **W)
    # --- areas
    ok, ar = ctx.guarded("areas.exception", lambda: np.asarray(osr.sub_pixel_areas, dtype=float))
    if ok:
        exp = np.repeat(scales[0] * scales[1] / sub.astype(float) ** 2, sub ** 2)
        area = n * scales[0] * scales[1]
        ctx.check(ar.shape == exp.shape and bool(np.all(np.abs(ar - exp) <= 1e-12 * exp)), "areas.each", expected=exp, got=ar, **W)
        ctx.check(abs(float(ar.sum()) - area) <= 1e-12 * area, "areas.sum", expected=area, got=float(ar.sum()), **W)
    # --- binning: unique-valued data (a value names its sub-pixel), constants, affine functions
    for sign in (1.0, -1.0):
        vals = sign * gen.unique_values(r, total)
        ok, b = ctx.guarded("binned.exception", lambda: osr.binned_array_2d_from(array=vals.copy()))
        if ok:
            exp = ref_bin(vals, sub)
            ctx.check(is_array2d_on(aa, b, m) and ctx.close(_np(b.slim), exp, 1e-12, scale=cscale(vals)), "binned.mean",
                      values=vals, expected=exp, got=lambda: _np(b), **W)
    c0 = float(r.normal() * 10)
    ok, b = ctx.guarded("binned.exception", lambda: osr.binned_array_2d_from(array=np.full(total, c0)))
    if ok:
        ctx.check(ctx.close(_np(b.slim), np.full(n, c0), 1e-12, scale=max(1.0, abs(c0))), "binned.constant", constant=c0, got=lambda: _np(b), **W)
    if g is not None and g.shape == (total, 2):
        a0, a1, a2 = (float(v) for v in r.normal(size=3))
        aff = lambda p: a0 + a1 * p[:, 0] + a2 * p[:, 1]
        ok, b = ctx.guarded("binned.exception", lambda: osr.binned_array_2d_from(array=aff(g)))
        if ok:
            ctx.check(ctx.close(_np(b.slim), aff(cen), 1e-12, scale=cscale(aff(g))), "binned.affine",
                      coefficients=(a0, a1, a2), expected=aff(cen), got=lambda: _np(b), **W)
    # --- observation only (not judged, see ASSUMPTIONS): the same map typed float, as from_radial_bins/from_adaptive_scheme build it
    if skind == "per_pixel" and i % 12 == 2:
        try:
            o2 = aa.OverSamplerUniform(mask=mask, sub_size=aa.Array2D(values=sub.astype(float), mask=mask))
            good = (np.array_equal(np.asarray(o2.slim_for_sub_slim), np.repeat(np.arange(n), sub ** 2))
                    and abs(float(np.sum(o2.sub_pixel_areas)) - n * scales[0] * scales[1]) <= 1e-12 * n * scales[0] * scales[1])
            outcome = "index_tables_and_areas_correct" if good else "index_tables_or_areas_wrong"
        except Exception as e:
            good, outcome = False, "slim_for_sub_slim/sub_pixel_areas_raise_" + type(e).__name__
        if JUDGE_FLOAT_TYPED_MAPS:
            ctx.check(good, "index.float_typed_map", outcome=outcome, sub_size_dtype="float64", **W)
        else:
            ctx.skipped["float_typed_sub_size_map:%s(observed, not judged)" % outcome] += 1
    # --- user function through the sampler and through the decorator (probe)
    f, fd = make_func(r, m, scales, origin)
    exp_f = ref_bin(f(exp_grid), sub)
    fscale = func_scale(fd, f(exp_grid))
    P = ctx.profiles["VerifC09Ones"]
    p = P(f)
    ok, b = ctx.guarded("sampler.exception", lambda: osr.array_via_func_from(func=undecorated, obj=p))
    if ok:
        ctx.check(is_array2d_on(aa, b, m) and ctx.close(_np(b.slim), exp_f, 1e-10, scale=fscale), "sampler.array_via_func",
                  function=fd, expected=exp_f, got=lambda: _np(b), **W)
    for variant in (("raw", "stacked") if i % 2 == 0 else ("stacked", "raw"))[:1 if i % 3 else 2]:
        p = P(f)
        if variant == "raw" and i % 4 in (1, 2) and int(np.max(sub)) > 1 and fd["kind"] not in ("step_int", "mask_bool"):
            p.ret = ("list", "tuple")[i % 4 - 1]
            ctx.classes["function_returns:" + p.ret] += 1
        grid = aa.Grid2D.from_mask(mask=mask, over_sampling=aa.OverSamplingUniform(sub_size=arg()))
        gin = np.array(_np(grid), dtype=float)
        ok, res = ctx.guarded("decorator.exception", lambda: getattr(p, variant)(grid))
        if not ok:
            continue
        check_dispatch(ctx, p, res, gin, m, scales, origin, sub, f, fd, variant, W, adaptive=False)
    # --- Grid2DOverSampled container: evaluated on its grid, binned by its sampler
    if i % 3 == 0:
        p = P(f)
        ok, res = ctx.guarded("decorator.exception", lambda: p.raw(aa.Grid2DOverSampled(grid=osr.over_sampled_grid, over_sampler=osr, pixels_in_mask=n)))
        if ok:
            ctx.check(is_array2d_on(aa, res, m) and ctx.close(_np(res.slim), exp_f, 1e-10, scale=fscale), "decorator.container",
                      function=fd, expected=exp_f, got=lambda: _np(res), calls=len(p.log), **W)
        # ... and a container whose carried coordinates are NOT the sampler's own sub-grid (e.g. a deflected / shifted over-sampled
        # grid): the function is evaluated at the coordinates the container carries, binned per pixel
        if fd["kind"] not in ("step_int", "mask_bool", "zero_at_some_centres"):
            own_pts = np.array(_np(osr.over_sampled_grid), dtype=float)
            moved = own_pts + np.array([0.37 * scales[0], -0.21 * scales[1]]) + 0.05 * np.sin(3.0 * own_pts[:, ::-1])
            p2 = P(f)
            ok, res2 = ctx.guarded("decorator.exception", lambda: p2.raw(aa.Grid2DOverSampled(grid=aa.Grid2DIrregular(values=moved.copy()), over_sampler=osr, pixels_in_mask=n)))
            if ok:
                vals = np.asarray(f(moved), dtype=float)
                exp2 = ref_bin(vals, sub)
                ctx.check(is_array2d_on(aa, res2, m) and ctx.close(_np(res2.slim), exp2, 1e-10, scale=func_scale(fd, vals)), "decorator.container",
                          which="carried coordinates differ from the sampler's own sub-grid", function=fd, expected=exp2, got=lambda: _np(res2), **W)
    cls = mask_classes(m, fam, scales, origin) + ["submap:" + skind, "func:" + fd["kind"]]
    if len(set(sub.tolist())) > 1:
        cls.append("submap:mixed_sizes")
    ctx.case("uniform", m, scales, origin, sub, nontrivial=bool((sub > 1).any()), cls=cls,
             sample=lambda: {"kind": "uniform", "mask": m.astype(int).tolist(), "pixel_scales": scales, "origin": origin,
                             "sub_size": sub.tolist(), "function": fd, "sub_pixels": total,
                             "binned_reference_head": exp_f[:4].tolist()})


def check_dispatch(ctx, p, res, gin, m, scales, origin, sub, f, fd, variant, W, adaptive):
    """What did the decorated call evaluate and return? `sub` = the sub-size map in force."""
    aa = ctx.aa
    sub = np.asarray(sub, dtype=int)
    n = int((~m).sum())
    tag = "decorator.adaptive" if adaptive else "decorator.sub"
    calls = [(t, a.shape) for (t, a, _) in p.log]
    if (sub == 1).all():
        # plain evaluation: exactly one call, with the grid itself (the pixel centres), result = f(centres) untouched
        one = (len(p.log) == 1 and p.log[0][1].shape == gin.shape and np.array_equal(p.log[0][1], gin)
               and ctx.close(gin, ref.slim_centres(m, scales, origin), 1e-12))
        ctx.check(one, "decorator.plain.one_call_with_centres", calls=calls, variant=variant, function=fd, **W)
        got = _np(res.slim) if hasattr(res, "slim") else _np(res)
        ctx.check(got.shape == (n,) and np.array_equal(got, f(gin)), "decorator.plain.result", expected=lambda: f(gin), got=got,
                  variant=variant, function=fd, **W)
        if variant == "stacked":
            ctx.check(is_array2d_on(aa, res, m), "decorator.plain.stacked_container", got=type(res).__name__, **W)
        return
    exp_grid = ref_subgrid(m, scales, origin, sub)
    one = len(p.log) == 1 and p.log[0][1].shape == exp_grid.shape and ctx.close(p.log[0][1], exp_grid, 1e-12)
    ctx.check(one, tag + ".probe_grid", calls=calls, variant=variant, function=fd,
              expected=exp_grid, got=lambda: p.log[0][1] if p.log else None, **W)
    vals = f(exp_grid)
    exp = ref_bin(vals, sub)
    fscale = func_scale(fd, vals)
    ctx.check(is_array2d_on(aa, res, m) and ctx.close(_np(res.slim), exp, 1e-10, scale=fscale),
              tag + ".binned", variant=variant, function=fd, expected=exp,
              got=lambda: _np(res), result_type=type(res).__name__, **W)


# ------------------------------------------------------------------------------ adaptive scheme (over_sampling=None)
def check_adaptive(ctx, i):
    aa = ctx.aa
    if not ctx.begin("adaptive:%d" % i):
        return
    r = gen.rng_for(ctx.seed, NO, 2, i)
    m, fam, scales, origin = geometry(r)
    n = int((~m).sum())
    H, Wd = m.shape
    name = ("VerifC09Adapt", "VerifC09Adapt2", "VerifC09Adapt", "VerifC09Ones")[i % 4]
    where = i % 5
    if where == 0:      # far outside the frame: the scheme's outermost bin everywhere
        centre = (origin[0] + 40.0 * scales[0] * H, origin[1] - 40.0 * scales[1] * Wd)
    elif where == 1:    # exactly a pixel centre
        k = int(r.integers(n))
        centre = tuple(float(v) for v in ref.slim_centres(m, scales, origin)[k])
    else:
        centre = (origin[0] + float(r.uniform(-0.5, 0.5)) * H * scales[0], origin[1] + float(r.uniform(-0.5, 0.5)) * Wd * scales[1])
    mask = aa.Mask2D(mask=m.copy(), pixel_scales=scales, origin=origin)
    f, fd = make_func(r, m, scales, origin)
    variant = ("raw", "stacked")[(i // 4) % 2]
    p = ctx.profiles[name](f, centre=centre)
    grid = aa.Grid2D.from_mask(mask=mask)
    gin = np.array(_np(grid), dtype=float)
    W = dict(mask=m, pixel_scales=scales, origin=origin, profile_class=name, centre=centre)
    ok, res = ctx.guarded("decorator.exception", lambda: getattr(p, variant)(grid))
    sub = None
    if ok:
        one = len(p.log) == 1
        sub = infer_sub_map(p.log[0][1], m, scales, origin) if one else None
        ctx.check(one and sub is not None, "decorator.adaptive.map_readable", calls=[(t, a.shape) for (t, a, _) in p.log],
                  got=lambda: p.log[0][1] if p.log else None, variant=variant, function=fd, **W)
        if sub is not None:
            check_dispatch(ctx, p, res, gin, m, scales, origin, sub, f, fd, variant, dict(W, sub_size_read_from_probe=sub), adaptive=True)
    # the default scheme on a grid that is uniformly spaced but DISPLACED from its mask's pixel centres (a constant deflection, an
    # off-centre extent): the function is evaluated at the coordinates the caller passed (plain evaluation for sub-size one)
    if i % 3 == 0:
        shift = np.array([0.37 * scales[0], -0.23 * scales[1]])
        shifted = ref.slim_centres(m, scales, origin) + shift
        gsh = aa.Grid2D(values=shifted.copy(), mask=mask)
        p1 = ctx.profiles["VerifC09Ones"](f, centre=centre)
        okd, resd = ctx.guarded("decorator.exception", lambda: p1.raw(gsh))
        if okd:
            expd = np.asarray(f(shifted), dtype=float)
            gotd = np.asarray(_np(resd.slim) if hasattr(resd, "slim") else _np(resd), dtype=float).reshape(-1)
            ctx.check(gotd.shape == expd.shape and ctx.close(gotd, expd, 1e-10, scale=func_scale(fd, expd)), "decorator.plain.displaced_uniform_grid",
                      shift=shift, function=fd, expected=expd, got=gotd, received=lambda: p1.log[0][1] if p1.log else None, **W)
    cls = mask_classes(m, fam, scales, origin) + ["adaptive:" + name, "func:" + fd["kind"]]
    if sub is not None:
        cls.append("adaptive_map:" + ("all_ones" if set(sub) == {1} else "mixed" if len(set(sub)) > 1 else "uniform_%d" % sub[0]))
    ctx.case("adaptive", m, scales, origin, name, centre, nontrivial=bool(sub is not None and max(sub) > 1), cls=cls,
             sample=lambda: {"kind": "adaptive", "mask": m.astype(int).tolist(), "pixel_scales": scales, "origin": origin,
                             "profile_class": name, "centre": centre, "sub_size_read_from_probe": sub, "function": fd})


# ------------------------------------------------------------------------------ iterate
def run_iterate(ctx, key, m, fam, scales, origin, f, fd, steps, frac, tol, how, hashables, extra_cls=()):
    aa = ctx.aa
    n = int((~m).sum())
    mask = aa.Mask2D(mask=m.copy(), pixel_scales=scales, origin=origin)
    p = ctx.profiles["VerifC09Ones"](f)
    if how == "sampler":
        call = lambda: aa.OverSamplerIterate(mask=mask, sub_steps=list(steps), fractional_accuracy=frac,
                                             relative_accuracy=tol).array_via_func_from(func=undecorated, obj=p)
    else:
        grid = aa.Grid2D.from_mask(mask=mask, over_sampling=aa.OverSamplingIterate(
            fractional_accuracy=frac, relative_accuracy=tol, sub_steps=list(steps)))
        call = lambda: getattr(p, how)(grid)
    exact = fd["kind"] in ("step_int", "mask_bool") and all(int(s_) & (int(s_) - 1) == 0 for s_ in steps) and "zero_at_centres_of_slim_pixels" not in fd
    with np.errstate(all="ignore"):
        exp, levels, ties, cents, paths, fmax = ref_iterate(f, m, scales, origin, list(steps), frac, tol, exact=exact)
    if exact:
        ctx.classes["iterate:exact_level_values(ties_at_the_threshold_judged)"] += 1
    W = dict(mask=m, pixel_scales=scales, origin=origin, function=fd, sub_steps=list(steps), fractional_accuracy=frac,
             absolute_tolerance=tol, entry=how)
    ok, res = ctx.guarded("iterate.exception", call)
    if ok:
        ctx.check(is_array2d_on(aa, res, m), "iterate.result_container", got=type(res).__name__, **W)
        got = np.asarray(_np(res.slim) if hasattr(res, "slim") else _np(res), dtype=float).reshape(-1)
        scale = max(fmax, 1e-2 * float(fd.get("mag", 0.0))) or 1.0   # fmax: largest |f| over every sub-value the reference evaluated
        keep = ~ties
        ctx.skipped["iterate_pixels_on_a_threshold_tie"] += int(ties.sum())
        good = got.shape == exp.shape and bool(np.all(np.abs(got[keep] - exp[keep]) <= 1e-9 * scale))
        wit = dict(W, expected=exp, got=got, reference_stopping_sub_size=levels, pixel_centre_values=cents, tie_pixels=ties,
                   all_centre_values_zero=bool(np.all(cents == 0.0)), result_all_zero=bool(np.all(got == 0.0)),
                   reference_all_zero=bool(np.all(exp == 0.0)), grids_received=[(t, a.shape) for (t, a, _) in p.log])
        ctx.check(good, "iterate.rule", **wit)
        # the same verdict once more under a second name unless the disagreement has the shape of the all-zero-centre
        # shortcut (D6): core caps the witnesses kept per monitor name and worker, so a run of D6 witnesses can never
        # crowd out a different disagreement
        d6_shape = wit["all_centre_values_zero"] and wit["result_all_zero"] and not wit["reference_all_zero"]
        ctx.check(good or d6_shape, "iterate.rule.beyond_zero_shortcut", **wit)
    cls = mask_classes(m, fam, scales, origin) + ["func:" + fd["kind"], "schedule:" + "-".join(str(s) for s in steps),
                                                  "entry:" + how, "frac:%g" % frac, "tol:%s" % tol] + list(extra_cls)
    for s in set(levels):
        cls.append("iter_pixel_stops_at:%d" % s)
    for q in set().union(*paths) if paths else ():
        cls.append("iter_path:" + q)
    if len(set(levels)) > 1:
        cls.append("iter_pixels_stop_at_different_levels")
    if bool(np.all(cents == 0.0)) and not bool(np.all(exp == 0.0)):
        cls.append("iter_all_centres_zero_reference_nonzero(D6 shape)")
    elif bool(np.any(cents == 0.0)) and not bool(np.all(cents == 0.0)):
        cls.append("iter_some_centres_zero")
    nontrivial = bool(np.any(np.abs(exp - cents) > 1e-12 * max(1e-300, float(np.max(np.abs(cents))) if len(cents) else 1.0)))
    ctx.case("iterate", m, scales, origin, repr(fd), tuple(steps), frac, tol, how, *hashables, nontrivial=nontrivial, cls=cls,
             sample=lambda: {"kind": "iterate", "mask": m.astype(int).tolist(), "pixel_scales": scales, "origin": origin,
                             "function": fd, "sub_steps": list(steps), "fractional_accuracy": frac, "absolute_tolerance": tol,
                             "entry": how, "reference_stopping_sub_size": levels, "reference_head": exp[:4].tolist()})


def check_iterate(ctx, i):
    if not ctx.begin("iterate:%d" % i):
        return
    r = gen.rng_for(ctx.seed, NO, 3, i)
    m, fam, scales, origin = geometry(r)
    f, fd = make_func(r, m, scales, origin, kind=FUNC_KINDS[i % len(FUNC_KINDS)])
    sched = SCHEDULES if ctx.tier == "quick" else SCHEDULES_THOROUGH
    j = i // len(FUNC_KINDS)
    steps = sched[j % len(sched)]
    frac = FRACS[(j // len(sched)) % 3]
    if fd["kind"] in ("step_int", "mask_bool") and all(int(s_) & (int(s_) - 1) == 0 for s_ in steps):
        # piecewise-constant functions on power-of-two schedules: thresholds that are met EXACTLY (equal levels at accuracy 1.0,
        # levels 1 and 2 at accuracy 0.5)
        frac = (1.0, 0.5, 0.75)[j % 3]
    tol = TOLS[int(r.integers(4))]
    how = ("raw", "sampler", "stacked")[int(r.integers(3))]
    run_iterate(ctx, "iterate:%d" % i, m, fam, scales, origin, f, fd, steps, frac, tol, how, ())
    if i % 3 == 0:
        # history: a second, different function evaluated through the SAME sampler / the same Grid2D object (whose over
        # sampler is cached) must again obey the rule - per-level state remembered from the first function would show here
        g, gd = make_func(r, m, scales, origin, kind=FUNC_KINDS[(i + 3) % len(FUNC_KINDS)])
        aa = ctx.aa
        mask = aa.Mask2D(mask=m.copy(), pixel_scales=scales, origin=origin)
        p1, p2 = ctx.profiles["VerifC09Ones"](f), ctx.profiles["VerifC09Ones"](g)
        if how == "sampler":
            smp = aa.OverSamplerIterate(mask=mask, sub_steps=list(steps), fractional_accuracy=frac, relative_accuracy=tol)
            calls = [lambda: smp.array_via_func_from(func=undecorated, obj=p1), lambda: smp.array_via_func_from(func=undecorated, obj=p2),
                     lambda: smp.array_via_func_from(func=undecorated, obj=p1)]
        else:
            grid = aa.Grid2D.from_mask(mask=mask, over_sampling=aa.OverSamplingIterate(fractional_accuracy=frac, relative_accuracy=tol, sub_steps=list(steps)))
            calls = [lambda: getattr(p1, how)(grid), lambda: getattr(p2, how)(grid), lambda: getattr(p1, how)(grid)]
        for k, (call, (fn, fnd)) in enumerate(zip(calls, ((f, fd), (g, gd), (f, fd)))):
            with np.errstate(all="ignore"):
                exp, levels, ties, cents, paths, fmax = ref_iterate(fn, m, scales, origin, list(steps), frac, tol)
            ok, res = ctx.guarded("iterate.exception", call)
            if not ok:
                continue
            got = np.asarray(_np(res.slim) if hasattr(res, "slim") else _np(res), dtype=float).reshape(-1)
            scale = max(fmax, 1e-2 * float(fnd.get("mag", 0.0))) or 1.0
            keep = ~ties
            good = got.shape == exp.shape and bool(np.all(np.abs(got[keep] - exp[keep]) <= 1e-9 * scale))
            d6_shape = bool(np.all(cents == 0.0)) and bool(np.all(got == 0.0)) and not bool(np.all(exp == 0.0))
            ctx.check(good or d6_shape, "iterate.rule.sequence_on_one_sampler", call_number=k + 1, mask=m, pixel_scales=scales, origin=origin, function=fnd,
                      sub_steps=list(steps), fractional_accuracy=frac, absolute_tolerance=tol, entry=how, expected=exp, got=got,
                      reference_stopping_sub_size=levels)


def check_d6(ctx):
    """Deterministic D6-shaped inputs: f exactly 0 at every pixel centre, non-zero elsewhere."""
    # (a) the literal of DESIGN D6: one unmasked pixel, f = 1 off-centre
    if ctx.begin("d6:literal"):
        m = np.ones((3, 3), bool)
        m[1, 1] = False
        f = lambda g: np.where((np.abs(np.asarray(g)[:, 0]) < 1e-9) & (np.abs(np.asarray(g)[:, 1]) < 1e-9), 0.0, 1.0)
        run_iterate(ctx, "d6:literal", m, "single", (1.0, 1.0), (0.0, 0.0), f, {"kind": "one_off_centre_zero_at_centre"},
                    [2, 4], 0.9999, None, "stacked", ("d6a",), extra_cls=["d6_unit"])
    for tag, steps, how, c in (("b", [2, 4, 8], "raw", 1), ("c", [3, 5], "sampler", 2)):
        if not ctx.begin("d6:" + tag):
            continue
        r = gen.rng_for(ctx.seed, NO, 4, c)
        m, fam = gen.random_mask(r, 4, 5, "bernoulli")
        scales, origin = gen.scales_origin(r, aniso=True)
        f, fd = make_func(r, m, scales, origin, kind="gauss", zero_all_centres=True)
        run_iterate(ctx, "d6:" + tag, m, fam, scales, origin, f, fd, steps, 0.99, None, how, ("d6" + tag,), extra_cls=["d6_unit"])


def run_unit(ctx, u):
    if u["kind"] == "d6":
        check_d6(ctx)
        return
    fn = {"uniform": check_uniform, "adaptive": check_adaptive, "iterate": check_iterate}
    for g in range(u["start"], u["stop"]):
        kind, j = kind_index(g)
        fn[kind](ctx, j)


def post(merged, inconclusive, tier):
    need = ["submap:per_pixel", "submap:mixed_sizes", "adaptive_map:mixed", "adaptive_map:all_ones",
            "iter_path:fraction_met_abs_tol_not", "iter_path:previous_not_positive", "iter_path:reached_last_level",
            "iter_pixels_stop_at_different_levels", "iter_some_centres_zero",
            "iter_all_centres_zero_reference_nonzero(D6 shape)"]
    for c in need:
        if merged["classes"].get(c, 0) < 1:
            inconclusive.append("input class %r never generated" % c)
