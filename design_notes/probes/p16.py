from common import *
import os
a=aa.Array2D.no_mask(values=np.arange(6.).reshape(2,3),pixel_scales=(1.0,2.0))
try:
    a.output_to_fits('bare.fits',overwrite=True); print('bare ok', os.path.exists('bare.fits'))
except Exception as e: print('bare EXC',repr(e))
try:
    h=a.hdu_for_output; print(dict(h.header))
    b=aa.Array2D.from_primary_hdu(h); print('ps roundtrip',b.pixel_scales, 'vals eq', np.array_equal(b.native.array,a.native.array))
except Exception as e: print('hdu EXC',repr(e))
# flip
conf.instance['general']['fits']['flip_for_ds9']=True
print('flip now', conf.instance['general']['fits']['flip_for_ds9'])
h=a.hdu_for_output; b=aa.Array2D.from_primary_hdu(h); print('2D hdu flip eq', np.array_equal(b.native.array,a.native.array))
a.output_to_fits('/tmp/probe/fits/x/y/f.fits',overwrite=True); b=aa.Array2D.from_fits('/tmp/probe/fits/x/y/f.fits',pixel_scales=1.0); print('2D file flip eq',np.array_equal(b.native.array,a.native.array))
m=aa.Mask2D(mask=np.array([[True,False,False],[False,True,True]]),pixel_scales=1.0)
h=m.hdu_for_output; m2=aa.Mask2D.from_primary_hdu(h); print('mask hdu flip eq',np.array_equal(np.array(m2),np.array(m)))
m.output_to_fits('/tmp/probe/fits/m.fits',overwrite=True); m3=aa.Mask2D.from_fits('/tmp/probe/fits/m.fits',pixel_scales=1.0); print('mask file flip eq',np.array_equal(np.array(m3),np.array(m)))
a1=aa.Array1D.no_mask(values=[1.,2.,3.],pixel_scales=1.0)
h=a1.hdu_for_output; b1=aa.Array1D.from_primary_hdu(h); print('1D hdu flip', b1.native.array)
a1.output_to_fits('/tmp/probe/fits/a1.fits',overwrite=True); print('1D file flip', aa.Array1D.from_fits('/tmp/probe/fits/a1.fits',pixel_scales=1.0).native.array)
k=aa.Kernel2D.no_mask(values=np.arange(15.).reshape(3,5),pixel_scales=1.0)
k2=aa.Kernel2D.from_primary_hdu(k.hdu_for_output); print('kernel hdu flip eq',np.array_equal(k2.native.array,k.native.array))
try:
    a.output_to_fits('/tmp/probe/fits/x/y/f.fits',overwrite=False); print('no overwrite: NO ERROR')
except Exception as e: print('no overwrite raises',type(e).__name__)
