"""
C17 - grid decorators return containers mirroring the input grid, entry k for point k.

Technique: runtime monitoring with probe functions. Harness profile classes (registered by class name in
config/base/grids.yaml: VerifC17Small / VerifC17Mid / VerifC17Big with radial minima 1e-8 / 0.3 / 2.5) carry methods
decorated with the *real* aa.grid_dec.to_array / to_grid / to_vector_yx / project_grid / transform /
relocate_to_radial_minimum of the tree under test. Every method logs the exact grid it receives and returns values
built from an injective coordinate tag  t(y,x) = a*y + b*x + c*sin(p*y + q*x + phi)  (random coefficients, a second
independent tag for the x component of pair results), so each returned entry names the coordinate it was computed
from; distinctness of the tags over the case's coordinate set is measured, not assumed.

Oracle (written from the statement, independent of the decorators' code):
  * Grid2D on any mask/scales/origin (pixel centres or arbitrary per-pixel coordinates): Array2D / Grid2D / VectorYX2D
    on the *same* mask (bits, pixel scales, origin), one entry per unmasked pixel in slim (row-major) order, entry k
    bit-identical to the tag of coordinate k, native form zero in masked pixels; list results wrapped element-wise;
    the function saw the input coordinates unchanged (bit-identical);
  * Grid2DIrregular: ArrayIrregular / Grid2DIrregular / VectorYX2DIrregular with one entry per coordinate, in order;
  * Grid1D (masked or not): the function receives x_k * u for one unit vector u (the radially projected line) and the
    Array1D result (on the same 1-D mask) has entry k = tag(received point k); to_grid results are paired the same way;
  * project_grid: Grid2D -> points centre + k*step*u (k = 0..), step one of the two pixel scales, Array1D of the same
    length with entry k = tag(point k); Grid1D -> x_k * u; Grid2DIrregular -> evaluated as is (ArrayIrregular /
    Grid2DIrregular by result rank);
  * relocate_to_radial_minimum (behind transform, as profiles use it): with r = the profile's radial_grid_from of the
    coordinates in the profile frame, r >= minimum => the coordinate reaches the function bit-identical,
    0 < r < minimum => same ray (unit vectors agree to 1e-12) and radius = minimum to 1e-12 relative; r == 0 exactly is
    excluded (direction undefined) and counted; points are generated inside, exactly on and outside the minimum;
  * transform: the function receives exactly what the profile's transformed_to_reference_frame_grid_from returns (once:
    not again when is_transformed=True is passed) and entry k pairs with input coordinate k.
`to_vector_yx` on a Grid1D is not implemented in the source and not claimed by the statement (not exercised).

VALIDATED against deliberate breaks on scratch worktrees (tools/mutant.py; every one was caught by the QUICK tier;
"suite green" = the repository's 699 baseline tests still pass, i.e. only this check notices):
  suite green, caught:
   * to_array wraps Grid2D results on a mask rebuilt without the origin (same bits)                 -> grid2d.array.container
   * to_vector_yx list results wrapped on a mask rebuilt without the origin                        -> grid2d.list.wrapped
   * to_array list results truncated to the first two elements                                     -> grid2d.list.wrapped
   * to_grid de-duplicates/sorts irregular results (np.unique)                                     -> irregular.grid.pairing
   * to_vector_yx attaches the mask's pixel-centre grid instead of the input grid (deflected grids only) -> grid2d.vector.pairing
   * radial move leaves y unscaled for points with negative y                                      -> radial.inside_radius
   * radial move divides by (r + 1e-20) (visible only for radii ~1e-9 under the 1e-8 minimum)      -> radial.inside_radius
   * transform skipped for Grid2DIrregular inputs                                                  -> transform.received
  killed by the suite as well, caught here too:
   * wrap with mask.derive_mask.all_false (single and list results); irregular results reversed (to_array always /
     only beyond 6 points, to_grid); list order reversed (to_grid); x-only scaling in the radial move; divide by
     (r + 1e-12); Array1D results without the 1-D mask (single and list); projection centre dropped (all / y only);
     (y,x) swapped in VectorYX2DIrregular; |x| instead of x in the Grid1D projection
"""
import numpy as np

from harness import env, gen, ref

ID = "C17"
NO = 17
RULE = ("a case = one input grid (Grid2D on a hostile mask up to 7x8 with anisotropic scales and origin - pixel centres "
        "or arbitrary per-pixel coordinates -, Grid2DIrregular of 1..14 points, Grid1D uniform / masked / arbitrary "
        "values) + one harness profile (class = radial minimum, centre, angle, random injective tag coefficients); "
        "every decorated method of the profile is called on it. distinct = distinct (grid kind, mask bits, coordinate "
        "values, profile class, centre, angle, tag coefficients); non-trivial = at least two coordinates with pairwise "
        "distinct tags (a single-coordinate grid cannot show a re-ordering) ")
BOUNDS = {"quick": "5600 cases = 2400 Grid2D + 1600 Grid2DIrregular + 1600 Grid1D cases; masks up to 7x8",
          "thorough": "210000 cases = 90000 Grid2D + 60000 Grid2DIrregular + 60000 Grid1D cases; masks up to 7x8"}
EXHAUSTIVE = {"quick": False, "thorough": False}
ASSUMPTIONS = [
    "entries are compared bit-exactly with the tag of the coordinate the probe received (containers must not alter values)",
    "radial minimum: r is the harness profile's own radial_grid_from (sqrt(y*y+x*x)) of the coordinates in the profile "
    "frame, so 'on the minimum' is decided by the same numbers the decorator sees; moved radius to 1e-12 relative, ray "
    "to 1e-12; r == 0 exactly excluded (the code maps it to (min, min))",
    "projected lines: collinearity / spacing to 1e-10 of the largest coordinate; the direction convention (angle + 90 "
    "degrees, clockwise) and the number of projected points are not part of the statement and are not judged; what is judged is that one profile's "
    "projected line has the same direction for Grid1D and Grid2D input (project.direction_same_for_1d_and_2d)",
    "to_vector_yx on Grid1D is unimplemented in the source and outside the statement",
]
QUICK_JOBS = 8
_DECIDING = ["grid2d.array.container", "grid2d.array.pairing", "grid2d.grid.pairing", "grid2d.vector.pairing",
             "grid2d.list.wrapped", "grid2d.received_unchanged", "irregular.array.pairing", "irregular.grid.pairing",
             "irregular.vector.pairing", "irregular.list.wrapped", "irregular.received_unchanged", "grid1d.line",
             "grid1d.array.pairing", "grid1d.list.wrapped", "grid1d.grid.pairing", "project.grid2d.line", "project.grid2d.pairing", "project.grid1d.line",
             "project.grid1d.pairing", "project.direction_same_for_1d_and_2d", "project.irregular.pairing", "radial.outside_unchanged", "radial.inside_radius",
             "radial.inside_ray", "radial.result_pairing", "transform.received", "transform.pairing",
             "transform.not_twice"]
MIN_MONITORS = {"*": dict({k: 20 for k in _DECIDING}, **{"radial.plain_array_sequence": 20, "radial.callers_coordinates_untouched": 20,
                                                                      "grid1d.after_in_place_edit": 20, "kwargs.forwarded": 20, "transform.nested_once": 20,
                                                                      "composite.container_mirrors_input": 20, "guarded.container_mirrors_input": 20, "positional.forwarded": 20})}

RADIAL_MIN = {"VerifC17Small": 1e-8, "VerifC17Mid": 0.3, "VerifC17Big": 2.5}


# every unit interleaves the three grid kinds; global case number g -> (kind, per-kind index)
CYCLE = ("grid2d", "irregular", "grid1d", "grid2d", "irregular", "grid1d", "grid2d")
TOTAL = {"quick": 5600, "thorough": 210000}


def kind_index(g):
    c, pos = divmod(g, len(CYCLE))
    kind = CYCLE[pos]
    return kind, c * CYCLE.count(kind) + CYCLE[:pos].count(kind)


def plan(tier, seed):
    n, ch = TOTAL[tier], (70 if tier == "quick" else 490)
    return [{"kind": "mix", "start": s, "stop": min(n, s + ch), "w": min(n, s + ch) - s} for s in range(0, n, ch)]


# ------------------------------------------------------------------------------ probes
class Tags:
    """Two independent injective-by-construction coordinate tags (checked per case)."""

    def __init__(self, rng):
        self.c = [(float(rng.choice([-1, 1]) * rng.uniform(1, 3)), float(rng.choice([-1, 1]) * rng.uniform(1, 3)),
                   float(rng.uniform(0.1, 1.0)), float(rng.uniform(0.3, 2.0)), float(rng.uniform(0.3, 2.0)),
                   float(rng.uniform(0, 6.28))) for _ in range(2)]

    def t(self, g, which=0):
        g = np.asarray(g, dtype=float).reshape(-1, 2)
        a, b, c, p, q, ph = self.c[which]
        return a * g[:, 0] + b * g[:, 1] + c * np.sin(p * g[:, 0] + q * g[:, 1] + ph)

    def pair(self, g):
        return np.stack([self.t(g, 0), self.t(g, 1)], axis=-1)

    def injective_on(self, g):
        g = np.unique(np.asarray(g, dtype=float).reshape(-1, 2), axis=0)    # repeated coordinates share a tag by necessity
        if len(g) < 2:
            return True
        for w in (0, 1):
            v = np.sort(self.t(g, w))
            if np.min(np.diff(v)) <= 0.0:         # entries are compared bit-exactly, so bitwise-distinct tags suffice
                return False
        return True


def make_profiles(aa):
    dec = aa.grid_dec

    def build(name):
        class P:
            def __init__(self, tags, centre=(0.0, 0.0), angle=None):
                self.tags = tags
                self.centre = centre
                self.angle = angle
                self.log = []
                self.frame_log = []

            def see(self, grid):
                self.log.append((type(grid).__name__, np.array(np.asarray(grid), dtype=float).copy()))
                return np.asarray(grid)

            # -- what the library asks a profile to provide
            def radial_grid_from(self, grid, **kwargs):
                g = np.asarray(grid)
                return np.sqrt(g[:, 0] * g[:, 0] + g[:, 1] * g[:, 1])

            def transformed_to_reference_frame_grid_from(self, grid, **kwargs):
                out = np.asarray(grid) - np.asarray(self.centre)
                self.frame_log.append(np.array(out, dtype=float).copy())
                return grid.with_new_array(out) if hasattr(grid, "with_new_array") else out

            # -- decorated user functions
            @dec.to_array
            def f_array(self, grid, *args, **kwargs):
                return self.tags.t(self.see(grid))

            @dec.to_array
            def f_array_list(self, grid, *args, **kwargs):
                g = self.see(grid)
                return [self.tags.t(g, 0), self.tags.t(g, 1), -2.0 * self.tags.t(g, 0)]

            @dec.to_grid
            def f_grid(self, grid, *args, **kwargs):
                return self.tags.pair(self.see(grid))

            @dec.to_grid
            def f_grid_list(self, grid, *args, **kwargs):
                g = self.see(grid)
                return [self.tags.pair(g), self.tags.pair(g)[:, ::-1].copy()]

            @dec.to_vector_yx
            def f_vector(self, grid, *args, **kwargs):
                return self.tags.pair(self.see(grid))

            @dec.to_vector_yx
            def f_vector_list(self, grid, *args, **kwargs):
                g = self.see(grid)
                return [self.tags.pair(g), 3.0 * self.tags.pair(g)]

            @dec.project_grid
            def f_project(self, grid, *args, **kwargs):
                return self.tags.t(self.see(grid))

            @dec.project_grid
            def f_project_pairs(self, grid, *args, **kwargs):
                return self.tags.pair(self.see(grid))

            @dec.to_grid
            @dec.transform
            @dec.relocate_to_radial_minimum
            def f_moved(self, grid, *args, **kwargs):
                return np.array(self.see(grid), dtype=float)          # returns the coordinates that reached it

            # -- keyword parameters of the user function (forwarded by the decorators for every kind of grid)
            @dec.to_array
            def f_kw(self, grid, *args, scale=1.0, offset=0.0, **kwargs):
                return scale * self.tags.t(self.see(grid)) + offset

            # -- extra POSITIONAL parameters of the user function (profile.f(grid, 2.0)), for each of the three wrapping decorators
            @dec.to_array
            def f_pos_array(self, grid, scale, offset=0.0, *args, **kwargs):
                return scale * self.tags.t(self.see(grid)) + offset

            @dec.to_grid
            def f_pos_grid(self, grid, scale, offset=0.0, *args, **kwargs):
                return scale * self.tags.pair(self.see(grid)) + offset

            @dec.to_vector_yx
            def f_pos_vector(self, grid, scale, offset=0.0, *args, **kwargs):
                return scale * self.tags.pair(self.see(grid)) + offset

            # -- a decorated function whose body calls another transform-decorated method and forwards its keyword arguments
            @dec.transform
            def inner(self, grid, *args, **kwargs):
                return self.tags.t(self.see(grid))

            @dec.to_array
            @dec.transform
            def f_nested(self, grid, *args, **kwargs):
                return self.inner(grid, **kwargs)

            # -- three levels (potential -> deflections -> convergence), each transform-decorated and forwarding **kwargs
            @dec.transform
            def inner2(self, grid, *args, **kwargs):
                return self.inner(grid, **kwargs)

            @dec.to_array
            @dec.transform
            def f_nested3(self, grid, *args, **kwargs):
                return self.inner2(grid, **kwargs)

            # -- decorated functions whose body combines the results of other decorated functions (a galaxy summing its profiles):
            #    what they return already is an autoarray structure, built for the grid the BODY received
            @dec.to_array
            def f_sum_of_parts(self, grid, *args, **kwargs):
                return self.f_array(grid) + 2.0 * self.f_array(grid)

            @dec.to_array
            def f_parts_list(self, grid, *args, **kwargs):
                return [self.f_array(grid), 3.0 * self.f_array(grid)]

            # -- public methods guarded by the radial minimum that delegate to the other decorated methods
            @dec.relocate_to_radial_minimum
            def f_guarded_array(self, grid, *args, **kwargs):
                return self.f_array(grid)

            @dec.relocate_to_radial_minimum
            def f_guarded_list(self, grid, *args, **kwargs):
                return self.f_array_list(grid)

            @dec.relocate_to_radial_minimum
            def f_guarded_grid(self, grid, *args, **kwargs):
                return self.f_grid(grid)

            @dec.relocate_to_radial_minimum
            def f_guarded_vector(self, grid, *args, **kwargs):
                return self.f_vector(grid)

            @dec.relocate_to_radial_minimum
            def f_moved_only(self, grid, *args, **kwargs):
                return np.array(self.see(grid), dtype=float)

            @dec.to_array
            @dec.transform
            def f_transformed(self, grid, *args, **kwargs):
                return self.tags.t(self.see(grid))

        P.__name__ = P.__qualname__ = name
        return P

    # The three classes share ONE set of decorated methods through inheritance (as real profile hierarchies do): per-class
    # configuration such as the radial minimum must be resolved per call from the class of the object, not remembered per
    # decorated function.
    names = list(RADIAL_MIN)
    base = build(names[0])
    out = {names[0]: base}
    for n in names[1:]:
        out[n] = type(n, (base,), {})
    return out


def _np(x):
    return np.asarray(x.array if hasattr(x, "array") and not isinstance(x, np.ndarray) else x)


def setup(ctx):
    ctx.aa = env.boot("base")
    ctx.profiles = make_profiles(ctx.aa)


def teardown(ctx):
    pass


# ------------------------------------------------------------------------------ small oracles
def same_mask2d(res, m, scales, origin):
    try:
        mk = res.mask
        return (np.array_equal(np.asarray(mk).astype(bool), m) and tuple(float(v) for v in mk.pixel_scales) == tuple(scales)
                and tuple(float(v) for v in mk.origin) == tuple(origin))
    except Exception:
        return False


def native_of(vals, m):
    out = np.zeros(m.shape + vals.shape[1:], dtype=float)
    out[~m] = vals
    return out


def wrapped_2d(aa, res, cls, m, scales, origin, exp):
    """res is a `cls` on exactly this mask holding exp (slim order) and zero-filled native."""
    if not isinstance(res, cls) or not same_mask2d(res, m, scales, origin):
        return False
    sl = _np(res.slim)
    return sl.shape == exp.shape and np.array_equal(sl, exp) and np.array_equal(_np(res.native), native_of(exp, m))


def wrapped_irr(res, cls, exp):
    return isinstance(res, cls) and _np(res).shape == exp.shape and np.array_equal(_np(res), exp)


def on_one_line(pts, coords_1d, tol):
    """pts[k] == coords_1d[k] * u for a single unit vector u."""
    pts = np.asarray(pts, dtype=float)
    x = np.asarray(coords_1d, dtype=float)
    if pts.shape != (len(x), 2):
        return False
    k = int(np.argmax(np.abs(x)))
    if abs(x[k]) == 0.0:
        return bool(np.all(np.abs(pts) <= tol))
    u = pts[k] / x[k]
    if abs(np.hypot(u[0], u[1]) - 1.0) > 1e-9:
        return False
    return bool(np.all(np.abs(pts - x[:, None] * u[None, :]) <= tol))


def rand_centre_angle(r, extent=1.0):
    c = (0.0, 0.0) if r.random() < 0.2 else (float(r.normal() * extent), float(r.normal() * extent))
    u = r.random()
    a = None if u < 0.25 else (0.0 if u < 0.35 else float(r.uniform(-180.0, 180.0)))
    return c, a


def tags_for(r, coord_sets, ctx):
    """Tags that are injective on each of the coordinate sets the case will show to a function."""
    for _ in range(6):
        t = Tags(r)
        if all(t.injective_on(c) for c in coord_sets):
            return t
    ctx.skipped["tag_not_injective_on_the_coordinates"] += 1
    return None


# ------------------------------------------------------------------------------ shared sub-checks
def check_radial_and_transform(ctx, prof_name, p, grid, gin, W, out_cls, wrap_ok):
    """f_moved (to_grid . transform . relocate_to_radial_minimum) and f_transformed on any 2-D input grid."""
    mn = RADIAL_MIN[prof_name]
    frame = gin - np.asarray(p.centre)                     # profile frame (the harness's own transform)
    r = np.sqrt(frame[:, 0] * frame[:, 0] + frame[:, 1] * frame[:, 1])
    p.log.clear()
    p.frame_log.clear()
    ok, res = ctx.guarded("radial.exception", lambda: p.f_moved(grid))
    if ok and len(p.log) == 1 and p.log[0][1].shape == gin.shape:
        got = p.log[0][1]
        far, near, zero = r >= mn, (r > 0) & (r < mn), r == 0
        ctx.skipped["radial_r_exactly_zero_direction_undefined"] += int(zero.sum())
        ctx.check(np.array_equal(got[far], frame[far]), "radial.outside_unchanged", radial_minimum=mn, radii=r, sent=frame,
                  received=got, **W)
        if near.any():
            rr = np.sqrt(got[near, 0] ** 2 + got[near, 1] ** 2)
            ctx.check(bool(np.all(np.abs(rr - mn) <= 1e-12 * mn)), "radial.inside_radius", radial_minimum=mn, radii_before=r[near],
                      radii_after=rr, sent=frame[near], received=got[near], **W)
            with np.errstate(all="ignore"):
                du = got[near] / rr[:, None] - frame[near] / r[near][:, None]
            ctx.check(bool(np.all(np.abs(du) <= 1e-12)), "radial.inside_ray", radial_minimum=mn, sent=frame[near], received=got[near], **W)
        if zero.any():
            # a coordinate exactly on the profile centre has no direction to be moved along; what must still hold is that the
            # function never receives a non-finite coordinate or one inside the minimum
            gz = got[zero]
            with np.errstate(all="ignore"):
                rz = np.sqrt(gz[:, 0] ** 2 + gz[:, 1] ** 2)
            ctx.check(bool(np.isfinite(gz).all() and np.all(rz >= mn * (1 - 1e-12))), "radial.centre_point_leaves_the_minimum", radial_minimum=mn,
                      received=gz, **W)
        if zero.any() or near.any():
            # the same call in a process that treats floating point errors as errors (np.seterr(all="raise"), warnings as errors):
            # whatever the guard divides by internally stays internal - the function still gets its coordinates
            p.log.clear()
            p.frame_log.clear()
            with np.errstate(all="raise"):
                oks, res_s = ctx.guarded("radial.strict_floating_point_settings", lambda: p.f_moved(grid))
            if oks:
                ctx.check(len(p.log) == 1 and p.log[0][1].shape == got.shape and np.array_equal(p.log[0][1], got, equal_nan=True),
                          "radial.strict_floating_point_settings", radial_minimum=mn, received_default=got, received_strict=lambda: p.log[0][1] if p.log else None, **W)
        keep = ~zero
        ctx.check(isinstance(res, out_cls) and wrap_ok(res) and _np(res if not hasattr(res, "slim") else res.slim).shape == got.shape
                  and np.array_equal(_np(res if not hasattr(res, "slim") else res.slim)[keep], got[keep]),
                  "radial.result_pairing", result_type=type(res).__name__, received=got, got=lambda: _np(res), **W)
        for c, msk in (("radial:inside", near), ("radial:outside", far & (r > mn)), ("radial:exactly_on", r == mn), ("radial:r_zero", zero)):
            if msk.any():
                ctx.classes[c] += 1
    elif ok:
        ctx.check(False, "radial.one_call", calls=[(t, a.shape) for (t, a) in p.log], **W)
    ctx.check(np.array_equal(np.asarray(grid), gin), "radial.callers_coordinates_untouched", how="decorator stack on the grid object",
              sent=gin, now=lambda: np.asarray(grid), **W)
    # the relocation used on its own on coordinates the caller owns as a plain array, then the SAME array evaluated by a profile
    # of another class (another radial minimum): both evaluations are judged against the coordinates the caller supplied
    raw = frame.copy()
    others = [n for n in RADIAL_MIN if n != prof_name]
    q = ctx.profiles[others[int(gin.shape[0]) % 2]](p.tags, centre=p.centre, angle=p.angle)
    for who, nm in ((p, prof_name), (q, type(q).__name__), (p, prof_name)):
        m_ = RADIAL_MIN[nm]
        who.log.clear()
        ok, res = ctx.guarded("radial.exception", lambda: who.f_moved_only(raw))
        if not ok:
            continue
        if len(who.log) != 1 or who.log[0][1].shape != frame.shape:
            ctx.check(False, "radial.one_call", calls=[(t, a.shape) for (t, a) in who.log], how="plain array", **W)
            continue
        got = who.log[0][1]
        far, near = r >= m_, (r > 0) & (r < m_)
        good = np.array_equal(got[far], frame[far])
        if near.any():
            rr = np.sqrt(got[near, 0] ** 2 + got[near, 1] ** 2)
            with np.errstate(all="ignore"):
                du = got[near] / rr[:, None] - frame[near] / r[near][:, None]
            good = good and bool(np.all(np.abs(rr - m_) <= 1e-12 * m_)) and bool(np.all(np.abs(du) <= 1e-12))
        ctx.check(good, "radial.plain_array_sequence", evaluating_class=nm, radial_minimum=m_, supplied=frame, received=got, **W)
        ctx.check(np.array_equal(raw, frame), "radial.callers_coordinates_untouched", how="plain array, relocation alone",
                  evaluating_class=nm, sent=frame, now=raw.copy(), **W)
        who.log.clear()
    # transform alone
    p.log.clear()
    p.frame_log.clear()
    ok, res = ctx.guarded("transform.exception", lambda: p.f_transformed(grid))
    if ok:
        ctx.check(len(p.log) == 1 and len(p.frame_log) == 1 and p.log[0][1].shape == frame.shape and np.array_equal(p.log[0][1], frame),
                  "transform.received", expected=frame, calls=[(t, a.shape) for (t, a) in p.log], got=lambda: p.log[0][1] if p.log else None, **W)
        exp = p.tags.t(frame)
        sl = _np(res.slim) if hasattr(res, "slim") else _np(res)
        ctx.check(wrap_ok(res) and sl.shape == exp.shape and np.array_equal(sl, exp), "transform.pairing", expected=exp, got=sl,
                  result_type=type(res).__name__, **W)
    p.log.clear()
    p.frame_log.clear()
    ok, res = ctx.guarded("transform.exception", lambda: p.f_transformed(grid, is_transformed=True))
    if ok:
        exp = p.tags.t(gin)
        sl = _np(res.slim) if hasattr(res, "slim") else _np(res)
        ctx.check(len(p.frame_log) == 0 and len(p.log) == 1 and np.array_equal(p.log[0][1], gin) and np.array_equal(sl, exp),
                  "transform.not_twice", transforms=len(p.frame_log), expected=exp, got=sl, **W)


def check_composite(ctx, p, grid, W, is_container):
    """A decorated function that returns the (already wrapped) results of other decorated functions: the container of the
    outer result still mirrors the grid the CALLER passed (its type and mask), element by element for lists."""
    ok, res, log = call_logged(ctx, p, "composite.exception", p.f_sum_of_parts, grid)
    if ok and len(log) == 2:
        exp = p.tags.t(log[0][1]) + 2.0 * p.tags.t(log[1][1])
        good = is_container(res) and _np(res.slim if hasattr(res, "slim") else res).shape == exp.shape \
            and np.array_equal(_np(res.slim if hasattr(res, "slim") else res), exp)
        ctx.check(good, "composite.container_mirrors_input", method="f_sum_of_parts", grid_type=type(grid).__name__,
                  result_type=type(res).__name__, expected=exp, got=lambda: _np(res), **W)
    ok, res, log = call_logged(ctx, p, "composite.exception", p.f_parts_list, grid)
    if ok and len(log) == 2:
        exp = [p.tags.t(log[0][1]), 3.0 * p.tags.t(log[1][1])]
        good = isinstance(res, list) and len(res) == 2 and all(
            is_container(q) and np.array_equal(_np(q.slim if hasattr(q, "slim") else q), e) for q, e in zip(res, exp))
        ctx.check(good, "composite.container_mirrors_input", method="f_parts_list", grid_type=type(grid).__name__,
                  result_type=[type(q).__name__ for q in res] if isinstance(res, list) else type(res).__name__, expected=exp, **W)


def check_guarded(ctx, aa, prof_name, p, grid, gin, W, kinds, wrap_ok):
    """The radial-minimum guard as the OUTER decorator of methods that delegate to to_array / to_grid / to_vector_yx methods: the
    container still mirrors the caller's grid (type, mask), entry k belongs to coordinate k of the relocated grid."""
    mn = RADIAL_MIN[prof_name]
    r = np.sqrt(gin[:, 0] ** 2 + gin[:, 1] ** 2)
    for meth, cls_, val in (("f_guarded_array", kinds[0], lambda g: p.tags.t(g)), ("f_guarded_grid", kinds[1], lambda g: p.tags.pair(g)),
                            ("f_guarded_vector", kinds[2], lambda g: p.tags.pair(g)), ("f_guarded_list", kinds[0], None)):
        ok, res, log = call_logged(ctx, p, "guarded.exception", getattr(p, meth), grid)
        if not ok or len(log) != 1 or log[0][1].shape != gin.shape:
            if ok:
                ctx.check(False, "guarded.container_mirrors_input", method=meth, calls=[(t, a.shape) for (t, a) in log], **W)
            continue
        got = log[0][1]
        far = r >= mn
        moved_ok = np.array_equal(got[far], gin[far])
        near = (r > 0) & (r < mn)
        if near.any():
            rr = np.sqrt(got[near, 0] ** 2 + got[near, 1] ** 2)
            moved_ok = moved_ok and bool(np.all(np.abs(rr - mn) <= 1e-12 * mn))
        items = res if isinstance(res, list) else [res]
        exps = [val(got)] if val is not None else [p.tags.t(got, 0), p.tags.t(got, 1), -2.0 * p.tags.t(got, 0)]
        good = (val is not None or isinstance(res, list)) and len(items) == len(exps)
        for q, e in zip(items, exps):
            good = good and isinstance(q, cls_) and wrap_ok(q)
            if good:
                v = _np(q.slim) if hasattr(q, "slim") else _np(q)
                good = v.shape == e.shape and np.array_equal(v, e)
        ctx.check(good and moved_ok, "guarded.container_mirrors_input", method=meth, grid_type=type(grid).__name__, radial_minimum=mn,
                  result_type=[type(q).__name__ for q in items], received=got, **W)


def check_kwargs_and_nesting(ctx, p, grid, W, frame=None):
    """Keyword parameters reach the user function for every grid kind; a function that delegates to another transform-decorated
    method (forwarding **kwargs) sees coordinates moved to the profile frame exactly once, whether the caller omits
    `is_transformed` or passes False explicitly."""
    ok, res, log = call_logged(ctx, p, "kwargs.exception", p.f_kw, grid, scale=-2.5, offset=0.75)
    if ok:
        if len(log) == 1:
            exp = -2.5 * p.tags.t(log[0][1]) + 0.75
            got = _np(res.slim) if hasattr(res, "slim") else _np(res)
            ctx.check(got.shape == exp.shape and np.array_equal(got, exp), "kwargs.forwarded", grid_type=type(grid).__name__, keywords={"scale": -2.5, "offset": 0.75},
                      expected=exp, got=got, **W)
        else:
            ctx.check(False, "kwargs.forwarded", grid_type=type(grid).__name__, calls=len(log), **W)
    for meth, val in (("f_pos_array", lambda g: p.tags.t(g)), ("f_pos_grid", lambda g: p.tags.pair(g)), ("f_pos_vector", lambda g: p.tags.pair(g))):
        if meth == "f_pos_vector" and type(grid).__name__ == "Grid1D":
            continue                      # vector fields on 1-D grids are not offered by the decorator (NotImplementedError by design)
        for call_args in ((-2.5,), (-2.5, 0.75)):
            ok, res, log = call_logged(ctx, p, "positional.forwarded", getattr(p, meth), grid, *call_args)
            if ok and len(log) == 1:
                exp = call_args[0] * val(log[0][1]) + (call_args[1] if len(call_args) > 1 else 0.0)
                got = _np(res.slim) if hasattr(res, "slim") else _np(res)
                ctx.check(got.shape == exp.shape and np.array_equal(got, exp), "positional.forwarded", method=meth, grid_type=type(grid).__name__,
                          positional_arguments=list(call_args), expected=exp, got=got, **W)
            elif ok:
                ctx.check(False, "positional.forwarded", method=meth, grid_type=type(grid).__name__, calls=len(log), **W)
    if frame is None:
        return
    for how, kw in (("flag omitted", {}), ("is_transformed=False", {"is_transformed": False})):
        p.log.clear()
        p.frame_log.clear()
        for depth, meth in ((2, "f_nested"), (3, "f_nested3")):
            p.log.clear()
            p.frame_log.clear()
            ok, res = ctx.guarded("transform.exception", lambda: getattr(p, meth)(grid, **kw))
            if ok:
                got = _np(res.slim) if hasattr(res, "slim") else _np(res)
                good = (len(p.frame_log) == 1 and len(p.log) == 1 and p.log[0][1].shape == frame.shape and np.array_equal(p.log[0][1], frame)
                        and np.array_equal(got, p.tags.t(frame)))
                ctx.check(good, "transform.nested_once", caller=how, nesting_depth=depth, transforms=len(p.frame_log), expected_received=frame,
                          received=lambda: p.log[0][1] if p.log else None, **W)
    p.log.clear()
    p.frame_log.clear()


def call_logged(ctx, p, monitor, fn, *a, **k):
    p.log.clear()
    ok, res = ctx.guarded(monitor, fn, *a, **k)
    return ok, res, list(p.log)


# ------------------------------------------------------------------------------ Grid2D
def check_grid2d(ctx, i):
    aa = ctx.aa
    if not ctx.begin("grid2d:%d" % i):
        return
    r = gen.rng_for(ctx.seed, NO, 1, i)
    big = r.random() < 0.6
    H, Wd = (int(r.integers(3, 8)), int(r.integers(3, 9))) if big else (int(r.integers(1, 8)), int(r.integers(1, 9)))
    m, fam = gen.random_mask(r, H, Wd)
    n = int((~m).sum())
    prof_name = list(RADIAL_MIN)[i % 3]
    mn = RADIAL_MIN[prof_name]
    if prof_name == "VerifC17Big":
        scales, origin = gen.mild_scales_origin(r)
    elif prof_name == "VerifC17Mid":
        scales, origin = (float(r.uniform(0.05, 0.4)), float(r.uniform(0.05, 0.4))), (float(r.normal() * 0.2), float(r.normal() * 0.2))
    else:
        scales, origin = gen.scales_origin(r, aniso=True)
    mask = aa.Mask2D(mask=m.copy(), pixel_scales=scales, origin=origin)
    cen = ref.slim_centres(m, scales, origin)
    arbitrary = i % 4 == 3
    scheme = aa.OverSamplingUniform(sub_size=int(r.integers(1, 4))) if i % 3 == 1 else None      # a grid that carries an over sampling scheme
    if arbitrary:           # a masked grid whose coordinates are not the pixel centres (e.g. a deflected grid)
        vals = cen + r.normal(size=cen.shape) * max(scales)
        grid = aa.Grid2D(values=vals.copy(), mask=mask, over_sampling=scheme)
    else:
        grid = aa.Grid2D.from_mask(mask=mask, over_sampling=scheme)
    gin = np.array(_np(grid.slim), dtype=float)
    # profile centre: at / next to a coordinate (inside the minimum), exactly on it (r == 0), or anywhere
    mode = (i // 3) % 4
    k = int(r.integers(n))
    if mode == 0:
        th = float(r.uniform(0, 2 * np.pi))
        d = mn * float(10 ** r.uniform(-3, -0.05))
        centre = (float(gin[k, 0] + d * np.sin(th)), float(gin[k, 1] + d * np.cos(th)))
    elif mode == 1:
        centre = (float(gin[k, 0]), float(gin[k, 1]))
    elif mode == 2:
        centre = (0.0, 0.0)
    else:
        centre = (float(origin[0] + r.normal() * H * scales[0] / 3), float(origin[1] + r.normal() * Wd * scales[1] / 3))
    angle = None if r.random() < 0.25 else float(r.uniform(-180.0, 180.0))
    tags = tags_for(r, [gin, gin - np.asarray(centre)], ctx)
    if tags is None:
        return
    p = ctx.profiles[prof_name](tags, centre=centre, angle=angle)
    W = dict(mask=m, pixel_scales=scales, origin=origin, coordinates=gin, profile_class=prof_name, centre=centre, angle=angle,
             tag_coefficients=tags.c)
    if arbitrary:
        ok0 = np.array_equal(gin, vals)
    else:
        ok0 = ctx.close(gin, cen, 1e-12)
    ctx.check(ok0, "grid2d.input_is_slim_ordered", expected=vals if arbitrary else cen, got=gin, **W)
    t0, tp = tags.t(gin), tags.pair(gin)

    def unchanged(log):
        return len(log) == 1 and log[0][0] == "Grid2D" and log[0][1].shape == gin.shape and np.array_equal(log[0][1], gin)

    # to_array
    ok, res, log = call_logged(ctx, p, "grid2d.exception", p.f_array, grid)
    if ok:
        ctx.check(unchanged(log), "grid2d.received_unchanged", method="f_array", calls=[(t, a.shape) for (t, a) in log], got=lambda: log[0][1] if log else None, **W)
        ctx.check(isinstance(res, aa.Array2D) and same_mask2d(res, m, scales, origin) and _np(res.slim).shape == (n,),
                  "grid2d.array.container", result_type=type(res).__name__, result_mask=lambda: np.asarray(res.mask), **W)
        ctx.check(wrapped_2d(aa, res, aa.Array2D, m, scales, origin, t0), "grid2d.array.pairing", expected=t0, got=lambda: _np(res), **W)
    ok, res, log = call_logged(ctx, p, "grid2d.exception", p.f_array_list, grid)
    if ok:
        exp = [t0, tags.t(gin, 1), -2.0 * t0]
        ctx.check(isinstance(res, list) and len(res) == 3 and all(wrapped_2d(aa, q, aa.Array2D, m, scales, origin, e) for q, e in zip(res, exp)),
                  "grid2d.list.wrapped", method="f_array_list", result_types=lambda: [type(q).__name__ for q in res] if isinstance(res, list) else type(res).__name__,
                  expected=exp, got=lambda: [_np(q) for q in res] if isinstance(res, list) else None, **W)
    # to_grid
    ok, res, log = call_logged(ctx, p, "grid2d.exception", p.f_grid, grid)
    if ok:
        ctx.check(unchanged(log), "grid2d.received_unchanged", method="f_grid", calls=[(t, a.shape) for (t, a) in log], **W)
        ctx.check(wrapped_2d(aa, res, aa.Grid2D, m, scales, origin, tp), "grid2d.grid.pairing", result_type=type(res).__name__, expected=tp, got=lambda: _np(res), **W)
    single_grid = res if ok else None
    ok, res, log = call_logged(ctx, p, "grid2d.exception", p.f_grid_list, grid)
    if ok:
        exp = [tp, tp[:, ::-1]]
        ctx.check(isinstance(res, list) and len(res) == 2 and all(wrapped_2d(aa, q, aa.Grid2D, m, scales, origin, e) for q, e in zip(res, exp)),
                  "grid2d.list.wrapped", method="f_grid_list", expected=exp, got=lambda: [_np(q) for q in res] if isinstance(res, list) else None, **W)
        # "wrapped element by element": every element is wrapped the way the single result is - including the over sampling scheme
        # the result grid carries on from the input grid
        if isinstance(res, list) and isinstance(single_grid, aa.Grid2D) and all(isinstance(q, aa.Grid2D) for q in res):
            ctx.check(all(q.over_sampling is single_grid.over_sampling for q in res), "grid2d.list.wrapped_like_single", method="f_grid_list",
                      input_scheme=repr(grid.over_sampling)[:80], single_result_scheme=repr(single_grid.over_sampling)[:80],
                      element_schemes=[repr(q.over_sampling)[:80] for q in res], **W)
    # to_vector_yx
    ok, res, log = call_logged(ctx, p, "grid2d.exception", p.f_vector, grid)
    if ok:
        ctx.check(unchanged(log), "grid2d.received_unchanged", method="f_vector", calls=[(t, a.shape) for (t, a) in log], **W)
        ctx.check(wrapped_2d(aa, res, aa.VectorYX2D, m, scales, origin, tp) and np.array_equal(_np(res.grid.slim), gin),
                  "grid2d.vector.pairing", result_type=type(res).__name__, expected=tp, got=lambda: _np(res), **W)
    if i % 4 == 1:
        # the same grid stored in its native (2-D) form: the vector field still has one entry per unmasked pixel in slim order and
        # the grid it carries pairs with it entry by entry (vectors[k] sits at vectors.grid[k])
        try:
            resn = p.f_vector(grid.native)
        except Exception:
            resn = None
            ctx.skipped["grid2d.vector.native_stored_input:raised"] += 1
        if resn is not None:
            ctx.check(isinstance(resn, aa.VectorYX2D) and same_mask2d(resn, m, scales, origin) and _np(resn).shape == (n, 2)
                      and _np(resn.grid).shape == (n, 2) and np.array_equal(_np(resn.grid), gin),
                      "grid2d.vector.pairing", input="native-stored Grid2D", result_type=type(resn).__name__, vectors_shape=lambda: _np(resn).shape,
                      carried_grid_shape=lambda: _np(resn.grid).shape, **W)
            ctx.classes["vector_field_from_native_stored_grid"] += 1
    ok, res, log = call_logged(ctx, p, "grid2d.exception", p.f_vector_list, grid)
    if ok:
        exp = [tp, 3.0 * tp]
        ctx.check(isinstance(res, list) and len(res) == 2 and all(wrapped_2d(aa, q, aa.VectorYX2D, m, scales, origin, e) and
                                                                   np.array_equal(_np(q.grid.slim), gin) for q, e in zip(res, exp)),
                  "grid2d.list.wrapped", method="f_vector_list", expected=exp, got=lambda: [_np(q) for q in res] if isinstance(res, list) else None, **W)
    # project_grid: radial line from the profile centre
    ok, res, log = call_logged(ctx, p, "project.exception", p.f_project, grid)
    if ok:
        line = log[0][1] if len(log) == 1 else None
        good = False
        if line is not None and line.ndim == 2 and line.shape[1] == 2 and len(line) >= 1:
            tol = 1e-10 * max(1.0, float(np.max(np.abs(line))))
            rel = line - np.asarray(centre)
            good = bool(np.all(np.abs(rel[0]) <= tol))
            if len(line) > 1:
                step = float(np.hypot(*rel[1]))
                good = good and any(abs(step - s) <= 1e-9 * s for s in scales) and on_one_line(rel, step * np.arange(len(line)), tol)
        ctx.check(good, "project.grid2d.line", calls=[(t, a.shape) for (t, a) in log], received=line, **W)
        if line is not None:
            exp = tags.t(line)
            ctx.check(isinstance(res, aa.Array1D) and _np(res.slim).shape == exp.shape and np.array_equal(_np(res.slim), exp)
                      and not np.asarray(res.mask).any(), "project.grid2d.pairing", result_type=type(res).__name__, expected=exp, got=lambda: _np(res), **W)
            ctx.classes["project2d_points:%s" % ("1" if len(line) == 1 else "2-4" if len(line) <= 4 else "5+")] += 1
    # a spherical profile: it has a centre but no `angle` attribute at all - the projected line still starts at its centre
    p_sph = ctx.profiles[prof_name](tags, centre=centre, angle=None)
    del p_sph.angle
    ok, res, log = call_logged(ctx, p_sph, "project.exception", p_sph.f_project, grid)
    if ok:
        line = log[0][1] if len(log) == 1 else None
        good = line is not None and line.ndim == 2 and line.shape[1] == 2 and len(line) >= 1 and \
            bool(np.all(np.abs(line[0] - np.asarray(centre)) <= 1e-10 * max(1.0, float(np.max(np.abs(line))))))
        ctx.check(good, "project.grid2d.line", profile="has a centre and no angle attribute", received=line, **W)
    # radial minimum + transform
    check_radial_and_transform(ctx, prof_name, p, grid, gin, W, aa.Grid2D,
                               lambda q: same_mask2d(q, m, scales, origin))
    check_kwargs_and_nesting(ctx, p, grid, W, frame=gin - np.asarray(p.centre))
    check_composite(ctx, p, grid, W, lambda q: isinstance(q, aa.Array2D) and same_mask2d(q, m, scales, origin))
    check_guarded(ctx, aa, prof_name, p, grid, gin, W, (aa.Array2D, aa.Grid2D, aa.VectorYX2D), lambda q: same_mask2d(q, m, scales, origin))
    cls = ["grid2d", "mask:" + fam, "profile:" + prof_name, "coords:" + ("arbitrary" if arbitrary else "pixel_centres"),
           "centre_mode:%d" % mode, "angle:" + ("none" if angle is None else "set")]
    if not m.any():
        cls.append("all_unmasked")
    if H != Wd:
        cls.append("non_square")
    ctx.case("grid2d", m, scales, origin, gin, prof_name, centre, angle, repr(tags.c), nontrivial=n >= 2, cls=cls,
             sample=lambda: {"kind": "grid2d", "mask": m.astype(int).tolist(), "pixel_scales": scales, "origin": origin,
                             "coordinates": "arbitrary" if arbitrary else "pixel centres", "profile_class": prof_name,
                             "radial_minimum": mn, "centre": centre, "angle": angle, "tag_coefficients": tags.c,
                             "first_entries": {"coordinate": gin[:2].tolist(), "tag": t0[:2].tolist()}})


# ------------------------------------------------------------------------------ Grid2DIrregular
def check_irregular(ctx, i):
    aa = ctx.aa
    if not ctx.begin("irregular:%d" % i):
        return
    r = gen.rng_for(ctx.seed, NO, 2, i)
    prof_name = list(RADIAL_MIN)[i % 3]
    mn = RADIAL_MIN[prof_name]
    centre, angle = rand_centre_angle(r, extent=max(1.0, 3 * mn) if mn > 1e-6 else 1.0)
    n = int(r.integers(1, 15))
    # points inside, exactly on, outside the minimum around the centre, and (sometimes) the centre itself
    pts = []
    for k in range(n):
        kind = int(r.integers(5))
        th = float(r.uniform(0, 2 * np.pi))
        if kind == 0:
            rad = mn * float(10 ** r.uniform(-4, -0.01))
        elif kind == 1:
            rad = mn
            th = float(r.choice([0.0, 0.5, 1.0, 1.5])) * np.pi        # axis aligned: radius exactly the minimum when centre = 0
        elif kind == 2:
            rad = mn * float(1 + 10 ** r.uniform(-6, 1))
        elif kind == 3 and i % 7 == 0:
            rad = 0.0
        else:
            rad = float(abs(r.normal()) * max(1.0, 2 * mn) + 1e-3)
        off = np.array([rad * np.sin(th), rad * np.cos(th)])
        if kind == 1:
            off = np.where(np.abs(off) < 0.5 * rad, 0.0, np.sign(off) * rad)    # (+-min, 0) or (0, +-min) exactly
        pts.append(np.asarray(centre) + off)
    gin = np.array(pts, dtype=float).reshape(n, 2)
    grid = aa.Grid2DIrregular(values=gin.copy())
    if i % 4 == 1:
        # the public subclass for irregular coordinates that originate from a uniform grid: still an irregular grid
        grid = aa.Grid2DIrregularUniform(values=gin.copy(), shape_native=(1, n), pixel_scales=(0.5, 0.5))
        ctx.classes["irregular:Grid2DIrregularUniform"] += 1
    tags = tags_for(r, [gin, gin - np.asarray(centre)], ctx)
    if tags is None:
        return
    p = ctx.profiles[prof_name](tags, centre=centre, angle=angle)
    W = dict(coordinates=gin, profile_class=prof_name, centre=centre, angle=angle, tag_coefficients=tags.c)
    t0, tp = tags.t(gin), tags.pair(gin)

    def unchanged(log):
        return len(log) == 1 and log[0][1].shape == gin.shape and np.array_equal(log[0][1], gin)

    for meth, cls_, exp, mon in (("f_array", aa.ArrayIrregular, t0, "irregular.array.pairing"),
                                 ("f_grid", aa.Grid2DIrregular, tp, "irregular.grid.pairing"),
                                 ("f_vector", aa.VectorYX2DIrregular, tp, "irregular.vector.pairing")):
        ok, res, log = call_logged(ctx, p, "irregular.exception", getattr(p, meth), grid)
        if ok:
            ctx.check(unchanged(log), "irregular.received_unchanged", method=meth, calls=[(t, a.shape) for (t, a) in log], **W)
            good = wrapped_irr(res, cls_, exp)
            if good and meth == "f_vector":
                good = np.array_equal(_np(res.grid), gin)
            ctx.check(good, mon, result_type=type(res).__name__, expected=exp, got=lambda: _np(res), **W)
    for meth, cls_, exp in (("f_array_list", aa.ArrayIrregular, [t0, tags.t(gin, 1), -2.0 * t0]),
                            ("f_grid_list", aa.Grid2DIrregular, [tp, tp[:, ::-1]]),
                            ("f_vector_list", aa.VectorYX2DIrregular, [tp, 3.0 * tp])):
        ok, res, log = call_logged(ctx, p, "irregular.exception", getattr(p, meth), grid)
        if ok:
            ctx.check(isinstance(res, list) and len(res) == len(exp) and all(wrapped_irr(q, cls_, e) for q, e in zip(res, exp)),
                      "irregular.list.wrapped", method=meth, expected=exp, got=lambda: [_np(q) for q in res] if isinstance(res, list) else None, **W)
    # project_grid on an irregular grid: evaluated as is
    for meth, cls_, exp in (("f_project", aa.ArrayIrregular, t0), ("f_project_pairs", aa.Grid2DIrregular, tp)):
        ok, res, log = call_logged(ctx, p, "project.exception", getattr(p, meth), grid)
        if ok:
            ctx.check(unchanged(log) and wrapped_irr(res, cls_, exp), "project.irregular.pairing", method=meth, result_type=type(res).__name__,
                      expected=exp, got=lambda: _np(res), **W)
    check_radial_and_transform(ctx, prof_name, p, grid, gin, W, aa.Grid2DIrregular, lambda q: True)
    check_kwargs_and_nesting(ctx, p, grid, W, frame=gin - np.asarray(p.centre))
    check_composite(ctx, p, grid, W, lambda q: isinstance(q, aa.ArrayIrregular))
    check_guarded(ctx, aa, prof_name, p, grid, gin, W, (aa.ArrayIrregular, aa.Grid2DIrregular, aa.VectorYX2DIrregular), lambda q: True)
    ctx.case("irregular", gin, prof_name, centre, angle, repr(tags.c), nontrivial=n >= 2,
             cls=["irregular", "profile:" + prof_name, "points:%s" % ("1" if n == 1 else "2-5" if n <= 5 else "6+"),
                  "centre:" + ("origin" if centre == (0.0, 0.0) else "shifted")],
             sample=lambda: {"kind": "irregular", "coordinates": gin.tolist(), "profile_class": prof_name, "radial_minimum": mn,
                             "centre": centre, "angle": angle, "tag_coefficients": tags.c, "tags": t0.tolist()})


# ------------------------------------------------------------------------------ Grid1D
def check_grid1d(ctx, i):
    aa = ctx.aa
    if not ctx.begin("grid1d:%d" % i):
        return
    r = gen.rng_for(ctx.seed, NO, 3, i)
    L = int(r.integers(1, 13))
    ps = float(np.exp(r.uniform(np.log(0.05), np.log(5.0))))
    org = 0.0 if r.random() < 0.3 else float(r.normal() * 2 * ps)
    kind = ("uniform", "masked", "values", "masked_values", "masked_values_stored_native")[i % 5]
    if kind in ("masked", "masked_values", "masked_values_stored_native"):
        m1 = r.random(L) < 0.4
        if m1.all():
            m1[int(r.integers(L))] = False
    else:
        m1 = np.zeros(L, dtype=bool)
    mask1 = aa.Mask1D(mask=m1.copy(), pixel_scales=(ps,), origin=(org,))
    if kind == "uniform":
        grid = aa.Grid1D.uniform(shape_native=(L,), pixel_scales=ps, origin=(org,))
    elif kind == "masked":
        grid = aa.Grid1D.from_mask(mask=mask1)
    elif kind == "masked_values_stored_native":
        nat1 = r.normal(size=L) * 3 * ps
        grid = aa.Grid1D(values=nat1.copy(), mask=mask1, store_native=True) if i % 2 else aa.Grid1D(values=nat1[~m1].copy(), mask=mask1).native
    else:
        grid = aa.Grid1D(values=(r.normal(size=int((~m1).sum())) * 3 * ps), mask=mask1)
    x = np.array(_np(grid.slim), dtype=float).reshape(-1)
    n = len(x)
    centre, angle = rand_centre_angle(r)
    prof_name = list(RADIAL_MIN)[i % 3]
    line0 = np.stack([np.zeros(n), x], -1)
    tags = tags_for(r, [line0], ctx)
    if tags is None:
        return
    p = ctx.profiles[prof_name](tags, centre=centre, angle=angle)
    W = dict(mask_1d=m1, pixel_scale=ps, origin=org, grid_kind=kind, coordinates_1d=x, profile_class=prof_name, centre=centre,
             angle=angle, tag_coefficients=tags.c)
    if kind in ("uniform", "masked"):
        expx = (org + (np.arange(L) - (L - 1) / 2.0) * ps)[~m1]
        ctx.check(ctx.close(x, expx, 1e-12), "grid1d.input_coordinates", expected=expx, got=x, **W)
    tol = 1e-10 * max(1.0, float(np.max(np.abs(x))))

    def same_mask1d(res):
        try:
            return np.array_equal(np.asarray(res.mask).astype(bool), m1) and float(res.mask.pixel_scales[0]) == ps
        except Exception:
            return False

    ok, res, log = call_logged(ctx, p, "grid1d.exception", p.f_array, grid)
    if ok:
        line = log[0][1] if len(log) == 1 else None
        ctx.check(line is not None and on_one_line(line, x, tol), "grid1d.line", method="f_array", calls=[(t, a.shape) for (t, a) in log], received=line, **W)
        if line is not None and line.shape == (n, 2):
            # ... and it is THE radially projected line of the 1-D grid (what the grid itself reports), whatever attributes the
            # object that owns the function has (its angle matters to project_grid only)
            own = np.array(_np(grid.grid_2d_radial_projected_from()), dtype=float)
            ctx.check(own.shape == line.shape and float(np.abs(own - line).max(initial=0.0)) <= tol, "grid1d.line", method="f_array",
                      what="the line received is the grid's own radially projected line", received=line, grids_own_projection=own, **W)
        if line is not None and line.shape == (n, 2):
            exp = tags.t(line)
            nat = np.zeros(L)
            nat[~m1] = exp
            ctx.check(isinstance(res, aa.Array1D) and same_mask1d(res) and _np(res.slim).shape == exp.shape and np.array_equal(_np(res.slim), exp)
                      and np.array_equal(_np(res.native), nat), "grid1d.array.pairing", result_type=type(res).__name__, expected=exp, got=lambda: _np(res), **W)
    ok, res, log = call_logged(ctx, p, "grid1d.exception", p.f_array_list, grid)
    if ok and len(log) == 1 and log[0][1].shape == (n, 2):
        line = log[0][1]
        exp = [tags.t(line), tags.t(line, 1), -2.0 * tags.t(line)]
        ctx.check(isinstance(res, list) and len(res) == 3 and all(isinstance(q, aa.Array1D) and same_mask1d(q) and np.array_equal(_np(q.slim), e)
                                                                   for q, e in zip(res, exp)), "grid1d.list.wrapped", expected=exp,
                  got=lambda: [_np(q) for q in res] if isinstance(res, list) else None, **W)
    ok, res, log = call_logged(ctx, p, "grid1d.exception", p.f_grid, grid)
    if ok:
        line = log[0][1] if len(log) == 1 else None
        ctx.check(line is not None and on_one_line(line, x, tol), "grid1d.line", method="f_grid", calls=[(t, a.shape) for (t, a) in log], received=line, **W)
        if line is not None and line.shape == (n, 2):
            own = np.array(_np(grid.grid_2d_radial_projected_from()), dtype=float)
            ctx.check(own.shape == line.shape and float(np.abs(own - line).max(initial=0.0)) <= tol, "grid1d.line", method="f_grid",
                      what="the line received is the grid's own radially projected line", received=line, grids_own_projection=own, **W)
        if line is not None and line.shape == (n, 2):
            exp = tags.pair(line)
            got = _np(res.slim) if hasattr(res, "slim") else _np(res)
            ctx.check(got.shape == exp.shape and np.array_equal(got, exp), "grid1d.grid.pairing", result_type=type(res).__name__, expected=exp, got=got, **W)
    ok, res, log = call_logged(ctx, p, "project.exception", p.f_project, grid)
    if ok:
        line = log[0][1] if len(log) == 1 else None
        ctx.check(line is not None and on_one_line(line, x, tol), "project.grid1d.line", calls=[(t, a.shape) for (t, a) in log], received=line, **W)
        if line is not None and line.shape == (n, 2):
            # the radially projected line of one profile has ONE direction, whatever grid type it is evaluated on: compare the
            # unit vector of the 1-D line (x_k * u) with that of the line the same profile receives for a small Grid2D
            k = int(np.argmax(np.abs(x)))
            if abs(x[k]) > 0:
                u1 = line[k] / x[k]
                g2 = aa.Grid2D.uniform(shape_native=(5, 7), pixel_scales=(ps, ps))
                ok2, _, log2 = call_logged(ctx, p, "project.exception", p.f_project, g2)
                if ok2 and len(log2) == 1 and len(log2[0][1]) >= 2:
                    l2 = log2[0][1]
                    d2 = l2[-1] - l2[0]
                    u2 = d2 / np.hypot(*d2)
                    ctx.check(float(np.abs(u1 / np.hypot(*u1) - u2).max()) <= 1e-9, "project.direction_same_for_1d_and_2d", direction_1d=u1, direction_2d=u2, **W)
            # the projected line turns with the profile's angle: the directions obtained for the angles 0.0 (exactly), a1 and a2
            # differ by the rotations a1 and a2 (one common orientation) - for Grid2D and for Grid1D input alike
            a1, a2 = float(r.uniform(10.0, 80.0)), float(r.uniform(100.0, 170.0))
            dirs = {}
            for gname, gg in (("grid2d", aa.Grid2D.uniform(shape_native=(5, 7), pixel_scales=(ps, ps))), ("grid1d", aa.Grid1D.uniform_from_zero(shape_native=(5,), pixel_scales=ps))):
                th = []
                for a_ in (0.0, a1, a2):
                    q = ctx.profiles[prof_name](tags, centre=centre, angle=a_)
                    okq, _, lq = call_logged(ctx, q, "project.exception", q.f_project, gg)
                    if okq and len(lq) == 1 and len(lq[0][1]) >= 2:
                        dq = lq[0][1][-1] - lq[0][1][0]
                        th.append(float(np.degrees(np.arctan2(dq[0], dq[1]))))
                if len(th) == 3:
                    dirs[gname] = th
                    def turn(x):
                        return (x + 180.0) % 360.0 - 180.0
                    good = any(abs(turn((th[1] - th[0]) - sgn * a1)) <= 1e-6 and abs(turn((th[2] - th[0]) - sgn * a2)) <= 1e-6 for sgn in (1.0, -1.0))
                    ctx.check(good, "project.direction_follows_angle", input=gname, angles=[0.0, a1, a2], line_directions_deg=th, **W)
            exp = tags.t(line)
            ctx.check(isinstance(res, aa.Array1D) and _np(res.slim).shape == exp.shape and np.array_equal(_np(res.slim), exp),
                      "project.grid1d.pairing", result_type=type(res).__name__, expected=exp, got=lambda: _np(res), **W)
    check_kwargs_and_nesting(ctx, p, grid, W, frame=None)
    check_composite(ctx, p, grid, W, lambda q: isinstance(q, aa.Array1D) and same_mask1d(q))
    # history: the same Grid1D object is edited in place (grid[k] = value, e.g. to move a point off a singular centre) and
    # evaluated again: the functions must now receive the line through the coordinates the grid holds NOW
    if n >= 1:
        k = int(r.integers(n))
        x2 = x.copy()
        x2[k] = float(x[k] + (0.37 + r.random()) * ps)
        try:
            grid[k] = x2[k]
            edited = np.array_equal(np.array(_np(grid.slim), dtype=float).reshape(-1), x2)
        except Exception as e:
            edited = False
            ctx.skipped["grid1d:in_place_assignment_not_supported"] += 1
        if edited:
            tol2 = 1e-10 * max(1.0, float(np.max(np.abs(x2))))
            for meth in ("f_array", "f_grid"):
                ok, res, log = call_logged(ctx, p, "grid1d.exception", getattr(p, meth), grid)
                if ok:
                    line = log[0][1] if len(log) == 1 else None
                    good = line is not None and on_one_line(line, x2, tol2)
                    if good and meth == "f_array":
                        good = np.array_equal(_np(res.slim), tags.t(line))
                    ctx.check(good, "grid1d.after_in_place_edit", method=meth, edited_index=k, coordinates_now=x2, received=line, **W)
    ctx.case("grid1d", m1, ps, org, x, prof_name, angle, repr(tags.c), nontrivial=n >= 2,
             cls=["grid1d", "grid1d:" + kind, "angle:" + ("none" if angle is None else "set"), "points:%s" % ("1" if n == 1 else "2-5" if n <= 5 else "6+")],
             sample=lambda: {"kind": "grid1d", "grid_kind": kind, "mask_1d": m1.astype(int).tolist(), "pixel_scale": ps, "origin": org,
                             "coordinates_1d": x.tolist(), "profile_class": prof_name, "angle": angle, "tag_coefficients": tags.c})


def run_unit(ctx, u):
    fn = {"grid2d": check_grid2d, "irregular": check_irregular, "grid1d": check_grid1d}
    for g in range(u["start"], u["stop"]):
        kind, j = kind_index(g)
        fn[kind](ctx, j)


def post(merged, inconclusive, tier):
    for c in ("radial:inside", "radial:outside", "radial:exactly_on", "radial:r_zero", "coords:arbitrary", "coords:pixel_centres",
              "grid1d:masked", "grid1d:masked_values", "profile:VerifC17Small", "profile:VerifC17Mid", "profile:VerifC17Big"):
        if merged["classes"].get(c, 0) < 1:
            inconclusive.append("input class %r never generated" % c)
