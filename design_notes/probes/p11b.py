from common import *
import logging; logging.disable(logging.CRITICAL)
import hashlib, inspect
from p04 import build
from autoconf.tools.decorators import CachedProperty
def fp(v,depth=0):
    if isinstance(v,(int,float,complex,str,bool,type(None),np.generic)): return repr(v)
    if isinstance(v,np.ndarray): 
        if v.dtype==object: return 'objarr'
        return 'nd:'+str(v.shape)+hashlib.sha1(np.ascontiguousarray(v).tobytes()).hexdigest()[:10]
    if hasattr(v,'_array'): return type(v).__name__+':'+fp(np.asarray(v._array))
    if isinstance(v,(list,tuple)): return '['+','.join(fp(x,depth+1) for x in v)+']' if depth<3 else 'deep'
    if isinstance(v,dict): return '{'+','.join(fp(x,depth+1) for x in v.values())+'}' if depth<3 else 'deep'
    return 'obj:'+type(v).__name__
def quantities(obj):
    names=[]
    for klass in type(obj).__mro__:
        for n,a in vars(klass).items():
            if n.startswith('_'): continue
            if isinstance(a,(property,CachedProperty)): names.append(n)
    return sorted(set(names))
def read(obj,n):
    try: return fp(getattr(obj,n))
    except Exception as e: return 'EXC:'+type(e).__name__
def graph(seed,use_w):
    ds,mapper=build(9,9,(3,3),False,sub=1+seed%2,seed=seed)
    inv=aa.Inversion(dataset=ds,linear_obj_list=[mapper],settings=aa.SettingsInversion(use_w_tilde=use_w,use_positive_only_solver=False))
    return {'inv':inv,'mapper':mapper,'ds':ds,'grid':ds.grids.pixelization,'mask':ds.mask,'data':ds.data}
skip={'inv':{'reconstruction_noise_map_with_covariance','reconstruction_noise_map','reconstruction_noise_map_dict'}}
g0=graph(1,True)
for k,o in g0.items(): print(k,type(o).__name__,len(quantities(o)))
# baseline: each quantity read first on fresh graph
import time; t=time.time()
base={}
names=[(k,n) for k,o in g0.items() for n in quantities(o) if n not in skip.get(k,())]
print(len(names),'quantities')
for (k,n) in names:
    g=graph(1,True); base[(k,n)]=read(g[k],n)
print('baseline time',time.time()-t)
exc=[kn for kn,v in base.items() if v.startswith('EXC')]
print('EXC in baseline:',[(kn,base[kn]) for kn in exc][:40])
rng=np.random.default_rng(0)
viol={}
for h in range(6):
    g=graph(1,True)
    order=[names[i] for i in rng.permutation(len(names))]
    for (k,n) in order+order[:30]:
        v=read(g[k],n)
        if v!=base[(k,n)]: viol.setdefault((k,n),[]).append((h,base[(k,n)][:40],v[:40]))
for kn,v in viol.items(): print('ORDER-DEP',kn,v[0],len(v))
