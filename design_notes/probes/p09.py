from common import *
import logging; logging.disable(logging.CRITICAL)
rng=np.random.default_rng(9)
def subgrid(mask,i,j,sub):
    H,W=mask.shape_native; sy,sx=mask.pixel_scales; oy,ox=mask.origin
    cy=oy+((H-1)/2-i)*sy; cx=ox+(j-(W-1)/2)*sx
    pts=[]
    for a in range(sub):
        for b in range(sub):
            pts.append((cy+sy/2-(a+0.5)*sy/sub, cx-sx/2+(b+0.5)*sx/sub))
    return np.array(pts)
def ref_iter(f,mask,steps,facc,racc):
    out=[]
    for (i,j) in zip(*np.where(~np.array(mask))):
        prev=f(subgrid(mask,i,j,1)).mean(); val=None
        for s in steps[:-1]:
            cur=f(subgrid(mask,i,j,s)).mean()
            if prev>0:
                r=prev/cur if cur!=0 else np.inf
                if r>1: r=1/r
            else: r=0.0
            ok = r>=facc
            if racc is not None and abs(prev-cur)>racc: ok=False
            if ok: val=cur; break
            prev=cur
        if val is None: val=f(subgrid(mask,i,j,steps[-1])).mean()
        out.append(val)
    return np.array(out)
class P:
    centre=(0.0,0.0)
    def __init__(self,f): self.f=f
    @aa.over_sample
    def image(self,grid,*a,**k): return self.f(np.array(grid))
funcs={'gauss':lambda g: np.exp(-(g[:,0]**2+g[:,1]**2)/0.5),
       'signed':lambda g: np.sin(3*g[:,0])*np.cos(2*g[:,1])+0.2,
       'affine':lambda g: 1+2*g[:,0]-0.5*g[:,1],
       'centrezero':lambda g: np.where((np.abs(g[:,0])<1e-12)&(np.abs(g[:,1])<1e-12),0.0,1.0)}
bad={}
for t in range(40):
    H,W=rng.integers(2,5),rng.integers(2,5); m=rmask(rng,H,W,p=0.3)
    mask=aa.Mask2D(mask=m,pixel_scales=(rng.uniform(0.2,1),rng.uniform(0.2,1)),origin=tuple(rng.normal(size=2)*0.3))
    steps=[[2,4],[2,4,8],[3,5]][t%3]; facc=[0.99,0.9999,0.5][t%3]; racc=[None,1e-3,None][(t//3)%3]
    for nm,f in funcs.items():
        grid=aa.Grid2D.from_mask(mask,over_sampling=aa.OverSamplingIterate(fractional_accuracy=facc,relative_accuracy=racc,sub_steps=steps))
        try:
            got=P(f).image(grid).array
        except Exception as e:
            bad[nm+':exc:'+repr(e)[:60]]=bad.get(nm+':exc:'+repr(e)[:60],0)+1; continue
        ref=ref_iter(f,mask,steps,facc,racc)
        if not np.allclose(got,ref,rtol=1e-9,atol=1e-12): bad[nm]=bad.get(nm,0)+1
# one-pixel mask centred at 0 for centrezero
mask=aa.Mask2D(mask=np.array([[True,True,True],[True,False,True],[True,True,True]]),pixel_scales=1.0)
grid=aa.Grid2D.from_mask(mask,over_sampling=aa.OverSamplingIterate(sub_steps=[2,4]))
print('centrezero 1pix got',P(funcs['centrezero']).image(grid).array,'ref',ref_iter(funcs['centrezero'],mask,[2,4],0.9999,None))
print(bad)
