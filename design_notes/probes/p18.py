from common import *
import logging; logging.disable(logging.CRITICAL)
rng=np.random.default_rng(18)
bad={}
def flag(k,info=None):
    bad.setdefault(k,[0,None]); bad[k][0]+=1
    if bad[k][1] is None: bad[k][1]=info
N=0
for t in range(80):
    H,W=rng.integers(4,9),rng.integers(4,9)
    m=rmask(rng,H,W,p=0.35,ring=True)
    mask=aa.Mask2D(mask=m,pixel_scales=(rng.uniform(0.3,1.2),)*2,origin=tuple(rng.normal(size=2)))
    n=(~m).sum()
    sub=aa.Array2D(values=rng.integers(1,4,size=n),mask=mask) if t%2 else int(rng.integers(1,4))
    br=aa.BorderRelocator(mask=mask,sub_size=sub)
    if len(br.sub_border_slim)==0: continue
    N+=1
    osamp=aa.OverSamplerUniform(mask=mask,sub_size=sub)
    g=osamp.over_sampled_grid.array
    src=g*rng.uniform(0.5,1.5)+0.2*np.sin(3*g[:,::-1])
    # push some points far out
    far=rng.random(len(src))<0.3
    src[far]*=rng.uniform(1.5,10,size=far.sum())[:,None]
    out=br.relocated_grid_from(aa.Grid2DIrregular(values=src.copy())).array
    bg=src[br.sub_border_slim]; c=bg.mean(0); br_r=np.linalg.norm(bg-c,axis=1); rmin=br_r.min(); rmax=br_r.max()
    r=np.linalg.norm(src-c,axis=1); ro=np.linalg.norm(out-c,axis=1)
    if out.shape!=src.shape: flag('shape')
    inside=r<=rmin
    if not np.array_equal(out[inside],src[inside]): flag('interior changed')
    if (ro>rmax*(1+1e-12)).any(): flag('beyond max',(ro.max(),rmax))
    if (ro>r*(1+1e-12)).any(): flag('outward')
    moved=~np.all(out==src,axis=1)
    # ray
    for i in np.where(moved)[0]:
        u=(src[i]-c)/r[i]; v=(out[i]-c)/ro[i]
        if not np.allclose(u,v,atol=1e-9): flag('ray'); break
        nb=np.argmin(((src[i]-bg)**2).sum(1))
        if not np.isclose(ro[i],br_r[nb],rtol=1e-9): flag('radius'); break
    for i in np.where(~moved & ~inside)[0]:
        nb=np.argmin(((src[i]-bg)**2).sum(1))
        if br_r[nb] < r[i]*(1-1e-12): flag('should move'); break
    # sub border farthest
    nfs=mask.derive_indexes.native_for_slim; ys,xs=np.where(~m)
    bbc=((ys.min()+ys.max())/2,(xs.min()+xs.max())/2)  # pixel index units, centre of bounding box of unmasked pixels
    ssz=np.full(n,sub) if isinstance(sub,int) else np.array(sub.array).astype(int)
    starts=np.concatenate([[0],np.cumsum(ssz**2)])
    for bi,bp in enumerate(mask.derive_indexes.border_slim):
        y,x=nfs[bp]; s=ssz[bp]
        pts=[(y-0.5+(a+0.5)/s, x-0.5+(b+0.5)/s) for a in range(s) for b in range(s)]
        d=np.array([(p[0]-bbc[0])**2+(p[1]-bbc[1])**2 for p in pts])
        chosen=br.sub_border_slim[bi]-starts[bp]
        if not (0<=chosen<s*s): flag('sub border not in pixel'); break
        if d[chosen] < d.max()-1e-9: flag('sub border not farthest',(t,isinstance(sub,int),d[chosen],d.max())); break
print(N); 
for k,v in bad.items(): print(k,v)
